// Minimal stand-in for rapidjson (the submodule is empty in this sandbox).
// Only good enough to COMPILE Content.cpp / util.cpp; JSON parsing is a crude
// string comparison and is never used by the reduce code path.
#ifndef FAKE_RAPIDJSON_DOCUMENT_H_
#define FAKE_RAPIDJSON_DOCUMENT_H_
#include <string>
#include <vector>
#include <cstdint>
namespace rapidjson {
  typedef unsigned SizeType;
  enum ParseFlag { kParseNanAndInfFlag = 256 };
  struct Member;
  class Value {
  public:
    std::string raw;
    bool IsString() const { return raw.size() >= 2 && raw[0] == '"'; }
    bool IsNull() const { return raw == "null"; }
    bool IsBool() const { return raw == "true" || raw == "false"; }
    bool IsInt() const { return false; }
    bool IsArray() const { return false; }
    bool IsObject() const { return false; }
    bool GetBool() const { return raw == "true"; }
    int64_t GetInt64() const { return 0; }
    const char* GetString() const {
      if (IsString()) { str_ = raw.substr(1, raw.size() - 2); } else { str_ = raw; }
      return str_.c_str();
    }
    bool HasMember(const char*) const { return false; }
    const Value& operator[](const char*) const { return *this; }
    const std::vector<Member>& GetObject() const;
    const std::vector<Value>& GetArray() const { static std::vector<Value> v; return v; }
    template <typename W> bool Accept(W&) const { return true; }
    bool operator==(const Value& other) const { return raw == other.raw; }
  private:
    mutable std::string str_;
  };
  struct Member { Value name; Value value; };
  inline const std::vector<Member>& Value::GetObject() const { static std::vector<Member> v; return v; }
  class Document : public Value {
  public:
    template <unsigned FLAGS>
    Document& Parse(const char* s) {
      raw = s;
      size_t a = raw.find_first_not_of(" \t\n\r");
      size_t b = raw.find_last_not_of(" \t\n\r");
      raw = (a == std::string::npos) ? std::string() : raw.substr(a, b - a + 1);
      return *this;
    }
  };
}
#endif
