#ifndef FAKE_RAPIDJSON_PRETTYWRITER_H_
#define FAKE_RAPIDJSON_PRETTYWRITER_H_
#include "rapidjson/writer.h"
namespace rapidjson {
  template <typename B>
  class PrettyWriter : public Writer<B> {
  public:
    PrettyWriter(B& b) : Writer<B>(b) { }
  };
}
#endif
