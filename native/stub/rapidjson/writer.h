#ifndef FAKE_RAPIDJSON_WRITER_H_
#define FAKE_RAPIDJSON_WRITER_H_
#include "rapidjson/document.h"
#include "rapidjson/stringbuffer.h"
namespace rapidjson {
  template <typename B>
  class Writer {
  public:
    Writer(B& b) : b_(b) { }
    bool String(const char* x, SizeType n) {
      b_.s += '"'; b_.s.append(x, n); b_.s += '"'; return true;
    }
  private:
    B& b_;
  };
}
#endif
