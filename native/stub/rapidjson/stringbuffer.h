#ifndef FAKE_RAPIDJSON_STRINGBUFFER_H_
#define FAKE_RAPIDJSON_STRINGBUFFER_H_
#include <string>
namespace rapidjson {
  class StringBuffer {
  public:
    std::string s;
    const char* GetString() const { return s.c_str(); }
  };
}
#endif
