// Stand-in for the two string writers of src/libawkward/io/json.cpp (which needs rapidjson's SAX writer and is
// not linked): a plain compact JSON text writer, so that code paths that RENDER a Form or a parameter set into an
// error message (ArrayGenerator::generate_and_check, validityerror, tostring) raise their exception instead of
// calling an unresolved symbol.  It is NOT the library's JSON output: nothing checked by Engine N reads this text.
#include <string>
#include <vector>
#include <complex>
#include <cstdio>
#include <cstring>
#include "awkward/io/json.h"

namespace awkward {
  ToJson::~ToJson() = default;
  void ToJson::string(const std::string& x) { string(x.c_str(), (int64_t)x.length()); }
  void ToJson::field(const std::string& x) { field(x.c_str()); }

  namespace {
    struct Text {
      std::string out;
      std::vector<bool> first;
      bool after_field = false;
      void sep() {
        if (after_field) { after_field = false; return; }
        if (!first.empty()) { if (!first.back()) out += ","; first.back() = false; }
      }
      void str(const char* x, size_t n) {
        out += '"';
        for (size_t i = 0; i < n; i++) {
          char c = x[i];
          if (c == '"' || c == '\\') { out += '\\'; out += c; }
          else if ((unsigned char)c < 0x20) { char b[8]; snprintf(b, 8, "\\u%04x", c); out += b; }
          else out += c;
        }
        out += '"';
      }
    };
  }

#define WRITER(CLS)                                                                                      \
  class CLS::Impl { public: Text t; };                                                                   \
  CLS::CLS(int64_t, const char*, const char*, const char*, const char*, const char*) : impl_(new Impl) {} \
  CLS::~CLS() { delete impl_; }                                                                          \
  void CLS::null() { impl_->t.sep(); impl_->t.out += "null"; }                                           \
  void CLS::boolean(bool x) { impl_->t.sep(); impl_->t.out += (x ? "true" : "false"); }                  \
  void CLS::integer(int64_t x) { impl_->t.sep(); impl_->t.out += std::to_string(x); }                    \
  void CLS::real(double x) { impl_->t.sep(); char b[64]; snprintf(b, 64, "%.17g", x); impl_->t.out += b; } \
  void CLS::complex(std::complex<double> x) { impl_->t.sep(); char b[128]; snprintf(b, 128, "{\"r\":%.17g,\"i\":%.17g}", x.real(), x.imag()); impl_->t.out += b; } \
  void CLS::string(const char* x, int64_t length) { impl_->t.sep(); impl_->t.str(x, (size_t)length); }   \
  void CLS::beginlist() { impl_->t.sep(); impl_->t.out += "["; impl_->t.first.push_back(true); }          \
  void CLS::endlist() { impl_->t.out += "]"; impl_->t.first.pop_back(); }                                \
  void CLS::beginrecord() { impl_->t.sep(); impl_->t.out += "{"; impl_->t.first.push_back(true); }        \
  void CLS::field(const char* x) { impl_->t.sep(); impl_->t.str(x, strlen(x)); impl_->t.out += ":"; impl_->t.after_field = true; } \
  void CLS::endrecord() { impl_->t.out += "}"; impl_->t.first.pop_back(); }                              \
  void CLS::json(const char* data) { impl_->t.sep(); impl_->t.out += data; }                             \
  const std::string CLS::tostring() { return impl_->t.out; }

  WRITER(ToJsonString)
  WRITER(ToJsonPrettyString)
}
