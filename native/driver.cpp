// Engine N driver: builds layouts of the REAL libawkward classes from a token
// stream, calls the real Content methods, and prints the result read as nested
// Python values (the observation ak.to_list makes: length() + getitem_at_nowrap,
// Record fields, NumpyArray scalars), the result's validityerror, and whether the
// input layouts are byte-for-byte what they were before the call.
//
// One case per stdin line:   <id> <op> <op-args...> <layouts...>
// One reply per case:        <id> \t OK|EXC|CRASH|TIMEOUT \t <payload> [\t <validity> \t <pure>]
// Each case runs in a forked child, so a fault of the library is an observation.
#include <iostream>
#include <sstream>
#include <string>
#include <vector>
#include <memory>
#include <cstring>
#include <cstdio>
#include <cmath>
#include <complex>
#include <stdexcept>
#include <unistd.h>
#include <signal.h>
#include <sys/wait.h>

#include "awkward/util.h"
#include "awkward/Content.h"
#include "awkward/Index.h"
#include "awkward/Slice.h"
#include "awkward/Reducer.h"
#include "awkward/Identities.h"
#include "awkward/array/NumpyArray.h"
#include "awkward/array/ListArray.h"
#include "awkward/array/ListOffsetArray.h"
#include "awkward/array/RegularArray.h"
#include "awkward/array/IndexedArray.h"
#include "awkward/array/ByteMaskedArray.h"
#include "awkward/array/BitMaskedArray.h"
#include "awkward/array/UnmaskedArray.h"
#include "awkward/array/UnionArray.h"
#include "awkward/array/RecordArray.h"
#include "awkward/array/Record.h"
#include "awkward/array/EmptyArray.h"
#include "awkward/array/None.h"
#include "awkward/array/VirtualArray.h"
#include "awkward/virtual/ArrayGenerator.h"
#include "awkward/virtual/ArrayCache.h"
#include "awkward/partition/PartitionedArray.h"
#include "awkward/partition/IrregularlyPartitionedArray.h"
#include "awkward/type/Type.h"
#include "awkward/builder/ArrayBuilder.h"
#include "awkward/forth/ForthMachine.h"
#include "awkward/forth/ForthInputBuffer.h"
#include "awkward/forth/ForthOutputBuffer.h"
#include <map>
#include "awkward/builder/ArrayBuilderOptions.h"

using namespace awkward;

struct Toks {
  std::vector<std::string> t;
  size_t pos;
  const std::string& next() {
    if (pos >= t.size()) throw std::logic_error("driver: out of tokens");
    return t[pos++];
  }
  int64_t i64() { return (int64_t)strtoll(next().c_str(), nullptr, 10); }
  uint64_t u64() { return (uint64_t)strtoull(next().c_str(), nullptr, 10); }
  double f64() {
    const std::string& s = next();
    if (s == "nan") return NAN;
    if (s == "inf") return INFINITY;
    if (s == "-inf") return -INFINITY;
    return strtod(s.c_str(), nullptr);
  }
  bool more() const { return pos < t.size(); }
};

// every layout built for the case, so that purity can be checked afterwards
static std::vector<ContentPtr> g_inputs;
static std::vector<std::string> g_before;

template <typename T>
static IndexOf<T> mkindex(Toks& tk, int64_t n) {
  IndexOf<T> out(n);
  for (int64_t i = 0; i < n; i++) out.data()[i] = (T)tk.i64();
  return out;
}

template <typename T>
static ContentPtr mknumpy(Toks& tk, util::dtype dt, const std::vector<ssize_t>& shape,
                          const std::vector<ssize_t>& strides_items, ssize_t offset_items, int64_t nbuf,
                          bool isfloat, bool isunsigned, const std::string& fmt = std::string()) {
  std::shared_ptr<void> ptr = kernel::malloc<void>(kernel::lib::cpu, (nbuf == 0 ? 1 : nbuf) * (int64_t)sizeof(T));
  T* raw = reinterpret_cast<T*>(ptr.get());
  for (int64_t i = 0; i < nbuf; i++) {
    if (isfloat) raw[i] = (T)tk.f64();
    else if (isunsigned) raw[i] = (T)tk.u64();
    else raw[i] = (T)tk.i64();
  }
  std::vector<ssize_t> strides;
  for (auto s : strides_items) strides.push_back(s * (ssize_t)sizeof(T));
  return std::make_shared<NumpyArray>(Identities::none(), util::Parameters(), ptr, shape, strides,
                                      offset_items * (ssize_t)sizeof(T), (ssize_t)sizeof(T),
                                      fmt.empty() ? util::dtype_to_format(dt) : fmt, dt, kernel::lib::cpu);
}

static ContentPtr mknumpy_dispatch(Toks& tk, const std::string& dts, const std::vector<ssize_t>& shape,
                                   const std::vector<ssize_t>& strides, ssize_t off, int64_t nbuf) {
  if (dts == "bool") return mknumpy<uint8_t>(tk, util::dtype::boolean, shape, strides, off, nbuf, false, true);
  if (dts == "int8") return mknumpy<int8_t>(tk, util::dtype::int8, shape, strides, off, nbuf, false, false);
  if (dts == "int16") return mknumpy<int16_t>(tk, util::dtype::int16, shape, strides, off, nbuf, false, false);
  if (dts == "int32") return mknumpy<int32_t>(tk, util::dtype::int32, shape, strides, off, nbuf, false, false);
  if (dts == "int64") return mknumpy<int64_t>(tk, util::dtype::int64, shape, strides, off, nbuf, false, false);
  if (dts == "uint8") return mknumpy<uint8_t>(tk, util::dtype::uint8, shape, strides, off, nbuf, false, true);
  if (dts == "uint16") return mknumpy<uint16_t>(tk, util::dtype::uint16, shape, strides, off, nbuf, false, true);
  if (dts == "uint32") return mknumpy<uint32_t>(tk, util::dtype::uint32, shape, strides, off, nbuf, false, true);
  if (dts == "uint64") return mknumpy<uint64_t>(tk, util::dtype::uint64, shape, strides, off, nbuf, false, true);
  if (dts == "float32") return mknumpy<float>(tk, util::dtype::float32, shape, strides, off, nbuf, true, false);
  if (dts == "float64") return mknumpy<double>(tk, util::dtype::float64, shape, strides, off, nbuf, true, false);
  // complex numbers: every item is two tokens (real, imaginary)
  if (dts == "complex128" || dts == "complex64") {
    bool dbl = (dts == "complex128");
    int64_t isz = dbl ? 16 : 8;
    std::shared_ptr<void> ptr = kernel::malloc<void>(kernel::lib::cpu, (nbuf == 0 ? 1 : nbuf) * isz);
    for (int64_t i = 0; i < 2 * nbuf; i++) {
      double v = tk.f64();
      if (dbl) reinterpret_cast<double*>(ptr.get())[i] = v;
      else reinterpret_cast<float*>(ptr.get())[i] = (float)v;
    }
    std::vector<ssize_t> bstrides;
    for (auto st : strides) bstrides.push_back(st * (ssize_t)isz);
    util::dtype dt = dbl ? util::dtype::complex128 : util::dtype::complex64;
    return std::make_shared<NumpyArray>(Identities::none(), util::Parameters(), ptr, shape, bstrides,
                                        off * (ssize_t)isz, (ssize_t)isz, util::dtype_to_format(dt), dt, kernel::lib::cpu);
  }
  // datetimes and time differences: 64-bit tick counts with the unit in the format, e.g. M8[ms] / m8[s]
  if (dts.rfind("M8[", 0) == 0) return mknumpy<int64_t>(tk, util::dtype::datetime64, shape, strides, off, nbuf, false, false, dts);
  if (dts.rfind("m8[", 0) == 0) return mknumpy<int64_t>(tk, util::dtype::timedelta64, shape, strides, off, nbuf, false, false, dts);
  throw std::logic_error("driver: unknown dtype " + dts);
}

static ContentPtr parse_layout(Toks& tk);

template <typename T>
static ContentPtr mk_lo(Toks& tk) {
  int64_t n = tk.i64();
  IndexOf<T> offsets = mkindex<T>(tk, n);
  ContentPtr c = parse_layout(tk);
  return std::make_shared<ListOffsetArrayOf<T>>(Identities::none(), util::Parameters(), offsets, c);
}
template <typename T>
static ContentPtr mk_la(Toks& tk) {
  int64_t n = tk.i64();
  int64_t m = tk.i64();
  IndexOf<T> starts = mkindex<T>(tk, n);
  IndexOf<T> stops = mkindex<T>(tk, m);
  ContentPtr c = parse_layout(tk);
  return std::make_shared<ListArrayOf<T>>(Identities::none(), util::Parameters(), starts, stops, c);
}
template <typename T, bool OPT>
static ContentPtr mk_ix(Toks& tk) {
  int64_t n = tk.i64();
  IndexOf<T> index = mkindex<T>(tk, n);
  ContentPtr c = parse_layout(tk);
  return std::make_shared<IndexedArrayOf<T, OPT>>(Identities::none(), util::Parameters(), index, c);
}
template <typename I>
static ContentPtr mk_un(Toks& tk) {
  int64_t n = tk.i64();
  int64_t m = tk.i64();
  Index8 tags = mkindex<int8_t>(tk, n);
  IndexOf<I> index = mkindex<I>(tk, m);
  int64_t k = tk.i64();
  ContentPtrVec contents;
  for (int64_t i = 0; i < k; i++) contents.push_back(parse_layout(tk));
  return std::make_shared<UnionArrayOf<int8_t, I>>(Identities::none(), util::Parameters(), tags, index, contents);
}

static ContentPtr parse_layout(Toks& tk) {
  std::string c = tk.next();
  if (c == "np") {
    std::string dt = tk.next();
    int64_t n = tk.i64();
    return mknumpy_dispatch(tk, dt, {(ssize_t)n}, {1}, 0, n);
  }
  if (c == "nps") {
    std::string dt = tk.next();
    int64_t ndim = tk.i64();
    std::vector<ssize_t> shape, strides;
    for (int64_t i = 0; i < ndim; i++) shape.push_back((ssize_t)tk.i64());
    for (int64_t i = 0; i < ndim; i++) strides.push_back((ssize_t)tk.i64());
    ssize_t off = (ssize_t)tk.i64();
    int64_t nbuf = tk.i64();
    return mknumpy_dispatch(tk, dt, shape, strides, off, nbuf);
  }
  if (c == "lo") {
    std::string w = tk.next();
    if (w == "32") return mk_lo<int32_t>(tk);
    if (w == "U32") return mk_lo<uint32_t>(tk);
    return mk_lo<int64_t>(tk);
  }
  if (c == "la") {
    std::string w = tk.next();
    if (w == "32") return mk_la<int32_t>(tk);
    if (w == "U32") return mk_la<uint32_t>(tk);
    return mk_la<int64_t>(tk);
  }
  if (c == "rg") {
    int64_t size = tk.i64();
    int64_t zl = tk.i64();
    ContentPtr x = parse_layout(tk);
    return std::make_shared<RegularArray>(Identities::none(), util::Parameters(), x, size, zl);
  }
  if (c == "ix") {
    std::string w = tk.next();
    if (w == "32") return mk_ix<int32_t, false>(tk);
    if (w == "U32") return mk_ix<uint32_t, false>(tk);
    return mk_ix<int64_t, false>(tk);
  }
  if (c == "io") {
    std::string w = tk.next();
    if (w == "32") return mk_ix<int32_t, true>(tk);
    return mk_ix<int64_t, true>(tk);
  }
  if (c == "bm") {
    bool vw = tk.i64() != 0;
    int64_t n = tk.i64();
    Index8 mask = mkindex<int8_t>(tk, n);
    ContentPtr x = parse_layout(tk);
    return std::make_shared<ByteMaskedArray>(Identities::none(), util::Parameters(), mask, x, vw);
  }
  if (c == "bt") {
    bool vw = tk.i64() != 0;
    bool lsb = tk.i64() != 0;
    int64_t length = tk.i64();
    int64_t nb = tk.i64();
    IndexU8 mask = mkindex<uint8_t>(tk, nb);
    ContentPtr x = parse_layout(tk);
    return std::make_shared<BitMaskedArray>(Identities::none(), util::Parameters(), mask, x, vw, length, lsb);
  }
  if (c == "um") {
    ContentPtr x = parse_layout(tk);
    return std::make_shared<UnmaskedArray>(Identities::none(), util::Parameters(), x);
  }
  if (c == "un") {
    std::string w = tk.next();
    if (w == "32") return mk_un<int32_t>(tk);
    if (w == "U32") return mk_un<uint32_t>(tk);
    return mk_un<int64_t>(tk);
  }
  if (c == "rc") {
    int64_t length = tk.i64();
    int64_t k = tk.i64();
    bool istuple = tk.i64() != 0;
    util::RecordLookupPtr lookup(nullptr);
    if (!istuple) {
      lookup = std::make_shared<util::RecordLookup>();
      for (int64_t i = 0; i < k; i++) lookup.get()->push_back(tk.next());
    }
    ContentPtrVec contents;
    for (int64_t i = 0; i < k; i++) contents.push_back(parse_layout(tk));
    return std::make_shared<RecordArray>(Identities::none(), util::Parameters(), contents, lookup, length);
  }
  if (c == "em") {
    return std::make_shared<EmptyArray>(Identities::none(), util::Parameters());
  }
  if (c == "par") {
    int64_t k = tk.i64();
    util::Parameters p;
    for (int64_t i = 0; i < k; i++) {
      std::string key = tk.next();
      std::string val = tk.next();
      p[key] = val;
    }
    ContentPtr x = parse_layout(tk);
    x.get()->setparameters(p);
    return x;
  }
  throw std::logic_error("driver: unknown layout token " + c);
}

static void dump(const ContentPtr& c, std::ostream& out);

////////////////////////////////////////////////////////////////// virtual arrays (C18)

// a generator that hands out a prepared layout and counts how often it is asked
static int64_t g_generate_calls = 0;
static int64_t g_fail_remaining = 0;
class CountingGenerator: public ArrayGenerator {
public:
  CountingGenerator(const FormPtr& form, int64_t length, const ContentPtr& content, int64_t fail_first)
      : ArrayGenerator(form, length), content_(content), fail_first_(fail_first) { }
  const ContentPtr generate() const override {
    g_generate_calls++;
    if (g_fail_remaining > 0) { g_fail_remaining--; throw std::invalid_argument("generator failed (as asked by the driver)"); }
    return content_;
  }
  void caches(std::vector<ArrayCachePtr>& out) const override { }
  const std::string tostring_part(const std::string& indent, const std::string& pre, const std::string& post) const override {
    return indent + pre + "<CountingGenerator/>" + post;
  }
  const std::shared_ptr<ArrayGenerator> shallow_copy() const override {
    return std::make_shared<CountingGenerator>(form_, length_, content_, fail_first_);
  }
  const std::shared_ptr<ArrayGenerator> with_form(const FormPtr& form) const override {
    return std::make_shared<CountingGenerator>(form, length_, content_, fail_first_);
  }
  const std::shared_ptr<ArrayGenerator> with_length(int64_t length) const override {
    return std::make_shared<CountingGenerator>(form_, length, content_, fail_first_);
  }
  bool referentially_equal(const ArrayGeneratorPtr& other) const override { return other.get() == this; }
private:
  ContentPtr content_;
  int64_t fail_first_;
};

// caches: unbounded map, or one that forgets every entry after `keep` successful gets (evicts at any moment)
class TestCache: public ArrayCache {
public:
  TestCache(int64_t keep): keep_(keep), gets_(0) { }
  ContentPtr get(const std::string& key) const override {
    auto it = map_.find(key);
    if (it == map_.end()) return ContentPtr(nullptr);
    if (keep_ >= 0) {
      gets_++;
      if (gets_ > keep_) { map_.erase(it); gets_ = 0; return ContentPtr(nullptr); }
    }
    return it->second;
  }
  void set(const std::string& key, const ContentPtr& value) override { map_[key] = value; }
  bool is_broken() const override { return false; }
  const std::string tostring_part(const std::string& indent, const std::string& pre, const std::string& post) const override {
    return indent + pre + "<TestCache/>" + post;
  }
private:
  int64_t keep_;
  mutable int64_t gets_;
  mutable std::map<std::string, ContentPtr> map_;
};

static std::vector<std::pair<ContentPtr, ContentPtr>> g_virtuals;   // (virtual array, the layout its generator hands out)
static int g_virtual_inner = 0;       // > 0: the VirtualArray sits that many nodes below the outermost one                                // wrap the content of the outermost node instead

struct VirtualMode {
  bool on;
  int64_t cache_keep;     // -2: no cache object, -1: unbounded, k >= 0: evict after k gets
  int64_t decl_length;    // -1: not declared, -2: declare the true length, else this number
  int decl_form;          // 0: not declared, 1: the true form, 2: the form of some other layout
  int64_t fail_first;     // the first n generations throw
};
static VirtualMode g_virtual = {false, -2, -1, 0, 0};

static ContentPtr make_virtual(const ContentPtr& x) {
  FormPtr form(nullptr);
  if (g_virtual.decl_form == 1) form = x.get()->form(true);
  if (g_virtual.decl_form == 2) {
    Index64 other(1);
    other.data()[0] = 0;
    ContentPtr y = std::make_shared<ListOffsetArray64>(Identities::none(), util::Parameters(), other,
                                                       std::make_shared<NumpyArray>(Index8(0)));
    form = y.get()->form(true);
  }
  if (g_virtual.decl_form == 3 || g_virtual.decl_form == 4) {
    // the form of a record array with the same field names: 3 = the same fields stored in reverse order (names keep
    // their types: the same form by name), 4 = the contents reversed under the original names (names and types no
    // longer belong together: a different form)
    RecordArray* r = dynamic_cast<RecordArray*>(x.get());
    if (r == nullptr || r->numfields() < 2 || r->istuple()) throw std::logic_error("driver: decl_form 3/4 need a record array with two or more named fields");
    ContentPtrVec fwd = r->contents();
    ContentPtrVec rev(fwd.rbegin(), fwd.rend());
    util::RecordLookupPtr lookup = r->recordlookup();
    if (g_virtual.decl_form == 3) {
      lookup = std::make_shared<util::RecordLookup>(lookup.get()->rbegin(), lookup.get()->rend());
    }
    ContentPtr y = std::make_shared<RecordArray>(Identities::none(), r->parameters(), rev, lookup, r->length());
    form = y.get()->form(true);
  }
  int64_t length = g_virtual.decl_length;
  if (length == -2) length = x.get()->length();
  ArrayGeneratorPtr gen = std::make_shared<CountingGenerator>(form, length, x, g_virtual.fail_first);
  ArrayCachePtr cache(nullptr);
  if (g_virtual.cache_keep != -2) cache = std::make_shared<TestCache>(g_virtual.cache_keep);
  ContentPtr v = std::make_shared<VirtualArray>(Identities::none(), util::Parameters(), gen, cache);
  g_virtuals.push_back(std::make_pair(v, x));
  return v;
}

// the same node with its content replaced by a VirtualArray of that content (lists, regular, indexed and option nodes);
// any other node is wrapped as a whole
static ContentPtr make_virtual_inner(const ContentPtr& x, int d);
template <typename T>
static bool virtual_list(const ContentPtr& x, ContentPtr& out, int d) {
  if (ListOffsetArrayOf<T>* r = dynamic_cast<ListOffsetArrayOf<T>*>(x.get())) {
    out = std::make_shared<ListOffsetArrayOf<T>>(r->identities(), r->parameters(), r->offsets(), make_virtual_inner(r->content(), d - 1));
    return true;
  }
  if (ListArrayOf<T>* r = dynamic_cast<ListArrayOf<T>*>(x.get())) {
    out = std::make_shared<ListArrayOf<T>>(r->identities(), r->parameters(), r->starts(), r->stops(), make_virtual_inner(r->content(), d - 1));
    return true;
  }
  return false;
}
template <typename T, bool OPT>
static bool virtual_indexed(const ContentPtr& x, ContentPtr& out, int d) {
  if (IndexedArrayOf<T, OPT>* r = dynamic_cast<IndexedArrayOf<T, OPT>*>(x.get())) {
    out = std::make_shared<IndexedArrayOf<T, OPT>>(r->identities(), r->parameters(), r->index(), make_virtual_inner(r->content(), d - 1));
    return true;
  }
  return false;
}
static ContentPtr make_virtual_inner(const ContentPtr& x, int d) {
  if (d <= 0) return make_virtual(x);
  ContentPtr out(nullptr);
  if (x.get()->parameter_equals("__array__", "\"string\"") || x.get()->parameter_equals("__array__", "\"bytestring\"")) return make_virtual(x);
  if (virtual_list<int32_t>(x, out, d) || virtual_list<uint32_t>(x, out, d) || virtual_list<int64_t>(x, out, d)) return out;
  if (virtual_indexed<int32_t, false>(x, out, d) || virtual_indexed<uint32_t, false>(x, out, d) || virtual_indexed<int64_t, false>(x, out, d)
      || virtual_indexed<int32_t, true>(x, out, d) || virtual_indexed<int64_t, true>(x, out, d)) return out;
  if (RegularArray* r = dynamic_cast<RegularArray*>(x.get()))
    return std::make_shared<RegularArray>(r->identities(), r->parameters(), make_virtual_inner(r->content(), d - 1), r->size(), r->length());
  if (ByteMaskedArray* r = dynamic_cast<ByteMaskedArray*>(x.get()))
    return std::make_shared<ByteMaskedArray>(r->identities(), r->parameters(), r->mask(), make_virtual_inner(r->content(), d - 1), r->valid_when());
  if (UnmaskedArray* r = dynamic_cast<UnmaskedArray*>(x.get()))
    return std::make_shared<UnmaskedArray>(r->identities(), r->parameters(), make_virtual_inner(r->content(), d - 1));
  if (RecordArray* r = dynamic_cast<RecordArray*>(x.get())) {
    // lazy columns: every field of the record array is a VirtualArray
    ContentPtrVec fields;
    for (auto c : r->contents()) fields.push_back(make_virtual_inner(c, d - 1));
    if (!fields.empty())
      return std::make_shared<RecordArray>(r->identities(), r->parameters(), fields, r->recordlookup(), r->length());
  }
  return make_virtual(x);
}

static int64_t g_sharedunion = 0;   // > 0: wrap every input layout in a union of two references to itself
static int64_t g_record_at = -1;    // >= 0: replace every input layout by the record at that position
static int64_t g_tailview = 0;      // > 0: replace every input layout by a view of it that starts that many elements into its buffers
static int64_t g_window = 0;        // > 0: wrap every input layout in a union of two overlapping windows of itself

static ContentPtr input_layout(Toks& tk, bool may_wrap = true) {
  ContentPtr x = parse_layout(tk);
  g_inputs.push_back(x);
  std::ostringstream du;
  dump(x, du);
  g_before.push_back(du.str());
  if (g_virtual.on && may_wrap) return make_virtual_inner(x, g_virtual_inner);
  if (g_record_at >= 0 && may_wrap) {
    // the operation is applied to one record taken out of the array (an awkward::Record scalar)
    return x.get()->getitem_at_nowrap(g_record_at);
  }
  if (g_tailview > 0 && may_wrap && x.get()->length() >= 1) {
    // the same array as a range-slice view that does not start at the beginning of its buffers: k copies of the
    // first element are put in front (an eager carry: fresh buffers), then sliced off again (x'[k:]), so the
    // outermost Index / NumpyArray objects are views with a non-zero offset
    int64_t n = x.get()->length();
    Index64 c(n + g_tailview);
    for (int64_t i = 0; i < g_tailview; i++) c.data()[i] = 0;
    for (int64_t i = 0; i < n; i++) c.data()[g_tailview + i] = i;
    ContentPtr bigger = x.get()->carry(c, false);
    return bigger.get()->getitem_range_nowrap(g_tailview, n + g_tailview);
  }
  if (g_window > 0 && may_wrap
      && !dynamic_cast<UnionArray8_32*>(x.get()) && !dynamic_cast<UnionArray8_U32*>(x.get()) && !dynamic_cast<UnionArray8_64*>(x.get())
      && x.get()->length() >= 2) {
    // the same array as a union of two overlapping windows of itself, x[0:n-1] and x[1:n]: views of the same
    // buffers that start at different positions; element i comes from the first window (position i) or from the
    // second (position i-1), the first element necessarily from the first, the last from the second
    int64_t n = x.get()->length();
    ContentPtr w0 = x.get()->getitem_range_nowrap(0, n - 1);
    ContentPtr w1 = x.get()->getitem_range_nowrap(1, n);
    Index8 tags(n);
    Index64 index(n);
    for (int64_t i = 0; i < n; i++) {
      int8_t t = (int8_t)(((i * 5 + g_window) % 3) % 2);
      if (i == 0) t = 0;
      if (i == n - 1) t = 1;
      tags.data()[i] = t;
      index.data()[i] = (t == 0) ? i : i - 1;
    }
    ContentPtrVec contents;
    contents.push_back(w0);
    contents.push_back(w1);
    return std::make_shared<UnionArray8_64>(Identities::none(), util::Parameters(), tags, index, contents);
  }
  if (g_sharedunion > 0 && may_wrap
      && !dynamic_cast<UnionArray8_32*>(x.get()) && !dynamic_cast<UnionArray8_U32*>(x.get()) && !dynamic_cast<UnionArray8_64*>(x.get())) {
    // (a union must not contain a union: an input that is a union itself is left as it is)
    // the same array as a union whose branches are literally the same buffers: element i is taken from branch
    // tags[i] at position i (tag pattern chosen by the case)
    int64_t n = x.get()->length();
    Index8 tags(n);
    Index64 index(n);
    for (int64_t i = 0; i < n; i++) {
      tags.data()[i] = (int8_t)(((i * 7 + g_sharedunion) % 5) % 2);
      index.data()[i] = i;
    }
    ContentPtrVec contents;
    contents.push_back(x);
    contents.push_back(x);
    return std::make_shared<UnionArray8_64>(Identities::none(), util::Parameters(), tags, index, contents);
  }
  return x;
}

////////////////////////////////////////////////////////////////// rendering

static void fmt_double(double x, std::ostream& out) {
  if (std::isnan(x)) { out << "nan"; return; }
  if (std::isinf(x)) { out << (x > 0 ? "inf" : "-inf"); return; }
  char buf[64];
  snprintf(buf, sizeof(buf), "%.17g", x);
  out << buf;
  if (!strpbrk(buf, ".en")) out << ".0";
}

static void scalar_tostr(const NumpyArray* raw, std::ostream& out) {
  void* p = raw->data();
  switch (raw->dtype()) {
    case util::dtype::boolean: out << (*reinterpret_cast<uint8_t*>(p) ? "True" : "False"); return;
    case util::dtype::int8: out << (int64_t)*reinterpret_cast<int8_t*>(p); return;
    case util::dtype::int16: out << (int64_t)*reinterpret_cast<int16_t*>(p); return;
    case util::dtype::int32: out << (int64_t)*reinterpret_cast<int32_t*>(p); return;
    case util::dtype::int64: out << *reinterpret_cast<int64_t*>(p); return;
    case util::dtype::uint8: out << (uint64_t)*reinterpret_cast<uint8_t*>(p); return;
    case util::dtype::uint16: out << (uint64_t)*reinterpret_cast<uint16_t*>(p); return;
    case util::dtype::uint32: out << (uint64_t)*reinterpret_cast<uint32_t*>(p); return;
    case util::dtype::uint64: out << *reinterpret_cast<uint64_t*>(p); return;
    case util::dtype::float32: fmt_double((double)*reinterpret_cast<float*>(p), out); return;
    case util::dtype::float64: fmt_double(*reinterpret_cast<double*>(p), out); return;
    case util::dtype::datetime64:
    case util::dtype::timedelta64:
      out << "D(" << *reinterpret_cast<int64_t*>(p) << ",'" << raw->format() << "')"; return;
    case util::dtype::complex64: {
      float* f = reinterpret_cast<float*>(p);
      out << "complex("; fmt_double(f[0], out); out << ","; fmt_double(f[1], out); out << ")"; return;
    }
    case util::dtype::complex128: {
      double* f = reinterpret_cast<double*>(p);
      out << "complex("; fmt_double(f[0], out); out << ","; fmt_double(f[1], out); out << ")"; return;
    }
    default: out << "UNKNOWN_DTYPE"; return;
  }
}

static void tostr(const ContentPtr& c, std::ostream& out, int depth = 0);

static void tostr_string(const ContentPtr& c, std::ostream& out, bool isbytes) {
  // c is the list of chars
  int64_t n = c.get()->length();
  out << (isbytes ? "B('" : "S('");
  for (int64_t i = 0; i < n; i++) {
    ContentPtr x = c.get()->getitem_at_nowrap(i);
    NumpyArray* raw = dynamic_cast<NumpyArray*>(x.get());
    if (raw == nullptr || !raw->isscalar() || raw->dtype() != util::dtype::uint8) { out << "3f"; continue; }   // (only met on invalid layouts)
    char buf[8];
    snprintf(buf, sizeof(buf), "%02x", (unsigned)*reinterpret_cast<uint8_t*>(raw->data()));
    out << buf;
  }
  out << "')";
}

static void tostr(const ContentPtr& c, std::ostream& out, int depth) {
  if (depth > 40) { out << "TOO_DEEP"; return; }
  if (c.get() == nullptr) { out << "NULLPTR"; return; }
  if (dynamic_cast<None*>(c.get())) { out << "None"; return; }
  if (Record* rec = dynamic_cast<Record*>(c.get())) {
    ContentPtrVec fields = rec->fields();
    if (rec->istuple()) {
      out << "(";
      for (size_t i = 0; i < fields.size(); i++) { tostr(fields[i], out, depth + 1); out << ","; }
      out << ")";
    }
    else {
      std::vector<std::string> keys = rec->keys();
      out << "{";
      for (size_t i = 0; i < fields.size(); i++) {
        if (i) out << ",";
        out << "'" << keys[i] << "':";
        tostr(fields[i], out, depth + 1);
      }
      out << "}";
    }
    return;
  }
  if (NumpyArray* raw = dynamic_cast<NumpyArray*>(c.get())) {
    if (raw->isscalar()) { scalar_tostr(raw, out); return; }
  }
  // ak.to_list: an array of characters (__array__ = "char" / "byte") is one string / bytestring
  if (c.get()->parameter_equals("__array__", "\"char\"")) { tostr_string(c, out, false); return; }
  if (c.get()->parameter_equals("__array__", "\"byte\"")) { tostr_string(c, out, true); return; }
  int64_t n = c.get()->length();
  out << "[";
  for (int64_t i = 0; i < n; i++) {
    if (i) out << ",";
    tostr(c.get()->getitem_at_nowrap(i), out, depth + 1);
  }
  out << "]";
}

// exact physical dump (class names, index values, raw bytes) for the purity check
template <typename T>
static void dump_index(const IndexOf<T>& ix, std::ostream& out) {
  out << "<" << ix.offset() << ":" << ix.length() << ":";
  for (int64_t i = 0; i < ix.length(); i++) out << (int64_t)ix.data()[i] << ",";
  out << ">";
}
static void dump(const ContentPtr& c, std::ostream& out) {
  Content* p = c.get();
  out << p->classname() << "{";
  for (auto pair : p->parameters()) out << pair.first << "=" << pair.second << ";";
  if (NumpyArray* x = dynamic_cast<NumpyArray*>(p)) {
    out << x->format() << "|" << x->byteoffset() << "|";
    for (auto s : x->shape()) out << s << ",";
    out << "|";
    for (auto s : x->strides()) out << s << ",";
    out << "|";
    // bytes reachable through shape/strides
    std::vector<ssize_t> shape = x->shape(), strides = x->strides();
    int64_t total = 1;
    for (auto s : shape) total *= s;
    if (shape.empty()) total = 1;
    std::vector<ssize_t> idx(shape.size(), 0);
    uint8_t* base = reinterpret_cast<uint8_t*>(x->ptr().get()) + x->byteoffset();
    for (int64_t k = 0; k < total; k++) {
      ssize_t off = 0;
      for (size_t d = 0; d < shape.size(); d++) off += idx[d] * strides[d];
      for (ssize_t b = 0; b < x->itemsize(); b++) { char buf[4]; snprintf(buf, 4, "%02x", base[off + b]); out << buf; }
      for (int d = (int)shape.size() - 1; d >= 0; d--) { if (++idx[d] < shape[d]) break; idx[d] = 0; }
    }
  }
  else if (ListOffsetArray32* x = dynamic_cast<ListOffsetArray32*>(p)) { dump_index(x->offsets(), out); dump(x->content(), out); }
  else if (ListOffsetArrayU32* x = dynamic_cast<ListOffsetArrayU32*>(p)) { dump_index(x->offsets(), out); dump(x->content(), out); }
  else if (ListOffsetArray64* x = dynamic_cast<ListOffsetArray64*>(p)) { dump_index(x->offsets(), out); dump(x->content(), out); }
  else if (ListArray32* x = dynamic_cast<ListArray32*>(p)) { dump_index(x->starts(), out); dump_index(x->stops(), out); dump(x->content(), out); }
  else if (ListArrayU32* x = dynamic_cast<ListArrayU32*>(p)) { dump_index(x->starts(), out); dump_index(x->stops(), out); dump(x->content(), out); }
  else if (ListArray64* x = dynamic_cast<ListArray64*>(p)) { dump_index(x->starts(), out); dump_index(x->stops(), out); dump(x->content(), out); }
  else if (RegularArray* x = dynamic_cast<RegularArray*>(p)) { out << x->size() << "|" << x->length() << "|"; dump(x->content(), out); }
  else if (IndexedArray32* x = dynamic_cast<IndexedArray32*>(p)) { dump_index(x->index(), out); dump(x->content(), out); }
  else if (IndexedArrayU32* x = dynamic_cast<IndexedArrayU32*>(p)) { dump_index(x->index(), out); dump(x->content(), out); }
  else if (IndexedArray64* x = dynamic_cast<IndexedArray64*>(p)) { dump_index(x->index(), out); dump(x->content(), out); }
  else if (IndexedOptionArray32* x = dynamic_cast<IndexedOptionArray32*>(p)) { dump_index(x->index(), out); dump(x->content(), out); }
  else if (IndexedOptionArray64* x = dynamic_cast<IndexedOptionArray64*>(p)) { dump_index(x->index(), out); dump(x->content(), out); }
  else if (ByteMaskedArray* x = dynamic_cast<ByteMaskedArray*>(p)) { out << x->valid_when(); dump_index(x->mask(), out); dump(x->content(), out); }
  else if (BitMaskedArray* x = dynamic_cast<BitMaskedArray*>(p)) { out << x->valid_when() << x->lsb_order() << x->length(); dump_index(x->mask(), out); dump(x->content(), out); }
  else if (UnmaskedArray* x = dynamic_cast<UnmaskedArray*>(p)) { dump(x->content(), out); }
  else if (UnionArray8_32* x = dynamic_cast<UnionArray8_32*>(p)) { dump_index(x->tags(), out); dump_index(x->index(), out); for (auto y : x->contents()) dump(y, out); }
  else if (UnionArray8_U32* x = dynamic_cast<UnionArray8_U32*>(p)) { dump_index(x->tags(), out); dump_index(x->index(), out); for (auto y : x->contents()) dump(y, out); }
  else if (UnionArray8_64* x = dynamic_cast<UnionArray8_64*>(p)) { dump_index(x->tags(), out); dump_index(x->index(), out); for (auto y : x->contents()) dump(y, out); }
  else if (RecordArray* x = dynamic_cast<RecordArray*>(p)) {
    out << x->length() << "|" << x->istuple() << "|";
    if (!x->istuple()) for (auto k : x->keys()) out << k << ",";
    for (auto y : x->contents()) dump(y, out);
  }
  out << "}";
}

////////////////////////////////////////////////////////////////// slices

static SliceItemPtr parse_sliceitem(Toks& tk) {
  std::string c = tk.next();
  if (c == "at") return std::make_shared<SliceAt>(tk.i64());
  if (c == "rng") {
    std::string a = tk.next(), b = tk.next(), s = tk.next();
    int64_t start = (a == "_") ? Slice::none() : strtoll(a.c_str(), nullptr, 10);
    int64_t stop = (b == "_") ? Slice::none() : strtoll(b.c_str(), nullptr, 10);
    int64_t step = (s == "_") ? 1 : strtoll(s.c_str(), nullptr, 10);
    if (step == 0) throw std::invalid_argument("slice step must not be 0");
    return std::make_shared<SliceRange>(start, stop, step);
  }
  if (c == "ell") return std::make_shared<SliceEllipsis>();
  if (c == "new") return std::make_shared<SliceNewAxis>();
  if (c == "fld") return std::make_shared<SliceField>(tk.next());
  if (c == "flds") {
    int64_t k = tk.i64();
    std::vector<std::string> keys;
    for (int64_t i = 0; i < k; i++) keys.push_back(tk.next());
    return std::make_shared<SliceFields>(keys);
  }
  if (c == "arr") {
    // what src/python/content.cpp builds for a NumPy integer array (C-contiguous int64) or for one
    // component of numpy.nonzero(boolean array)
    bool frombool = tk.i64() != 0;
    int64_t ndim = tk.i64();
    std::vector<int64_t> shape, strides;
    int64_t flat = 1;
    for (int64_t i = 0; i < ndim; i++) { shape.push_back(tk.i64()); flat *= shape.back(); }
    int64_t s = 1;
    strides.resize((size_t)ndim);
    for (int64_t i = ndim - 1; i >= 0; i--) { strides[(size_t)i] = s; s *= shape[(size_t)i]; }
    std::shared_ptr<int64_t> ptr = kernel::malloc<int64_t>(kernel::lib::cpu, (flat == 0 ? 1 : flat) * (int64_t)sizeof(int64_t));
    for (int64_t i = 0; i < flat; i++) ptr.get()[i] = tk.i64();
    Index64 index(ptr, 0, shape[0], kernel::lib::cpu);
    return std::make_shared<SliceArray64>(index, shape, strides, frombool);
  }
  if (c == "lay") {
    // an Awkward Array used as a slice: Content::asslice (strings become field lists in the binding; not driven here)
    ContentPtr x = input_layout(tk, false);
    return x.get()->asslice();
  }
  throw std::logic_error("driver: unknown slice token " + c);
}

static Slice parse_slice(Toks& tk) {
  int64_t n = tk.i64();
  Slice out;
  for (int64_t i = 0; i < n; i++) out.append(parse_sliceitem(tk));
  out.become_sealed();
  return out;
}

////////////////////////////////////////////////////////////////// operations

static std::string g_extra;   // op-specific extra payload
static std::string g_result_payload;   // rendering of `result` (what must survive the inputs)

// dtype name of the (first) NumpyArray leaf of a layout, "" when there is none
static std::string leaf_dtype(const ContentPtr& c, int depth = 0) {
  if (c.get() == nullptr || depth > 30) return "";
  Content* p = c.get();
  if (NumpyArray* x = dynamic_cast<NumpyArray*>(p)) return util::dtype_to_name(x->dtype());
#define LEAFVIA(CLS) if (CLS* x = dynamic_cast<CLS*>(p)) return leaf_dtype(x->content(), depth + 1);
  LEAFVIA(ListOffsetArray32) LEAFVIA(ListOffsetArrayU32) LEAFVIA(ListOffsetArray64) LEAFVIA(ListArray32) LEAFVIA(ListArrayU32)
  LEAFVIA(ListArray64) LEAFVIA(RegularArray) LEAFVIA(IndexedArray32) LEAFVIA(IndexedArrayU32) LEAFVIA(IndexedArray64)
  LEAFVIA(IndexedOptionArray32) LEAFVIA(IndexedOptionArray64) LEAFVIA(ByteMaskedArray) LEAFVIA(BitMaskedArray) LEAFVIA(UnmaskedArray)
  return "";
}

static ContentPtr do_reduce(const std::string& red, const ContentPtr& x, int64_t axis, bool mask, bool keepdims) {
  if (red == "sum") return x.get()->reduce(ReducerSum(), axis, mask, keepdims);
  if (red == "prod") return x.get()->reduce(ReducerProd(), axis, mask, keepdims);
  if (red == "count") return x.get()->reduce(ReducerCount(), axis, mask, keepdims);
  if (red == "count_nonzero") return x.get()->reduce(ReducerCountNonzero(), axis, mask, keepdims);
  if (red == "any") return x.get()->reduce(ReducerAny(), axis, mask, keepdims);
  if (red == "all") return x.get()->reduce(ReducerAll(), axis, mask, keepdims);
  if (red == "min") return x.get()->reduce(ReducerMin(), axis, mask, keepdims);
  if (red == "max") return x.get()->reduce(ReducerMax(), axis, mask, keepdims);
  if (red == "argmin") return x.get()->reduce(ReducerArgmin(), axis, mask, keepdims);
  if (red == "argmax") return x.get()->reduce(ReducerArgmax(), axis, mask, keepdims);
  throw std::logic_error("driver: unknown reducer " + red);
}

template <typename T>
static std::string index_tostr(const IndexOf<T>& ix) {
  std::ostringstream out;
  out << "[";
  for (int64_t i = 0; i < ix.length(); i++) { if (i) out << ","; out << (int64_t)ix.data()[i]; }
  out << "]";
  return out.str();
}

#define TRYCLASS(CLS, EXPR) if (CLS* r = dynamic_cast<CLS*>(x.get())) { return r->EXPR; }

static ContentPtr do_convert(const std::string& what, const ContentPtr& x, Toks& tk) {
  if (what == "toListOffsetArray64") {
    bool z = tk.i64() != 0;
    TRYCLASS(ListOffsetArray32, toListOffsetArray64(z)) TRYCLASS(ListOffsetArrayU32, toListOffsetArray64(z))
    TRYCLASS(ListOffsetArray64, toListOffsetArray64(z)) TRYCLASS(ListArray32, toListOffsetArray64(z))
    TRYCLASS(ListArrayU32, toListOffsetArray64(z)) TRYCLASS(ListArray64, toListOffsetArray64(z))
    TRYCLASS(RegularArray, toListOffsetArray64(z))
  }
  else if (what == "broadcast_tooffsets64") {
    int64_t n = tk.i64();
    Index64 offs = mkindex<int64_t>(tk, n);
    TRYCLASS(ListOffsetArray32, broadcast_tooffsets64(offs)) TRYCLASS(ListOffsetArrayU32, broadcast_tooffsets64(offs))
    TRYCLASS(ListOffsetArray64, broadcast_tooffsets64(offs)) TRYCLASS(ListArray32, broadcast_tooffsets64(offs))
    TRYCLASS(ListArrayU32, broadcast_tooffsets64(offs)) TRYCLASS(ListArray64, broadcast_tooffsets64(offs))
    TRYCLASS(RegularArray, broadcast_tooffsets64(offs))
  }
  else if (what == "toRegularArray") {
    TRYCLASS(ListOffsetArray32, toRegularArray()) TRYCLASS(ListOffsetArrayU32, toRegularArray())
    TRYCLASS(ListOffsetArray64, toRegularArray()) TRYCLASS(ListArray32, toRegularArray())
    TRYCLASS(ListArrayU32, toRegularArray()) TRYCLASS(ListArray64, toRegularArray())
    TRYCLASS(RegularArray, toRegularArray()) TRYCLASS(NumpyArray, toRegularArray())
  }
  else if (what == "project") {
    TRYCLASS(IndexedArray32, project()) TRYCLASS(IndexedArrayU32, project()) TRYCLASS(IndexedArray64, project())
    TRYCLASS(IndexedOptionArray32, project()) TRYCLASS(IndexedOptionArray64, project())
    TRYCLASS(ByteMaskedArray, project()) TRYCLASS(BitMaskedArray, project()) TRYCLASS(UnmaskedArray, project())
  }
  else if (what == "simplify_optiontype") {
    TRYCLASS(IndexedArray32, simplify_optiontype()) TRYCLASS(IndexedArrayU32, simplify_optiontype())
    TRYCLASS(IndexedArray64, simplify_optiontype()) TRYCLASS(IndexedOptionArray32, simplify_optiontype())
    TRYCLASS(IndexedOptionArray64, simplify_optiontype()) TRYCLASS(ByteMaskedArray, simplify_optiontype())
    TRYCLASS(BitMaskedArray, simplify_optiontype()) TRYCLASS(UnmaskedArray, simplify_optiontype())
  }
  else if (what == "simplify_uniontype") {
    bool merge = tk.i64() != 0;
    bool mergebool = tk.i64() != 0;
    TRYCLASS(UnionArray8_32, simplify_uniontype(merge, mergebool)) TRYCLASS(UnionArray8_U32, simplify_uniontype(merge, mergebool))
    TRYCLASS(UnionArray8_64, simplify_uniontype(merge, mergebool))
  }
  else if (what == "toIndexedOptionArray64") {
    TRYCLASS(ByteMaskedArray, toIndexedOptionArray64()) TRYCLASS(BitMaskedArray, toIndexedOptionArray64())
    TRYCLASS(UnmaskedArray, toIndexedOptionArray64())
  }
  else if (what == "toByteMaskedArray") {
    TRYCLASS(BitMaskedArray, toByteMaskedArray()) TRYCLASS(UnmaskedArray, toByteMaskedArray())
  }
  else if (what == "contiguous") {
    if (NumpyArray* r = dynamic_cast<NumpyArray*>(x.get())) { return std::make_shared<NumpyArray>(r->contiguous()); }
  }
  else if (what == "bytemask") {
#define TRYMASK(CLS) if (CLS* r = dynamic_cast<CLS*>(x.get())) { return std::make_shared<NumpyArray>(r->bytemask()); }
    TRYMASK(IndexedOptionArray32) TRYMASK(IndexedOptionArray64) TRYMASK(IndexedArray32) TRYMASK(IndexedArrayU32)
    TRYMASK(IndexedArray64) TRYMASK(ByteMaskedArray) TRYMASK(BitMaskedArray) TRYMASK(UnmaskedArray)
  }
  throw std::logic_error("driver: conversion " + what + " not available on " + x.get()->classname());
}

static void builder_cmds(Toks& tk, ArrayBuilder& b, std::ostringstream& out);

// returns the payload; sets result (may be nullptr when the payload is not a layout)
static std::string run_op(const std::string& op, Toks& tk, ContentPtr& result) {
  std::ostringstream out;
  if (op == "tolist") {
    result = input_layout(tk);
  }
  else if (op == "tostring") {
    // printing (what repr shows): the XML-like dump of the layout and the item type with default type strings
    ContentPtr x = input_layout(tk);
    std::string txt = x.get()->tostring();
    out << "(" << txt.size() << ")";
    return out.str();
  }
  else if (op == "validity") {
    ContentPtr x = input_layout(tk);
    out << "V(" << (x.get()->validityerror("layout").empty() ? "''" : "'error'") << ")";
    g_extra = x.get()->validityerror("layout");
    return out.str();
  }
  else if (op == "getitem") {
    Slice s = parse_slice(tk);
    ContentPtr x = input_layout(tk);
    result = x.get()->getitem(s);
  }
  else if (op == "getitem_at") {
    int64_t at = tk.i64();
    ContentPtr x = input_layout(tk);
    result = x.get()->getitem_at(at);
  }
  else if (op == "getitem_range") {
    std::string a = tk.next(), b = tk.next();
    int64_t start = (a == "_") ? Slice::none() : strtoll(a.c_str(), nullptr, 10);
    int64_t stop = (b == "_") ? Slice::none() : strtoll(b.c_str(), nullptr, 10);
    ContentPtr x = input_layout(tk);
    result = x.get()->getitem_range(start, stop);
  }
  else if (op == "getitem_field") {
    std::string key = tk.next();
    ContentPtr x = input_layout(tk);
    result = x.get()->getitem_field(key);
    // depth queries on the projection as returned (for a VirtualArray: before anything is materialised)
    if (!dynamic_cast<None*>(result.get())) {      // (a missing value taken out of a Record has no depth)
      std::pair<int64_t, int64_t> mm = result.get()->minmax_depth();
      std::pair<bool, int64_t> bd = result.get()->branch_depth();
      g_extra = std::to_string(result.get()->purelist_depth()) + " " + std::to_string(mm.first) + " " + std::to_string(mm.second)
                + " " + (bd.first ? "1" : "0") + " " + std::to_string(bd.second);
    }
  }
  else if (op == "getitem_fields") {
    int64_t k = tk.i64();
    std::vector<std::string> keys;
    for (int64_t i = 0; i < k; i++) keys.push_back(tk.next());
    ContentPtr x = input_layout(tk);
    result = x.get()->getitem_fields(keys);
  }
  else if (op == "setitem_field") {
    std::string where = tk.next();
    ContentPtr what = input_layout(tk);
    ContentPtr x = input_layout(tk);
    RecordArray* rec = dynamic_cast<RecordArray*>(x.get());
    if (rec == nullptr) throw std::logic_error("driver: setitem_field needs a RecordArray");
    // "i:<n>" = the integer overload (insert at position n), anything else = the string overload (append a key)
    if (where.size() > 2 && where[0] == 'i' && where[1] == ':') result = rec->setitem_field((int64_t)strtoll(where.c_str() + 2, nullptr, 10), what);
    else result = rec->setitem_field(where, what);
  }
  else if (op == "carry") {
    int64_t n = tk.i64();
    Index64 c = mkindex<int64_t>(tk, n);
    ContentPtr x = input_layout(tk);
    result = x.get()->carry(c, false);
  }
  else if (op == "reduce") {
    std::string red = tk.next();
    int64_t axis = tk.i64();
    bool mask = tk.i64() != 0;
    bool keep = tk.i64() != 0;
    ContentPtr x = input_layout(tk);
    result = do_reduce(red, x, axis, mask, keep);
    g_extra = leaf_dtype(result);
  }
  else if (op == "sort" || op == "argsort") {
    int64_t axis = tk.i64();
    bool asc = tk.i64() != 0;
    bool stable = tk.i64() != 0;
    ContentPtr x = input_layout(tk);
    result = (op == "sort") ? x.get()->sort(axis, asc, stable) : x.get()->argsort(axis, asc, stable);
  }
  else if (op == "num") {
    int64_t axis = tk.i64();
    ContentPtr x = input_layout(tk);
    result = x.get()->num(axis, 0);
  }
  else if (op == "flatten") {
    int64_t axis = tk.i64();
    ContentPtr x = input_layout(tk);
    std::pair<Index64, ContentPtr> p = x.get()->offsets_and_flattened(axis, 0);
    result = p.second;
    g_extra = index_tostr(p.first);
  }
  else if (op == "localindex") {
    int64_t axis = tk.i64();
    ContentPtr x = input_layout(tk);
    result = x.get()->localindex(axis, 0);
  }
  else if (op == "combinations") {
    int64_t n = tk.i64();
    bool repl = tk.i64() != 0;
    int64_t axis = tk.i64();
    ContentPtr x = input_layout(tk);
    result = x.get()->combinations(n, repl, util::RecordLookupPtr(nullptr), util::Parameters(), axis, 0);
  }
  else if (op == "rpad") {
    int64_t target = tk.i64();
    int64_t axis = tk.i64();
    bool clip = tk.i64() != 0;
    ContentPtr x = input_layout(tk);
    result = clip ? x.get()->rpad_and_clip(target, axis, 0) : x.get()->rpad(target, axis, 0);
  }
  else if (op == "fillna") {
    ContentPtr v = input_layout(tk, false);
    ContentPtr x = input_layout(tk);
    result = x.get()->fillna(v);
  }
  else if (op == "mergemany") {
    int64_t k = tk.i64();
    ContentPtr x = input_layout(tk);
    ContentPtrVec others;
    for (int64_t i = 1; i < k; i++) others.push_back(input_layout(tk));
    result = x.get()->mergemany(others);
  }
  else if (op == "concat") {
    // ak.concatenate(axis=0) as src/awkward/operations/structure.py composes it from the layout methods
    bool merge = tk.i64() != 0;
    bool mergebool = tk.i64() != 0;
    int64_t k = tk.i64();
    ContentPtrVec contents;
    for (int64_t i = 0; i < k; i++) contents.push_back(input_layout(tk));
    ContentPtrVec batch;
    batch.push_back(contents[0]);
    for (int64_t i = 1; i < k; i++) {
      if (batch.back().get()->mergeable(contents[(size_t)i], mergebool)) {
        batch.push_back(contents[(size_t)i]);
      }
      else {
        ContentPtrVec rest(batch.begin() + 1, batch.end());
        ContentPtr collapsed = batch[0].get()->mergemany(rest);
        batch.clear();
        batch.push_back(collapsed.get()->merge_as_union(contents[(size_t)i]));
      }
    }
    ContentPtrVec rest(batch.begin() + 1, batch.end());
    ContentPtr out = batch[0].get()->mergemany(rest);
    if (UnionArray8_32* r = dynamic_cast<UnionArray8_32*>(out.get())) out = r->simplify_uniontype(merge, mergebool);
    else if (UnionArray8_U32* r = dynamic_cast<UnionArray8_U32*>(out.get())) out = r->simplify_uniontype(merge, mergebool);
    else if (UnionArray8_64* r = dynamic_cast<UnionArray8_64*>(out.get())) out = r->simplify_uniontype(merge, mergebool);
    result = out;
    g_extra = out.get()->classname();
    if (NumpyArray* r = dynamic_cast<NumpyArray*>(out.get())) g_extra += std::string(":") + util::dtype_to_name(r->dtype());
  }
  else if (op == "merge") {
    ContentPtr x = input_layout(tk);
    ContentPtr y = input_layout(tk);
    result = x.get()->merge(y);
  }
  else if (op == "mergeable") {
    bool mergebool = tk.i64() != 0;
    ContentPtr x = input_layout(tk);
    ContentPtr y = input_layout(tk);
    out << (x.get()->mergeable(y, mergebool) ? "True" : "False");
    return out.str();
  }
  else if (op == "shallow_simplify") {
    ContentPtr x = input_layout(tk);
    result = x.get()->shallow_simplify();
  }
  else if (op == "numbers_to_type") {
    std::string name = tk.next();
    ContentPtr x = input_layout(tk);
    result = x.get()->numbers_to_type(name);
  }
  else if (op == "is_unique") {
    ContentPtr x = input_layout(tk);
    out << (x.get()->is_unique() ? "True" : "False");
    return out.str();
  }
  else if (op == "unique") {
    ContentPtr x = input_layout(tk);
    result = x.get()->unique();
  }
  else if (op == "deep_copy") {
    ContentPtr x = input_layout(tk);
    result = x.get()->deep_copy(true, true, true);
  }
  else if (op == "convert") {
    std::string what = tk.next();
    // conversion arguments come before the layout
    size_t save = tk.pos;
    std::vector<std::string> args;
    if (what == "toListOffsetArray64") args.push_back(tk.next());
    if (what == "broadcast_tooffsets64") { args.push_back(tk.next()); int64_t n = strtoll(args.back().c_str(), nullptr, 10); for (int64_t i = 0; i < n; i++) args.push_back(tk.next()); }
    if (what == "simplify_uniontype") { args.push_back(tk.next()); args.push_back(tk.next()); }
    (void)save;
    ContentPtr x = input_layout(tk);
    Toks at; at.t = args; at.pos = 0;
    result = do_convert(what, x, at);
  }
  else if (op == "purelist_depth") {
    ContentPtr x = input_layout(tk);
    std::pair<int64_t, int64_t> mm = x.get()->minmax_depth();
    std::pair<bool, int64_t> bd = x.get()->branch_depth();
    out << "(" << x.get()->purelist_depth() << "," << mm.first << "," << mm.second << ","
        << (bd.first ? "True" : "False") << "," << bd.second << ")";
    return out.str();
  }
  else if (op == "virtual" || op == "virtual_inner" || op == "virtual_inner2") {
    // (virtual_inner: the CONTENT of the outermost list / regular / indexed / option node, or every field of the
    // outermost record array, is the VirtualArray; virtual_inner2: one node further down)
    g_virtual_inner = (op == "virtual_inner") ? 1 : (op == "virtual_inner2") ? 2 : 0;
    // virtual <cache_keep> <decl_length> <decl_form> <fail_first> <sub-op ...>: every input layout of the sub-operation
    // is wrapped in a VirtualArray; payload = (value, number of generator calls)
    g_virtual.on = true;
    g_virtual.cache_keep = tk.i64();
    g_virtual.decl_length = tk.i64();
    g_virtual.decl_form = (int)tk.i64();
    g_virtual.fail_first = tk.i64();
    g_generate_calls = 0;
    g_fail_remaining = g_virtual.fail_first;
    std::string sub = tk.next();
    std::string first;
    if (g_virtual.fail_first > 0) {
      // a failing generation must surface as an exception and leave nothing behind: try once, then go on
      Toks tk2 = tk;
      try { ContentPtr r2(nullptr); run_op(sub, tk2, r2); first = "'no-exception'"; }
      catch (std::exception& e) { first = "'raised'"; }
      g_fail_remaining = 0;
      g_inputs.clear(); g_before.clear(); g_virtuals.clear();
    }
    else first = "None";
    std::string payload = run_op(sub, tk, result);
    out << "(" << payload << "," << g_generate_calls << "," << first << ")";
    g_virtual.on = false;
    return out.str();
  }
  else if (op == "record_at") {
    // record_at <i> <sub-op ...>: the sub-operation applied to the Record scalar x[i]
    g_record_at = tk.i64();
    std::string sub = tk.next();
    std::string payload;
    try { payload = run_op(sub, tk, result); }
    catch (...) { g_record_at = -1; throw; }
    g_record_at = -1;
    return payload;
  }
  else if (op == "windows") {
    // windows <pattern> <sub-op ...>: the sub-operation on union[x[0:n-1], x[1:n]] must give what it gives on x
    g_window = tk.i64();
    std::string sub = tk.next();
    std::string payload;
    try { payload = run_op(sub, tk, result); }
    catch (...) { g_window = 0; throw; }
    g_window = 0;
    return payload;
  }
  else if (op == "tailview") {
    // tailview <k> <sub-op ...>: the sub-operation on a view of x that starts k elements into its buffers
    g_tailview = tk.i64();
    std::string sub = tk.next();
    std::string payload;
    try { payload = run_op(sub, tk, result); }
    catch (...) { g_tailview = 0; throw; }
    g_tailview = 0;
    return payload;
  }
  else if (op == "sharedunion") {
    // sharedunion <pattern> <sub-op ...>: the sub-operation on union[x, x] with shared buffers must give what it gives on x
    g_sharedunion = tk.i64();
    std::string sub = tk.next();
    std::string payload;
    try { payload = run_op(sub, tk, result); }
    catch (...) { g_sharedunion = 0; throw; }
    g_sharedunion = 0;
    return payload;
  }
  else if (op == "staleform") {
    // a generation that is refused (too short for the declared length) must leave nothing behind: no inferred form
    int64_t declared = tk.i64();
    ContentPtr x = input_layout(tk);
    ArrayGeneratorPtr gen = std::make_shared<CountingGenerator>(FormPtr(nullptr), declared, x, 0);
    VirtualArray v(Identities::none(), util::Parameters(), gen, ArrayCachePtr(nullptr));
    bool raised = false;
    try { v.array(); } catch (std::exception& e) { raised = true; }
    bool hasform = (gen.get()->form().get() != nullptr);
    bool peek = (v.peek_array().get() != nullptr);
    out << "(" << (raised ? "True" : "False") << "," << (hasform ? "True" : "False") << "," << (peek ? "True" : "False") << ")";
    return out.str();
  }
  else if (op == "typeinfo") {
    // typeinfo <a|_> <b|_> layout : item type of the array, of its form, of a range slice, of its first element; depth
    // and field queries.  Type strings are hex-encoded (they contain quotes and spaces).
    std::string sa = tk.next(), sb = tk.next();
    int64_t ra = (sa == "_") ? Slice::none() : strtoll(sa.c_str(), nullptr, 10);
    int64_t rb = (sb == "_") ? Slice::none() : strtoll(sb.c_str(), nullptr, 10);
    ContentPtr x = input_layout(tk);
    util::TypeStrs ts;
    ts["char"] = "char"; ts["byte"] = "byte"; ts["string"] = "string"; ts["bytestring"] = "bytes";
    auto hex = [](const std::string& t) {
      std::string o = "S('";
      char b[4];
      for (unsigned char c : t) { snprintf(b, 4, "%02x", c); o += b; }
      return o + "')";
    };
    TypePtr ta = x.get()->type(ts);
    FormPtr f = x.get()->form(true);
    TypePtr tf = f.get()->type(ts);
    ContentPtr sl = x.get()->getitem_range(ra, rb);
    TypePtr tsl = sl.get()->type(ts);
    std::string elem = "None";
    if (x.get()->length() > 0) {
      ContentPtr e = x.get()->getitem_at_nowrap(0);
      NumpyArray* raw = dynamic_cast<NumpyArray*>(e.get());
      if (dynamic_cast<None*>(e.get())) elem = "'missing'";
      else if (dynamic_cast<Record*>(e.get())) elem = "'record'";
      else if (raw != nullptr && raw->isscalar()) elem = "'scalar'";
      else elem = hex(e.get()->type(ts).get()->tostring());
    }
    std::pair<int64_t, int64_t> mm = x.get()->minmax_depth();
    std::pair<bool, int64_t> bd = x.get()->branch_depth();
    std::pair<bool, int64_t> bdf = f.get()->branch_depth();
    std::pair<int64_t, int64_t> mmf = f.get()->minmax_depth();
    g_extra = std::string(bd.first ? "1" : "0") + " " + std::to_string(bd.second) + " " + (bdf.first ? "1" : "0") + " " + std::to_string(bdf.second)
              + " " + std::to_string(mmf.first) + " " + std::to_string(mmf.second) + " " + std::to_string(f.get()->purelist_depth());
    out << "(" << hex(ta.get()->tostring()) << "," << hex(tf.get()->tostring()) << ","
        << (ta.get()->equal(tf, true) ? "True" : "False") << "," << hex(tsl.get()->tostring()) << "," << elem << ","
        << x.get()->purelist_depth() << "," << mm.first << "," << mm.second << ","
        << (x.get()->purelist_isregular() ? "True" : "False") << "," << x.get()->numfields() << ",[";
    if (x.get()->numfields() > 0) {
      std::vector<std::string> ks = x.get()->keys();
      for (size_t i = 0; i < ks.size(); i++) { if (i) out << ","; out << hex(ks[i]); }
    }
    out << "])";
    return out.str();
  }
  else if (op == "both") {
    // both <n> <n tokens of operation A> <tokens of operation B>: the same operation on two layouts of one value;
    // payload = (outcome A, outcome B), an exception rendered as E('<type>')
    int64_t n = tk.i64();
    Toks a, b;
    a.pos = 0; b.pos = 0;
    for (int64_t i = 0; i < n; i++) a.t.push_back(tk.next());
    while (tk.more()) b.t.push_back(tk.next());
    auto one = [&](Toks& t) {
      std::string sub = t.next();
      try {
        ContentPtr r(nullptr);
        std::string p = run_op(sub, t, r);
        return p + (g_extra.empty() ? std::string() : std::string(""));
      }
      catch (std::invalid_argument& e) { return std::string("E('ValueError')"); }
      catch (std::logic_error& e) { throw; }
      catch (std::runtime_error& e) { return std::string("E('RuntimeError')"); }
    };
    std::string pa = one(a);
    std::string pb = one(b);
    out << "(" << pa << "," << pb << ")";
    return out.str();
  }
  else if (op == "lazyquery") {
    // queries that must not materialise when length and form are declared
    ContentPtr x = input_layout(tk);
    int64_t before = g_generate_calls;
    int64_t n = x.get()->length();
    int64_t d = x.get()->purelist_depth();
    std::pair<int64_t, int64_t> mm = x.get()->minmax_depth();
    FormPtr f = x.get()->form(false);
    out << "(" << n << "," << d << "," << mm.first << "," << mm.second << "," << (g_generate_calls - before) << ")";
    return out.str();
  }
  else if (op == "partitioned") {
    // partitioned <k> stops... <action ...> layout : IrregularlyPartitionedArray over getitem_range pieces of the layout
    int64_t k = tk.i64();
    std::vector<int64_t> stops;
    for (int64_t i = 0; i < k; i++) stops.push_back(tk.i64());
    std::string action = tk.next();
    std::vector<int64_t> args;
    int64_t nargs = (action == "at") ? 1 : (action == "range" ? 3 : (action == "repartition" ? -1 : 0));
    if (nargs == -1) { nargs = tk.i64(); }
    std::vector<std::string> rawargs;
    for (int64_t i = 0; i < nargs; i++) rawargs.push_back(tk.next());
    ContentPtr x = input_layout(tk);
    ContentPtrVec parts;
    int64_t prev = 0;
    for (int64_t i = 0; i < k; i++) { parts.push_back(x.get()->getitem_range_nowrap(prev, stops[(size_t)i])); prev = stops[(size_t)i]; }
    IrregularlyPartitionedArray pa(parts, stops);
    auto render = [&](const PartitionedArrayPtr& p) {
      out << "([";
      for (int64_t i = 0; i < p.get()->numpartitions(); i++) { tostr(p.get()->partition(i), out); out << ","; }
      out << "]," << p.get()->length() << ")";
    };
    auto num = [&](const std::string& a) { return (a == "_") ? Slice::none() : (int64_t)strtoll(a.c_str(), nullptr, 10); };
    if (action == "at") { tostr(pa.getitem_at(num(rawargs[0])), out); }
    else if (action == "range") { render(pa.getitem_range(num(rawargs[0]), num(rawargs[1]), num(rawargs[2]))); }
    else if (action == "repartition") {
      std::vector<int64_t> ns;
      for (auto& a : rawargs) ns.push_back(num(a));
      render(pa.repartition(ns));
    }
    else throw std::logic_error("driver: unknown partitioned action " + action);
    return out.str();
  }
  else if (op == "forth") {
    // forth <mode run|step|resume> <stack_max> <recursion_max> <out_initial> <out_resize*100> <source hex> <ninputs> (name hex)*
    std::string mode = tk.next();
    int64_t stack_max = tk.i64();
    int64_t rec_max = tk.i64();
    int64_t out_initial = tk.i64();
    double out_resize = (double)tk.i64() / 100.0;
    auto unhex = [](const std::string& h) {
      std::string o;
      for (size_t i = 0; i + 1 < h.size(); i += 2) o += (char)strtol(h.substr(i, 2).c_str(), nullptr, 16);
      return o;
    };
    std::string hexsrc = tk.next();
    std::string source = unhex(hexsrc == "-" ? std::string() : hexsrc);
    int64_t nin = tk.i64();
    std::map<std::string, std::shared_ptr<ForthInputBuffer>> inputs;
    std::vector<std::string> innames;
    std::vector<std::pair<std::shared_ptr<void>, std::string>> inbytes;   // live buffer, original bytes
    for (int64_t i = 0; i < nin; i++) {
      std::string name = tk.next();
      std::string hx = tk.next();
      std::string bytes = unhex(hx == "-" ? std::string() : hx);
      std::shared_ptr<void> ptr(new uint8_t[bytes.size() + 1], kernel::array_deleter<uint8_t>());
      memcpy(ptr.get(), bytes.data(), bytes.size());
      inputs[name] = std::make_shared<ForthInputBuffer>(ptr, 0, (int64_t)bytes.size());
      innames.push_back(name);
      inbytes.push_back(std::make_pair(ptr, bytes));
    }
    ForthMachine64 vm(source, stack_max, rec_max, out_initial, out_resize);
    util::ForthError err = util::ForthError::none;
    int64_t guard = 0;
    if (mode == "run") {
      err = vm.run(inputs);
      while (err == util::ForthError::none && !vm.is_done() && guard++ < 100000) err = vm.resume();
    }
    else if (mode == "step") {
      vm.begin(inputs);
      while (!vm.is_done() && guard++ < 2000000) { err = vm.step(); if (err != util::ForthError::none) break; }
    }
    else if (mode == "mixed") {
      // alternate: a few single steps, then resume to the next pause, ...
      vm.begin(inputs);
      int64_t k = 0;
      while (!vm.is_done() && guard++ < 2000000) {
        if ((k++ % 5) < 3) err = vm.step(); else err = vm.resume();
        if (err != util::ForthError::none) break;
      }
    }
    else throw std::logic_error("driver: unknown forth mode " + mode);
    if (guard >= 100000 && mode == "run") throw std::logic_error("driver: forth program did not finish");
    out << "(" << (int)err << ",[";
    std::vector<int64_t> st = vm.stack();
    for (size_t i = 0; i < st.size(); i++) { if (i) out << ","; out << st[i]; }
    out << "],{";
    bool first = true;
    for (auto pair : vm.variables()) { if (!first) out << ","; first = false; out << "'" << pair.first << "':" << pair.second; }
    out << "},{";
    first = true;
    for (auto pair : vm.outputs()) {
      if (!first) out << ",";
      first = false;
      out << "'" << pair.first << "':";
      tostr(pair.second.get()->toNumpyArray(), out);
    }
    out << "},{";
    first = true;
    for (auto& name : innames) { if (!first) out << ","; first = false; out << "'" << name << "':" << vm.input_position_at(name); }
    bool untouched = true;
    for (auto& pr : inbytes) if (memcmp(pr.first.get(), pr.second.data(), pr.second.size()) != 0) untouched = false;
    out << "}," << (untouched ? "True" : "False") << ")";
    return out.str();
  }
  else if (op == "builder") {
    ArrayBuilder b(ArrayBuilderOptions(tk.i64(), 1.5));
    builder_cmds(tk, b, out);
    return out.str();
  }
  else {
    throw std::logic_error("driver: unknown op " + op);
  }
  tostr(result, out);
  g_result_payload = out.str();
  return out.str();
}

// ArrayBuilder command sequence; "snap" records a snapshot's value; at the end every recorded snapshot is
// rendered AGAIN (it must not have changed) followed by the final snapshot
static void builder_cmds(Toks& tk, ArrayBuilder& b, std::ostringstream& out) {
  std::vector<ContentPtr> snaps;
  std::vector<std::string> first;
  while (tk.more()) {
    std::string c = tk.next();
    if (c == "null") b.null();
    else if (c == "bool") b.boolean(tk.i64() != 0);
    else if (c == "int") b.integer(tk.i64());
    else if (c == "real") b.real(tk.f64());
    else if (c == "complex") { double r = tk.f64(); double i = tk.f64(); b.complex(std::complex<double>(r, i)); }
    else if (c == "str") {
      std::string s = tk.next();
      if (s == "''") s = "";
      // %00 stands for a NUL character inside the string
      std::string t;
      for (size_t q = 0; q < s.size(); q++) {
        if (s.compare(q, 3, "%00") == 0) { t.push_back('\0'); q += 2; }
        else t.push_back(s[q]);
      }
      b.string(t);
    }
    else if (c == "bytes") { std::string s = tk.next(); if (s == "''") s = ""; b.bytestring(s); }
    else if (c == "beginlist") b.beginlist();
    else if (c == "endlist") b.endlist();
    else if (c == "begintuple") b.begintuple(tk.i64());
    else if (c == "index") b.index(tk.i64());
    else if (c == "endtuple") b.endtuple();
    else if (c == "beginrecord") { std::string n = tk.next(); if (n == "_") b.beginrecord(); else b.beginrecord_check(n); }
    else if (c == "field") b.field_check(tk.next());
    else if (c == "endrecord") b.endrecord();
    else if (c == "clear") b.clear();
    else if (c == "append") { int64_t at = tk.i64(); ContentPtr a = parse_layout(tk); b.append(a, at); }
    else if (c == "extend") { ContentPtr a = parse_layout(tk); b.extend(a); }
    else if (c == "snap") {
      ContentPtr s = b.snapshot();
      std::ostringstream o; tostr(s, o);
      snaps.push_back(s); first.push_back(o.str());
    }
    else throw std::logic_error("driver: unknown builder command " + c);
  }
  ContentPtr fin = b.snapshot();
  out << "([";
  for (size_t i = 0; i < snaps.size(); i++) {
    std::ostringstream o; tostr(snaps[i], o);
    out << "(" << first[i] << "," << o.str() << ",'" << (snaps[i].get()->validityerror("layout").empty() ? "" : "error") << "'),";
  }
  out << "],";
  tostr(fin, out);
  out << "," << b.length() << ",'" << (fin.get()->validityerror("layout").empty() ? "" : "error") << "')";
}

static std::string oneline(const std::string& s) {
  std::string o;
  for (char c : s) { if (c == '\n' || c == '\t' || c == '\r') o += ' '; else o += c; }
  if (o.size() > 300) o = o.substr(0, 300);
  return o;
}

static void run_case(const std::string& line) {
  Toks tk; tk.pos = 0;
  std::istringstream ss(line);
  std::string w;
  while (ss >> w) tk.t.push_back(w);
  std::string id = tk.next();
  std::string op = tk.next();
  try {
    ContentPtr result(nullptr);
    g_inputs.clear();
    g_before.clear();
    g_extra.clear();
    g_result_payload.clear();
    g_virtuals.clear();
    g_virtual.on = false;
    std::string payload = run_op(op, tk, result);
    std::string validity = "-";
    bool isscalar = false;
    if (NumpyArray* raw = dynamic_cast<NumpyArray*>(result.get())) isscalar = raw->isscalar();
    if (dynamic_cast<None*>(result.get()) || dynamic_cast<Record*>(result.get())) isscalar = true;
    if (result.get() != nullptr && op != "tolist" && !isscalar) {
      validity = result.get()->validityerror("layout").empty() ? "" : oneline(result.get()->validityerror("layout"));
    }
    // purity: every input layout dumps (classes, parameters, index values, reachable bytes) as it did when built
    int pure = 1;
    for (size_t i = 0; i < g_inputs.size(); i++) {
      std::ostringstream du;
      dump(g_inputs[i], du);
      if (du.str() != g_before[i]) pure = 0;
    }
    // a virtual input still reads as the layout its generator hands out (when it can be read at all: a wrongly
    // declared length or form is refused)
    for (size_t i = 0; i < g_virtuals.size(); i++) {
      std::ostringstream a, b;
      try { tostr(g_virtuals[i].first, a); } catch (std::exception& e) { continue; }
      tostr(g_virtuals[i].second, b);
      if (a.str() != b.str()) pure = 0;
      // ... and answers depth queries as that layout does
      try {
        Content* v = g_virtuals[i].first.get();
        Content* u = g_virtuals[i].second.get();
        if (pure == 1 && (v->purelist_depth() != u->purelist_depth() || v->minmax_depth() != u->minmax_depth()
                          || v->branch_depth() != u->branch_depth())) pure = 3;
      } catch (std::exception& e) { }
    }
    g_virtuals.clear();
    // the result must survive its inputs: drop them, then render again
    if (result.get() != nullptr) {
      g_inputs.clear();
      std::ostringstream again;
      tostr(result, again);
      if (again.str() != g_result_payload) pure = 2;
    }
    std::cout << id << "\tOK\t" << payload << "\t" << validity << "\t" << pure << "\t" << oneline(g_extra) << std::endl;
  }
  catch (std::invalid_argument& e) {
    std::cout << id << "\tEXC\tValueError\t" << oneline(e.what()) << std::endl;
  }
  catch (std::logic_error& e) {
    std::cout << id << "\tDRIVER\t" << oneline(e.what()) << std::endl;
  }
  catch (std::runtime_error& e) {
    std::cout << id << "\tEXC\tRuntimeError\t" << oneline(e.what()) << std::endl;
  }
  catch (std::exception& e) {
    std::cout << id << "\tEXC\tException\t" << oneline(e.what()) << std::endl;
  }
}

int main(int argc, char** argv) {
  bool nofork = (argc > 1 && std::string(argv[1]) == "--nofork");
  int timeout = 20;
  std::string line;
  while (std::getline(std::cin, line)) {
    if (line.empty() || line[0] == '#') continue;
    if (nofork) { run_case(line); continue; }
    std::cout.flush();
    pid_t pid = fork();
    if (pid == 0) {
      alarm(timeout);
      run_case(line);
      std::cout.flush();
      _exit(0);
    }
    int status = 0;
    waitpid(pid, &status, 0);
    if (WIFSIGNALED(status) || (WIFEXITED(status) && WEXITSTATUS(status) != 0)) {
      std::string id = line.substr(0, line.find(' '));
      int sig = WIFSIGNALED(status) ? WTERMSIG(status) : -WEXITSTATUS(status);
      std::cout << id << "\t" << (sig == SIGALRM ? "TIMEOUT" : "CRASH") << "\t" << sig << std::endl;
    }
  }
  return 0;
}
