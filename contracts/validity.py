# C11: the validity kernels are exact -- success iff every documented rule holds, and on failure the
# reported position is the first list/entry that breaks a rule.  The rules are the ones of
# docs-sphinx/ak.layout.ListArray.rst / IndexedArray.rst / UnionArray.rst (reference constructors).

# ListArray / ListOffsetArray: for every i,  start == stop  or  (0 <= start < stop <= len(content))
LIST_OK = "(starts[q] == stops[q] or (0 <= starts[q] and starts[q] < stops[q] and stops[q] <= lencontent))"
K("awkward_ListArray_validity",
  nonneg=["length"],            # lencontent is a length too, but the rule must be decided for any value
  loops={"L0": ["0 <= i", "forall(q, 0, i, %s)" % LIST_OK]},
  ensures_ok=["forall(q, 0, length, %s)" % LIST_OK],
  ensures_fail=["0 <= err_identity < length",
                "not %s" % LIST_OK.replace("[q]", "[err_identity]"),
                "forall(q, 0, err_identity, %s)" % LIST_OK],
  serves=["C11", "C12", "C13"])

# IndexedArray: index < len(content); index >= 0 unless the node is an option type
IDX_OK = "(index[q] < lencontent and (isoption or index[q] >= 0))"
K("awkward_IndexedArray_validity",
  nonneg=["length"],
  loops={"L0": ["0 <= i", "forall(q, 0, i, %s)" % IDX_OK]},
  ensures_ok=["forall(q, 0, length, %s)" % IDX_OK],
  ensures_fail=["0 <= err_identity < length",
                "not %s" % IDX_OK.replace("[q]", "[err_identity]"),
                "forall(q, 0, err_identity, %s)" % IDX_OK],
  serves=["C11", "C12", "C13"])

# UnionArray: 0 <= tag < len(contents), 0 <= index < len(contents[tag])
UNI_OK = "(0 <= tags[q] and tags[q] < numcontents and 0 <= index[q] and index[q] < lencontents[tags[q]])"
K("awkward_UnionArray_validity",
  nonneg=["length"],
  extents={"lencontents": "numcontents"},
  loops={"L0": ["0 <= i", "forall(q, 0, i, %s)" % UNI_OK]},
  ensures_ok=["forall(q, 0, length, %s)" % UNI_OK],
  ensures_fail=["0 <= err_identity < length",
                "not %s" % UNI_OK.replace("[q]", "[err_identity]"),
                "forall(q, 0, err_identity, %s)" % UNI_OK],
  serves=["C11", "C12", "C13"])
