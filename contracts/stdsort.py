# awkward_sort / awkward_argsort / awkward_ListOffsetArray_local_preparenext_64: std::sort or std::stable_sort on a
# std::vector of positions, one call per list.
#
# std::vector<int64_t>, std::iota, std::next, std::sort, std::stable_sort and std::transform are built-ins of the VC
# generator with ASSUMED contracts (vcgen.call_std): sort/stable_sort turn [first, last) into a permutation of itself
# that is ordered by the comparator (stable_sort: equivalent elements keep their relative order) and change nothing
# else -- provided the comparator is a strict weak order, which is PROVED for every instantiation of sort_order_* /
# argsort_order_* by the comparator obligations (sorting.py).  The comparator templates are pure callees
# (P_<name>(x, y) in the contracts is their result).
#
# What is proved from these assumptions, for all inputs satisfying the precondition and all iterations:
#   * S.iter: every [first, last) handed to the library is a valid iterator range of the vector (offsets inside
#     [0, length], non-decreasing); S.bounds: the comparator only reads fromptr at positions inside [0, length);
#     the final copy loop stays inside the vector and fromptr;
#   * the property's own statement (C06) as postcondition: within every list the output is ordered by the comparator
#     of the requested direction; the positions used for list s are exactly positions of list s, each used once
#     (range-confined and injective: on a finite range that is a permutation), so no data moves between lists;
#     argsort returns those positions relative to the list's start, and with stable=True equivalent elements keep
#     their original relative order.

for _n in ["sort_order_ascending", "sort_order_descending", "argsort_order_ascending", "argsort_order_descending"]:
    K(_n, pure="uf")

OFFS = "forall(a, 0, offsetslength, forall(b, a, offsetslength, 0 <= offsets[a] and offsets[a] <= offsets[b] and offsets[b] <= length))"


def CMP(prefix, x, y):
    return "ite(ascending, P_%s_order_ascending(%s, %s), P_%s_order_descending(%s, %s))" % (prefix, x, y, prefix, x, y)


def SORT_INV(v, prefix):
    return ["0 <= i",
            # lists not sorted yet still hold their own positions
            "forall(q, offsets[i], length, %s[q] == q)" % v,
            # lists already sorted: positions of that list only ...
            "forall(s, 0, i, forall(q, offsets[s], offsets[s + 1], offsets[s] <= %s[q] and %s[q] < offsets[s + 1]))" % (v, v),
            # ... each used once ...
            "forall(a, 0, length, forall(b, 0, length, implies(%s[a] == %s[b], a == b)))" % (v, v),
            "forall(q, 0, length, 0 <= %s[q] and %s[q] < length)" % (v, v),
            # ... in the comparator's order
            "forall(s, 0, i, forall(a, offsets[s], offsets[s + 1], forall(b, a + 1, offsets[s + 1], not %s)))"
            % CMP(prefix, "fromptr[%s[b]]" % v, "fromptr[%s[a]]" % v)]


K("awkward_sort",
  stdlib=True, auto_inv=False, z3_budget_ms=4000,
  extents={"toptr": "parentslength", "fromptr": "length", "offsets": "offsetslength"},
  requires=["offsetslength >= 1", OFFS, "offsets[0] == 0", "offsets[offsetslength - 1] == length", "parentslength <= length"],
  loops={"L0": SORT_INV("index", "sort"), "L1": SORT_INV("index", "sort"), "L2": SORT_INV("index", "sort"), "L3": SORT_INV("index", "sort"),
         "L4": ["0 <= i", "forall(k, 0, i, toptr[k] == fromptr[index[k]])"]},
  ensures_ok=["forall(k, 0, parentslength, toptr[k] == fromptr[index[k]])",
              "forall(s, 0, offsetslength - 1, forall(q, offsets[s], offsets[s + 1], offsets[s] <= index[q] and index[q] < offsets[s + 1]))",
              "forall(a, 0, length, forall(b, 0, length, implies(index[a] == index[b], a == b)))",
              "forall(s, 0, offsetslength - 1, forall(a, offsets[s], offsets[s + 1], forall(b, a + 1, offsets[s + 1], "
              "implies(b < parentslength, not %s))))" % CMP("sort", "toptr[b]", "toptr[a]")],
  serves=["C06", "C12", "C13"])


def ARG_INV(v, upto):
    seg = "offsets[s], offsets[s + 1]"
    xa, xb = "fromptr[offsets[s] + %s[a]]" % v, "fromptr[offsets[s] + %s[b]]" % v
    return [
        # positions relative to the start of the list, inside the list ...
        "forall(s, 0, %s, forall(q, %s, 0 <= %s[q] and %s[q] < offsets[s + 1] - offsets[s]))" % (upto, seg, v, v),
        # ... each used once ...
        "forall(s, 0, %s, forall(a, %s, forall(b, %s, implies(%s[a] == %s[b], a == b))))" % (upto, seg, seg, v, v),
        # ... that realise the comparator's order ...
        "forall(s, 0, %s, forall(a, %s, forall(b, a + 1, offsets[s + 1], not %s)))" % (upto, seg, CMP("argsort", xb, xa)),
        # ... and, when stable, keep equivalent elements in their original order
        "forall(s, 0, %s, forall(a, %s, forall(b, a + 1, offsets[s + 1], implies(stable and not %s and not %s, %s[a] < %s[b]))))"
        % (upto, seg, CMP("argsort", xa, xb), CMP("argsort", xb, xa), v, v)]


SAFE_LOOP = ["0 <= i", "forall(q, offsets[i], length, result[q] == q)"]
FULL_LOOP = SAFE_LOOP + ARG_INV("result", "i")
# (the output is the vector `result`, copied element by element: the postcondition states the C06 facts about `result`
#  -- restated once where the four branches join, then carried through the copy loop, which does not touch it -- and the
#  pointwise equality with toptr; stating them about toptr directly is the same claim but needs a rewriting under three
#  nested quantifiers that z3 only finds when the machine is idle)
_FULL = {"loops": {"L0": FULL_LOOP, "L1": FULL_LOOP, "L2": FULL_LOOP, "L3": FULL_LOOP,
                   "L4": ["0 <= i", "forall(k, 0, i, toptr[k] == result[k])"] + ARG_INV("result", "offsetslength - 1")},
         "ensures_ok": ["forall(k, 0, length, toptr[k] == result[k])"] + ARG_INV("result", "offsetslength - 1")}

# Memory safety (iterator ranges, comparator reads, the copy loop) for every instantiation; the functional contract for
# three representative ones (a signed integer, a floating-point and the bool instantiation): the template text is the
# same for all eleven and each comparator instantiation is proved separately, but one functional unit costs about a
# minute of solver set-up, which the quick tier cannot afford eleven times.
K("awkward_argsort",
  stdlib=True, auto_inv=False,
  z3_budget_ms=8000,
  extents={"toptr": "length", "fromptr": "length", "offsets": "offsetslength"},
  requires=["offsetslength >= 1", OFFS, "offsets[0] == 0", "offsets[offsetslength - 1] == length"],
  loops={"L0": SAFE_LOOP, "L1": SAFE_LOOP, "L2": SAFE_LOOP, "L3": SAFE_LOOP, "L4": ["0 <= i"]},
  per_spec={"argsort_int64": _FULL, "argsort_float64": _FULL, "argsort_bool": _FULL},
  serves=["C06", "C12", "C13"])

# carry that sorts the positions by their (distinct) target index: a permutation of 0 .. length-1 ordered by fromindex
K("awkward_ListOffsetArray_local_preparenext_64",
  stdlib=True, auto_inv=False,
  extents={"tocarry": "length", "fromindex": "length"},
  loops={"L0": ["0 <= i", "forall(k, 0, i, tocarry[k] == result[k])"]},
  ensures_ok=["forall(k, 0, length, 0 <= tocarry[k] and tocarry[k] < length)",
              "forall(a, 0, length, forall(b, 0, length, implies(tocarry[a] == tocarry[b], a == b)))",
              "forall(a, 0, length, forall(b, a + 1, length, fromindex[tocarry[a]] <= fromindex[tocarry[b]]))"],
  serves=["C06", "C12", "C13"])
