# C01: range regularisation against CPython's slice semantics (PySlice_AdjustIndices), and the
# list-slicing kernels that call it.

# CPython: a bound b given by the user is adjusted as
#   step > 0:  b < 0 -> max(b + length, 0)   else min(b, length)
#   step < 0:  b < 0 -> max(b + length, -1)  else min(b, length - 1)
# absent bounds default to 0 / length (step > 0) and length - 1 / -1 (step < 0).
# The kernel additionally clamps an empty range to start == stop, which selects the same (empty) set.
ADJ = {"adjp": (["x"], "ite(x < 0, max(x + length, 0), min(x, length))"),
       "adjn": (["x"], "ite(x < 0, max(x + length, -1), min(x, length - 1))")}

K("awkward_regularize_rangeslice",
  extents={"start": "1", "stop": "1"},
  requires=["length >= 0"],
  nonneg=[],
  ghost=ADJ,
  ensures=["implies(posstep, start[0] == ite(hasstart, adjp(old(start[0])), 0))",
           "implies(posstep, stop[0] == max(ite(hasstop, adjp(old(stop[0])), length), start[0]))",
           "implies(not posstep, start[0] == ite(hasstart, adjn(old(start[0])), length - 1))",
           "implies(not posstep, stop[0] == min(ite(hasstop, adjn(old(stop[0])), -1), start[0]))",
           # consequences the callers rely on
           "implies(posstep, 0 <= start[0] and start[0] <= stop[0] and stop[0] <= length)",
           "implies(not posstep, -1 <= stop[0] and stop[0] <= start[0] and start[0] <= length - 1)"],
  serves=["C01", "C12", "C18"])


def LE(s, e, n):
    return "forall(q, 0, %s, %s[q] <= %s[q])" % (n, s, e)


# CPython-adjusted bounds of list q (see ADJ above), as defined ghosts over the kernel's parameters
RNG = {
    "ln": (["q"], "fromstops[q] - fromstarts[q]"),
    "rsp": (["q"], "ite(start == kSliceNone, 0, ite(start < 0, max(start + ln(q), 0), min(start, ln(q))))"),
    "rep": (["q"], "max(ite(stop == kSliceNone, ln(q), ite(stop < 0, max(stop + ln(q), 0), min(stop, ln(q)))), rsp(q))"),
    "rsn": (["q"], "ite(start == kSliceNone, ln(q) - 1, ite(start < 0, max(start + ln(q), -1), min(start, ln(q) - 1)))"),
    "ren": (["q"], "min(ite(stop == kSliceNone, -1, ite(stop < 0, max(stop + ln(q), -1), min(stop, ln(q) - 1))), rsn(q))"),
    # c = number of positions selected from list q: the unique c >= 0 with  first + c*step  past the end and
    # first + (c-1)*step not past it  (that is len(range(first, end, step)))
    "cntok_p": (["q", "c"], "c >= 0 and rsp(q) + c * step >= rep(q) and (c == 0 or rsp(q) + (c - 1) * step < rep(q))"),
    "cntok_n": (["q", "c"], "c >= 0 and rsn(q) + c * step <= ren(q) and (c == 0 or rsn(q) + (c - 1) * step > ren(q))"),
}

K("awkward_ListArray_getitem_next_range",
  # C01, for every start/stop/step: (a) every carried position lies inside the list being sliced; (b) the m-th
  # position written for list i is  start_i + first_i + m*step  with first_i CPython's adjusted start; (c) the
  # number of positions written for list q is len(range(first_q, end_q, step)) (offsets differences).
  # CPython-adjusted bounds come from the callee contract of awkward_regularize_rangeslice (modular call).
  store_asserts={"tocarry": ["fromstarts[i] <= value and value < fromstops[i]", "index == k"]},
  requires=[LE("fromstarts", "fromstops", "lenstarts"), "step != 0"],
  extents={"tooffsets": "lenstarts + 1"},
  ghost=RNG,
  per_spec={"ListArray64": {
      "store_asserts": {"tocarry": ["fromstarts[i] <= value and value < fromstops[i]", "index == k",
                                    "value == fromstarts[i] + ite(step > 0, rsp(i), rsn(i)) + (k - tooffsets[i]) * step"]},
      "loops": {
          "L0": ["0 <= i", "k == tooffsets[i]", "tooffsets[0] == 0", "step > 0",
                 "forall(q, 0, i, cntok_p(q, tooffsets[q + 1] - tooffsets[q]))"],
          "L0.0": ["k >= tooffsets[i]", "(k - tooffsets[i]) * step == j - rsp(i)", "regular_start == rsp(i)", "regular_stop == rep(i)",
                   "k == tooffsets[i] or j - step < rep(i)", "step > 0", "tooffsets[0] == 0",
                   "forall(q, 0, i, cntok_p(q, tooffsets[q + 1] - tooffsets[q]))"],
          "L1": ["0 <= i", "k == tooffsets[i]", "tooffsets[0] == 0", "step < 0",
                 "forall(q, 0, i, cntok_n(q, tooffsets[q + 1] - tooffsets[q]))"],
          "L1.0": ["k >= tooffsets[i]", "(k - tooffsets[i]) * step == j - rsn(i)", "regular_start == rsn(i)", "regular_stop == ren(i)",
                   "k == tooffsets[i] or j - step > ren(i)", "step < 0", "tooffsets[0] == 0",
                   "forall(q, 0, i, cntok_n(q, tooffsets[q + 1] - tooffsets[q]))"],
      },
      "ensures_ok": ["implies(step > 0, forall(q, 0, lenstarts, cntok_p(q, tooffsets[q + 1] - tooffsets[q])))",
                     "implies(step < 0, forall(q, 0, lenstarts, cntok_n(q, tooffsets[q + 1] - tooffsets[q])))",
                     "tooffsets[0] == 0"]}},
  notes="calls awkward_regularize_rangeslice: verified modularly against that function's contract",
  serves=["C01", "C12", "C13"])

K("awkward_ListArray_getitem_next_range_carrylength",
  requires=[LE("fromstarts", "fromstops", "lenstarts"), "step != 0"],
  serves=["C01", "C12", "C13"])


# C01 (index arrays containing missing values): the index array is repeated for every row; a present entry selects
# inside its own row (shifted by row * regularsize, including entry 0), a missing entry stays missing
K("awkward_missing_repeat",
  store_asserts={"outindex": ["at == i*indexlength + j",
                              "value == ite(index[j] >= 0, index[j] + i*regularsize, index[j])"]},
  serves=["C01", "C12", "C13"])
