# C01: range regularisation against CPython's slice semantics (PySlice_AdjustIndices), and the
# list-slicing kernels that call it.

# CPython: a bound b given by the user is adjusted as
#   step > 0:  b < 0 -> max(b + length, 0)   else min(b, length)
#   step < 0:  b < 0 -> max(b + length, -1)  else min(b, length - 1)
# absent bounds default to 0 / length (step > 0) and length - 1 / -1 (step < 0).
# The kernel additionally clamps an empty range to start == stop, which selects the same (empty) set.
ADJ = {"adjp": (["x"], "ite(x < 0, max(x + length, 0), min(x, length))"),
       "adjn": (["x"], "ite(x < 0, max(x + length, -1), min(x, length - 1))")}

K("awkward_regularize_rangeslice",
  extents={"start": "1", "stop": "1"},
  requires=["length >= 0"],
  nonneg=[],
  ghost=ADJ,
  ensures=["implies(posstep, start[0] == ite(hasstart, adjp(old(start[0])), 0))",
           "implies(posstep, stop[0] == max(ite(hasstop, adjp(old(stop[0])), length), start[0]))",
           "implies(not posstep, start[0] == ite(hasstart, adjn(old(start[0])), length - 1))",
           "implies(not posstep, stop[0] == min(ite(hasstop, adjn(old(stop[0])), -1), start[0]))",
           # consequences the callers rely on
           "implies(posstep, 0 <= start[0] and start[0] <= stop[0] and stop[0] <= length)",
           "implies(not posstep, -1 <= stop[0] and stop[0] <= start[0] and start[0] <= length - 1)"],
  serves=["C01", "C12", "C18"])


def LE(s, e, n):
    return "forall(q, 0, %s, %s[q] <= %s[q])" % (n, s, e)


K("awkward_ListArray_getitem_next_range",
  # C01: every carried position lies inside the list being sliced, for every start/stop/step (CPython-adjusted
  # bounds come from the callee contract of awkward_regularize_rangeslice)
  store_asserts={"tocarry": ["fromstarts[i] <= value and value < fromstops[i]"]},
  requires=[LE("fromstarts", "fromstops", "lenstarts"), "step != 0"],
  extents={"tooffsets": "lenstarts + 1"},
  notes="calls awkward_regularize_rangeslice: verified modularly against that function's contract",
  serves=["C01", "C12", "C13"])

K("awkward_ListArray_getitem_next_range_carrylength",
  requires=[LE("fromstarts", "fromstops", "lenstarts"), "step != 0"],
  serves=["C01", "C12", "C13"])
