# Functional contracts taken from the property statements (not from the YAML definitions): they keep
# detecting a change that edits a kernel and its definition together.

def SORTED(a, n):
    return "forall(a_, 0, %s, forall(b_, a_, %s, %s[a_] <= %s[b_]))" % (n, n, a, a)


# C05: local_index gives 0..n-1 inside every list
K("awkward_localindex",
  loops={"L0": ["0 <= i", "forall(q, 0, i, toindex[q] == q)"]},
  ensures_ok=["forall(q, 0, length, toindex[q] == q)"],
  serves=["C05", "C12", "C13"])

# C09: regular pad-and-clip: every row gets exactly `target` slots, the first min(size,target) are the row's
# own positions in order, the rest are -1
K("awkward_RegularArray_rpad_and_clip_axis1",
  extents={"toindex": "length * target"},
  store_asserts={"toindex@L0.0": ["at == i*target + j", "value == i*size + j", "j < size and j < target"],
                 "toindex@L0.1": ["at == i*target + j", "value == 0 - 1", "j >= size or j >= target"]},
  notes="stated per store (the quantified form over the nonlinear index q*target + r leaves z3 undecided)",
  serves=["C09", "C12", "C13"])

# C04 / C02: re-cutting a list array to given offsets neither repeats nor drops elements, and lists of a
# different length at the same position are an error
_BT_EQ = "forall(q, 0, i, fromstops[q] - fromstarts[q] == fromoffsets[q + 1] - fromoffsets[q])"
_BT_CARRY = "forall(q, 0, i, forall(r, 0, fromoffsets[q + 1] - fromoffsets[q], tocarry[fromoffsets[q] - fromoffsets[0] + r] == fromstarts[q] + r))"
K("awkward_ListArray_broadcast_tooffsets",
  requires=["offsetslength >= 1"],
  store_asserts={"tocarry": ["fromstarts[i] <= value and value < fromstops[i]"]},
  per_spec={"ListArray64": {
      "extents": {"tocarry": "fromoffsets[offsetslength - 1] - fromoffsets[0]", "fromoffsets": "offsetslength",
                  "fromstarts": "offsetslength - 1", "fromstops": "offsetslength - 1"},
      "loops": {"L0": ["0 <= i", "i <= offsetslength - 1", "k == fromoffsets[i] - fromoffsets[0]",
                       "forall(a_, 0, i + 1, forall(b_, a_, i + 1, fromoffsets[a_] <= fromoffsets[b_]))", _BT_EQ],
                "L0.0": ["fromstarts[i] <= j", "j <= fromstops[i]", "k == fromoffsets[i] - fromoffsets[0] + (j - fromstarts[i])",
                         "fromstops[i] - fromstarts[i] == fromoffsets[i + 1] - fromoffsets[i]",
                         "forall(a_, 0, i + 2, forall(b_, a_, i + 2, fromoffsets[a_] <= fromoffsets[b_]))", _BT_EQ]},
      "requires": ["forall(a_, 0, offsetslength, forall(b_, a_, offsetslength, fromoffsets[a_] <= fromoffsets[b_]))"],
      "ensures_ok": ["forall(q, 0, offsetslength - 1, fromstops[q] - fromstarts[q] == fromoffsets[q + 1] - fromoffsets[q])"],
      "ensures_fail": ["0 <= err_identity and err_identity < offsetslength - 1"]}},
  serves=["C04", "C02", "C12", "C13"])

# C08: copying one input into the merged buffer touches only its own segment [tooffset, tooffset+length):
# what earlier inputs wrote stays unchanged (frame), for every FROM->TO pair
_TOBOOL = "forall(q, 0, %s, toptr[tooffset + q] == ite(fromptr[q] != 0, 1, 0))"
_FRAME = "forall(q, 0, tooffset, toptr[q] == old(toptr[q]))"
# the numeric cast to bool is NumPy's (and C's): non-zero is True -- stated from the property (C08), not from the
# kernel's own Python definition, which once said "> 0" like the kernel did.  Floating point: True exactly when C's
# `x == 0` is false (so NaN, which compares unequal to everything, is True, as in NumPy); `feq` is the encoding's C ==.
_TOBOOL_SPECS = dict(
    [("tobool_from" + t, {"loops": {"L0": ["0 <= i", _FRAME, _TOBOOL % "i"]}, "ensures_ok": [_TOBOOL % "length"]})
     for t in ("int8", "int16", "int32", "int64", "uint8", "uint16", "uint32", "uint64")]
    + [("tobool_from" + t, {"store_asserts": {"toptr": ["at == tooffset + i", "value == ite(feq(fromptr[i], 0), 0, 1)"]}})
       for t in ("float32", "float64")])
for _nm in ["awkward_NumpyArray_fill", "awkward_NumpyArray_fill_frombool", "awkward_NumpyArray_fill_tobool"]:
    K(_nm,
      extents={"toptr": "tooffset + length", "fromptr": "length"},
      loops={"L0": ["0 <= i", _FRAME]},
      ensures_ok=[_FRAME],
      per_spec=(_TOBOOL_SPECS if _nm.endswith("tobool") else {}),
      serves=["C08", "C12", "C13"])

K("awkward_ListArray_fill",
  loops={"L0": ["0 <= i", "forall(q, 0, i, tostarts[tostartsoffset + q] == fromstarts[q] + base and tostops[tostopsoffset + q] == fromstops[q] + base)",
                "forall(q, 0, tostartsoffset, tostarts[q] == old(tostarts[q]))", "forall(q, 0, tostopsoffset, tostops[q] == old(tostops[q]))"]},
  ensures_ok=["forall(q, 0, length, tostarts[tostartsoffset + q] == fromstarts[q] + base and tostops[tostopsoffset + q] == fromstops[q] + base)",
              "forall(q, 0, tostartsoffset, tostarts[q] == old(tostarts[q]))", "forall(q, 0, tostopsoffset, tostops[q] == old(tostops[q]))"],
  serves=["C08", "C12", "C13"])

# missing stays missing, valid positions are rebased by the length of the content placed before
K("awkward_IndexedArray_fill",
  loops={"L0": ["0 <= i", "forall(q, 0, i, toindex[toindexoffset + q] == ite(fromindex[q] < 0, -1, fromindex[q] + base))",
                "forall(q, 0, toindexoffset, toindex[q] == old(toindex[q]))"]},
  ensures_ok=["forall(q, 0, length, toindex[toindexoffset + q] == ite(fromindex[q] < 0, -1, fromindex[q] + base))",
              "forall(q, 0, toindexoffset, toindex[q] == old(toindex[q]))"],
  serves=["C08", "C12", "C13"])
