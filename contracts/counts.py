# "The count kernel agrees with the fill kernel": the number of slots a fill kernel writes is exactly what
# the count kernel returned for the same input buffer, so a caller that sizes the output from the count
# (Engine G checks that it does) can never be overrun.  The link between the two contracts is a ghost prefix
# count over the *input array itself* (`sums` with a context: an uninterpreted function of the array, the
# polarity and a prefix length, with its defining recursion assumed and its monotonicity proved by induction
# inside every unit that uses it), so it is the same term at both call sites whenever the caller passes the
# same buffer.

def VALID_IDX(arr, n):       # V(arr, k): number of non-negative entries among the first k
    return {"V": ("q", n, "ite(%s[q] >= 0, 1, 0)" % arr, [arr], "unit")}


def VALID_MASK(arr, n):      # W(arr, validwhen, k): number of valid entries of a byte mask among the first k
    return {"W": ("q", n, "ite((%s[q] != 0) == validwhen, 1, 0)" % arr, [arr, "validwhen"], "unit")}


K("awkward_IndexedArray_numnull",
  sums=VALID_IDX("fromindex", "lenindex"),
  extents={"numnull": "1", "fromindex": "lenindex"},
  loops={"L0": ["0 <= i", "i <= lenindex", "numnull[0] == i - V(fromindex, i)"]},
  ensures_ok=["numnull[0] == lenindex - V(fromindex, lenindex)"],
  serves=["C09", "C12", "C13"])

K("awkward_ByteMaskedArray_numnull",
  sums=VALID_MASK("mask", "length"),
  extents={"numnull": "1", "mask": "length"},
  loops={"L0": ["0 <= i", "i <= length", "numnull[0] == i - W(mask, validwhen, i)"]},
  ensures_ok=["numnull[0] == length - W(mask, validwhen, length)"],
  serves=["C09", "C12", "C13"])

for _nm in ["awkward_IndexedArray_getitem_nextcarry", "awkward_IndexedArray_flatten_nextcarry"]:
    K(_nm,
      sums=VALID_IDX("fromindex", "lenindex"),
      extents={"tocarry": "V(fromindex, lenindex)", "fromindex": "lenindex"},
      loops={"L0": ["0 <= i", "i <= lenindex", "k == V(fromindex, i)"]},
      store_asserts={"tocarry": ["0 <= value and value < lencontent"]},
      serves=["C01", "C02", "C05", "C11", "C12", "C13"])

for _nm in ["awkward_IndexedArray_getitem_nextcarry_outindex", "awkward_IndexedArray_getitem_nextcarry_outindex_mask"]:
    K(_nm,
      sums=VALID_IDX("fromindex", "lenindex"),
      extents={"tocarry": "V(fromindex, lenindex)", "fromindex": "lenindex", "toindex": "lenindex"},
      loops={"L0": ["0 <= i", "i <= lenindex", "k == V(fromindex, i)"]},
      store_asserts={"tocarry": ["0 <= value and value < lencontent"],
                     "toindex": ["value == -1 or (0 <= value and value < lenindex)", "(value == -1) == (fromindex[i] < 0)"]},
      serves=["C01", "C02", "C09", "C11", "C12", "C13"])

K("awkward_IndexedArray_reduce_next_64",
  sums=VALID_IDX("index", "length"),
  extents={"nextcarry": "V(index, length)", "nextparents": "V(index, length)",
           "outindex": "length", "index": "length", "parents": "length"},
  loops={"L0": ["0 <= i", "i <= length", "k == V(index, i)"]},
  store_asserts={"outindex": ["(value == -1) == (index[i] < 0)"], "nextparents": ["value == parents[i]"]},
  serves=["C03", "C12", "C13"])

K("awkward_ByteMaskedArray_getitem_nextcarry",
  sums=VALID_MASK("mask", "length"),
  extents={"tocarry": "W(mask, validwhen, length)", "mask": "length"},
  loops={"L0": ["0 <= i", "i <= length", "k == W(mask, validwhen, i)"]},
  store_asserts={"tocarry": ["value == i"]},
  serves=["C02", "C09", "C12", "C13"])

K("awkward_ByteMaskedArray_getitem_nextcarry_outindex",
  sums=VALID_MASK("mask", "length"),
  extents={"tocarry": "W(mask, validwhen, length)", "mask": "length", "outindex": "length"},
  loops={"L0": ["0 <= i", "i <= length", "k == W(mask, validwhen, i)"]},
  store_asserts={"tocarry": ["value == i"], "outindex": ["(value == -1) == ((mask[i] != 0) != validwhen)"]},
  serves=["C02", "C09", "C12", "C13"])

K("awkward_ByteMaskedArray_reduce_next_64",
  sums=VALID_MASK("mask", "length"),
  extents={"nextcarry": "W(mask, validwhen, length)", "nextparents": "W(mask, validwhen, length)",
           "outindex": "length", "mask": "length", "parents": "length"},
  loops={"L0": ["0 <= i", "i <= length", "k == W(mask, validwhen, i)"]},
  store_asserts={"outindex": ["(value == -1) == ((mask[i] != 0) != validwhen)"], "nextparents": ["value == parents[i]"], "nextcarry": ["value == i"]},
  serves=["C03", "C12", "C13"])
