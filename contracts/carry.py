# "carry" kernels: gather through an integer array produced by an earlier kernel.
# They test only the upper bound of each position, so non-negativity of the carry
# is a precondition (established by the producing kernel's postcondition; Engine G
# checks it where the producer is in the same function).
def nonneg_arr(a, n):
    return "forall(q, 0, %s, %s[q] >= 0)" % (n, a)


def in_range(a, n, hi):
    return "forall(q, 0, %s, 0 <= %s[q] < %s)" % (n, a, hi)


K("awkward_ByteMaskedArray_getitem_carry",
  extents={"frommask": "lenmask"},
  requires=[nonneg_arr("fromcarry", "lencarry")],
  loops={"L0": ["0 <= i", "forall(q, 0, i, fromcarry[q] < lenmask and tomask[q] == frommask[fromcarry[q]])"]},
  ensures_ok=["forall(q, 0, lencarry, fromcarry[q] < lenmask and tomask[q] == frommask[fromcarry[q]])"],
  ensures_fail=["0 <= err_identity < lencarry and fromcarry[err_identity] >= lenmask"],
  serves=["C01", "C09", "C12", "C13"])

K("awkward_Identities_getitem_carry",
  extents={"identitiesptr": "length * width"},
  requires=[nonneg_arr("carryptr", "lencarry")],
  serves=["C12", "C13"])

K("awkward_index_carry",
  extents={"fromindex": "lenfromindex"},
  requires=[nonneg_arr("carry", "length")],
  # C02: carrying an index picks entry carry[q] for every q (out of range is an error)
  loops={"L0": ["0 <= i", "forall(q, 0, i, carry[q] < lenfromindex and toindex[q] == fromindex[carry[q]])"]},
  ensures_ok=["forall(q, 0, length, carry[q] < lenfromindex and toindex[q] == fromindex[carry[q]])"],
  serves=["C02", "C12", "C13"])

K("awkward_index_carry_nocheck",
  requires=[nonneg_arr("carry", "length")],      # no bound parameter exists: fromindex extent is left unspecified
  loops={"L0": ["0 <= i", "forall(q, 0, i, toindex[q] == fromindex[carry[q]])"]},
  ensures_ok=["forall(q, 0, length, toindex[q] == fromindex[carry[q]])"],
  serves=["C12", "C13"],
  notes="no bound parameter exists; extent of fromindex is whatever the caller's carry stays below")

K("awkward_IndexedArray_getitem_carry",
  extents={"fromindex": "lenindex"},
  requires=[nonneg_arr("fromcarry", "lencarry")],
  loops={"L0": ["0 <= i", "forall(q, 0, i, fromcarry[q] < lenindex and toindex[q] == fromindex[fromcarry[q]])"]},
  ensures_ok=["forall(q, 0, lencarry, fromcarry[q] < lenindex and toindex[q] == fromindex[fromcarry[q]])"],
  ensures_fail=["0 <= err_identity < lencarry and fromcarry[err_identity] >= lenindex"],
  serves=["C01", "C12", "C13"])

K("awkward_ListArray_getitem_carry",
  extents={"fromstarts": "lenstarts", "fromstops": "lenstarts"},
  requires=[nonneg_arr("fromcarry", "lencarry")],
  loops={"L0": ["0 <= i", "forall(q, 0, i, fromcarry[q] < lenstarts and tostarts[q] == fromstarts[fromcarry[q]] and tostops[q] == fromstops[fromcarry[q]])"]},
  ensures_ok=["forall(q, 0, lencarry, fromcarry[q] < lenstarts and tostarts[q] == fromstarts[fromcarry[q]] and tostops[q] == fromstops[fromcarry[q]])"],
  ensures_fail=["0 <= err_identity < lencarry and fromcarry[err_identity] >= lenstarts"],
  serves=["C01", "C12", "C13"])
