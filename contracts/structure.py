# List / option / union structure kernels: extents and data preconditions (validity of the inputs).
# Serves C12/C13 (S and E obligations) and the property named in `serves`.

def SORTED(a, n):          # a[0..n) non-decreasing (pairwise form: usable without induction)
    return "forall(a_, 0, %s, forall(b_, a_, %s, %s[a_] <= %s[b_]))" % (n, n, a, a)


def NONNEG(a, n):
    return "forall(q, 0, %s, %s[q] >= 0)" % (n, a)


def INRANGE(a, n, hi, lo="0"):
    return "forall(q, 0, %s, %s <= %s[q] < %s)" % (n, lo, a, hi)


def STARTS_LE_STOPS(s, e, n):
    return "forall(q, 0, %s, %s[q] <= %s[q])" % (n, s, e)


# ---------------------------------------------------------------- IndexedArray
K("awkward_IndexedArray_index_of_nulls",
  extents={"starts": "ghost_nstarts"},
  ghost={"ghost_nstarts": ([], None)},
  requires=["ghost_nstarts >= 0", "forall(q, 0, lenindex, 0 <= parents[q] < ghost_nstarts)"],
  # C06 (missing values sort last, positions inside their own list): every missing entry is reported once, in order,
  # by its position relative to the start of its list
  store_asserts={"toindex": ["fromindex[i] < 0", "value == i - starts[parents[i]]"]},
  notes="starts has as many entries as there are parents values; no length parameter exists",
  serves=["C03", "C12", "C13"])

K("awkward_IndexedArray_local_preparenext_64",
  extents={"starts": "ghost_nstarts"},
  ghost={"ghost_nstarts": ([], None)},
  requires=["ghost_nstarts >= 0", "forall(q, 0, parentslength, 0 <= parents[q] < ghost_nstarts)"],
  serves=["C06", "C12", "C13"])

for nm in ["awkward_IndexedArray_ranges_next_64", "awkward_IndexedArray_ranges_carry_next_64"]:
    K(nm,
      extents={"index": "ghost_nindex"},
      ghost={"ghost_nindex": ([], None)},
      requires=["ghost_nindex >= 0",
                "forall(q, 0, length, 0 <= fromstarts[q] and fromstarts[q] <= fromstops[q] and fromstops[q] <= ghost_nindex)"],
      serves=["C06", "C12", "C13"])

K("awkward_IndexedArray_flatten_none2empty",
  extents={"outoffsets": "outindexlength + 1", "offsets": "offsetslength"},
  requires=["offsetslength >= 1"],
  per_spec={"U32": {"requires": [SORTED("offsets", "offsetslength"), "forall(q, 0, outindexlength, outindex[q] < 4294967295)"]}},
  serves=["C05", "C12", "C13"])

# ---------------------------------------------------------------- ListArray
K("awkward_ListArray_getitem_jagged_apply",
  store_asserts={"tocarry": ["fromstarts[i] <= value and value < fromstops[i]"]},
  sums={"S": ("q", "sliceouterlen", "slicestops[q] - slicestarts[q]")},
  extents={"sliceindex": "sliceinnerlen", "tocarry": "S(sliceouterlen)"},
  requires=[NONNEG("slicestarts", "sliceouterlen"), STARTS_LE_STOPS("slicestarts", "slicestops", "sliceouterlen")],
  loops={"L0": ["0 <= i", "k == S(i)"],
         "L0.0": ["slicestarts[i] <= j", "k == S(i) + (j - slicestarts[i])"]},
  notes="tocarry is allocated from awkward_ListArray_getitem_jagged_carrylen = sum of the slice lengths",
  serves=["C01", "C12", "C13"])

K("awkward_ListArray_getitem_next_array_advanced",
  extents={"fromarray": "lenarray"},
  store_asserts={"tocarry": ["fromstarts[i] <= value and value < fromstops[i]"], "toadvanced": ["value == fromadvanced[i]"]},
  # (the entry handed to the next dimension is the position within the broadcast index arrays, as in the sibling
  #  spreadadvanced kernels; `== i` was the pre-016f50f behaviour, which is only right when no range precedes the arrays)
  requires=[INRANGE("fromadvanced", "lenstarts", "lenarray")],
  serves=["C01", "C12", "C13"])

K("awkward_ListArray_getitem_next_range_spreadadvanced",
  extents={"toadvanced": "fromoffsets[lenstarts]"},
  requires=["fromoffsets[0] >= 0", SORTED("fromoffsets", "lenstarts + 1")],
  # C01: every element a range selects from list i iterates with list i's entry of the advanced index
  store_asserts={"toadvanced": ["at == fromoffsets[i] + j", "value == fromadvanced[i]"]},
  serves=["C01", "C12", "C13"])

K("awkward_ListArray_localindex",
  extents={"toindex": "offsets[length]"},
  requires=["offsets[0] >= 0", SORTED("offsets", "length + 1")],
  # C05: local_index gives 0..n-1 inside every list
  loops={"L0": ["0 <= i", "forall(q, 0, i, forall(r, offsets[q], offsets[q + 1], toindex[r] == r - offsets[q]))"],
         "L0.0": ["offsets[i] <= j",
                  "forall(q, 0, i, forall(r, offsets[q], offsets[q + 1], toindex[r] == r - offsets[q]))",
                  "forall(r, offsets[i], j, toindex[r] == r - offsets[i])"]},
  ensures_ok=["forall(q, 0, length, forall(r, offsets[q], offsets[q + 1], toindex[r] == r - offsets[q]))"],
  serves=["C05", "C12", "C13"])

K("awkward_ListArray_getitem_jagged_numvalid",
  extents={"missing": "missinglength"},
  requires=[NONNEG("slicestarts", "length")],
  serves=["C01", "C12", "C13"])

K("awkward_ListArray_getitem_jagged_shrink",
  extents={"missing": "ghost_nmissing", "slicestarts": "length", "slicestops": "length",
           "tosmalloffsets": "length + 1", "tolargeoffsets": "length + 1"},
  ghost={"ghost_nmissing": ([], None)},
  requires=["ghost_nmissing >= 0", NONNEG("slicestarts", "length"), STARTS_LE_STOPS("slicestarts", "slicestops", "length"),
            "forall(q, 0, length, slicestops[q] <= ghost_nmissing)",
            "forall(a_, 0, length, forall(b_, a_ + 1, length, slicestops[a_] <= slicestarts[b_]))"],
  serves=["C01", "C12", "C13"])

for nm in ["awkward_ListArray_num", "awkward_ListArray_getitem_next_at", "awkward_ListArray_min_range",
           "awkward_ListArray_rpad_and_clip_length_axis1", "awkward_ListArray_combinations_length",
           "awkward_ListArray_getitem_jagged_descend"]:
    pass   # contracts with U32 preconditions are in the per-property files

# ---------------------------------------------------------------- ListOffsetArray
K("awkward_ListOffsetArray_flatten_offsets",
  extents={"inneroffsets": "inneroffsetslen"},
  requires=[INRANGE("outeroffsets", "outeroffsetslen", "inneroffsetslen")],
  loops={"L0": ["0 <= i", "forall(q, 0, i, tooffsets[q] == inneroffsets[outeroffsets[q]])"]},
  ensures_ok=["forall(q, 0, outeroffsetslen, tooffsets[q] == inneroffsets[outeroffsets[q]])"],
  serves=["C05", "C12", "C13"])

K("awkward_ListOffsetArray_rpad_and_clip_axis1",
  extents={"toindex": "length * target"},
  store_asserts={"toindex": ["value == -1 or (fromoffsets[i] <= value and value < fromoffsets[i + 1])",
                             "i * target <= index and index < (i + 1) * target"]},
  requires=[SORTED("fromoffsets", "length + 1")],
  serves=["C09", "C12", "C13"])

K("awkward_ListOffsetArray_rpad_length_axis1",
  extents={"tooffsets": "fromlength + 1", "tolength": "1"},
  requires=[SORTED("fromoffsets", "fromlength + 1")],
  # closure (C11): the offsets handed to the new ListOffsetArray start at 0, never decrease and end at the
  # length of the index buffer the caller allocates from *tolength
  loops={"L0": ["0 <= i", "tooffsets[0] == 0", "length == tooffsets[i]",
                "forall(q, 0, i, tooffsets[q + 1] - tooffsets[q] == max(fromoffsets[q + 1] - fromoffsets[q], target))"]},
  ensures_ok=["tooffsets[0] == 0", "tolength[0] == tooffsets[fromlength]",
              "forall(q, 0, fromlength, tooffsets[q + 1] - tooffsets[q] == max(fromoffsets[q + 1] - fromoffsets[q], target))"],
  serves=["C09", "C11", "C12", "C13"])

K("awkward_ListOffsetArray_getitem_adjust_offsets_index",
  extents={"originalmask": "masklength", "fromoffsets": "length + 1", "tooffsets": "length + 1"},
  requires=["fromoffsets[0] >= 0", SORTED("fromoffsets", "length + 1"), "fromoffsets[length] <= masklength"],
  serves=["C01", "C12", "C13"])

K("awkward_ListOffsetArray_getitem_adjust_offsets",
  extents={"fromoffsets": "length + 1", "tooffsets": "length + 1"},
  serves=["C01", "C12", "C13"])

K("awkward_ListOffsetArray_reduce_local_nextparents_64",
  extents={"nextparents": "offsets[length] - offsets[0]", "offsets": "length + 1"},
  requires=[SORTED("offsets", "length + 1")],
  loops={"L0": ["0 <= i",
                "forall(q, 0, i, forall(r, offsets[q] - offsets[0], offsets[q + 1] - offsets[0], nextparents[r] == q))"],
         "L0.0": ["offsets[i] - offsets[0] <= j",
                  "forall(q, 0, i, forall(r, offsets[q] - offsets[0], offsets[q + 1] - offsets[0], nextparents[r] == q))",
                  "forall(r, offsets[i] - offsets[0], j, nextparents[r] == i)"]},
  ensures_ok=["forall(q, 0, length, forall(r, offsets[q] - offsets[0], offsets[q + 1] - offsets[0], nextparents[r] == q))"],
  serves=["C03", "C12", "C13"])

K("awkward_ListOffsetArray_reduce_nonlocal_nextstarts_64",
  extents={"nextstarts": "ghost_nstarts"},
  ghost={"ghost_nstarts": ([], None)},
  requires=["forall(q, 0, nextlen, 0 <= nextparents[q] < ghost_nstarts)"],
  # C03: the start of group p is the position of the first element whose parent is p
  loops={"L0": ["0 <= i", "implies(i == 0, lastnextparent == 0 - 1)", "implies(i > 0, lastnextparent == nextparents[i - 1])"]},
  store_asserts={"nextstarts": ["at == nextparents[i]", "value == i", "i == 0 or nextparents[i - 1] != nextparents[i]"]},
  serves=["C03", "C12", "C13"])

K("awkward_ListOffsetArray_compact_offsets",
  extents={"fromoffsets": "length + 1", "tooffsets": "length + 1"},
  per_spec={"U32": {"requires": [SORTED("fromoffsets", "length + 1")]}},
  loops={"L0": ["0 <= i", "forall(q, 0, i + 1, tooffsets[q] == fromoffsets[q] - fromoffsets[0])"]},
  ensures_ok=["forall(q, 0, length + 1, tooffsets[q] == fromoffsets[q] - fromoffsets[0])"],
  serves=["C02", "C04", "C12", "C13"])

# ---------------------------------------------------------------- NumpyArray helpers of reducers / slicing
K("awkward_NumpyArray_getitem_next_array_advanced",
  extents={"flatheadptr": "ghost_nhead"},
  ghost={"ghost_nhead": ([], None)},
  requires=["forall(q, 0, lencarry, 0 <= advancedptr[q] < ghost_nhead)"],
  # C01: adjacent index arrays iterate together: position q takes entry advanced[q] of the flattened index array
  loops={"L0": ["0 <= i", "forall(q, 0, i, nextcarryptr[q] == skip*carryptr[q] + flatheadptr[advancedptr[q]])"]},
  ensures_ok=["forall(q, 0, lencarry, nextcarryptr[q] == skip*carryptr[q] + flatheadptr[advancedptr[q]])"],
  serves=["C01", "C12", "C13"])

K("awkward_NumpyArray_reduce_adjust_starts_64",
  extents={"parents": "ghost_nparents", "starts": "ghost_nstarts", "toptr": "outlength"},
  ghost={"ghost_nparents": ([], None), "ghost_nstarts": ([], None)},
  requires=["forall(q, 0, outlength, toptr[q] < ghost_nparents)",
            "forall(q, 0, ghost_nparents, 0 <= parents[q] < ghost_nstarts)"],
  # C03 (argmin/argmax report a position inside the group): a global position p >= 0 -- position 0 included --
  # becomes p - start of its group; "no element" (negative) stays as it is
  loops={"L0": ["0 <= k", "forall(q, k, outlength, toptr[q] == old(toptr[q]))",
                "forall(q, 0, k, toptr[q] == ite(old(toptr[q]) >= 0, old(toptr[q]) - starts[parents[old(toptr[q])]], old(toptr[q])))"]},
  ensures_ok=["forall(q, 0, outlength, toptr[q] == ite(old(toptr[q]) >= 0, old(toptr[q]) - starts[parents[old(toptr[q])]], old(toptr[q])))"],
  inout=["toptr"],
  serves=["C03", "C12", "C13"])

K("awkward_NumpyArray_reduce_adjust_starts_shifts_64",
  extents={"parents": "ghost_nparents", "starts": "ghost_nstarts", "shifts": "ghost_nparents", "toptr": "outlength"},
  ghost={"ghost_nparents": ([], None), "ghost_nstarts": ([], None)},
  requires=["forall(q, 0, outlength, toptr[q] < ghost_nparents)",
            "forall(q, 0, ghost_nparents, 0 <= parents[q] < ghost_nstarts)"],
  # ... and, when missing values or shorter lists were skipped, moved on by the shift recorded for that element
  loops={"L0": ["0 <= k", "forall(q, k, outlength, toptr[q] == old(toptr[q]))",
                "forall(q, 0, k, toptr[q] == ite(old(toptr[q]) >= 0, old(toptr[q]) + shifts[old(toptr[q])] - starts[parents[old(toptr[q])]], old(toptr[q])))"]},
  ensures_ok=["forall(q, 0, outlength, toptr[q] == ite(old(toptr[q]) >= 0, old(toptr[q]) + shifts[old(toptr[q])] - starts[parents[old(toptr[q])]], old(toptr[q])))"],
  inout=["toptr"],
  serves=["C03", "C12", "C13"])

K("awkward_NumpyArray_reduce_mask_ByteMaskedArray_64",
  extents={"toptr": "outlength"},
  requires=[INRANGE("parents", "lenparents", "outlength")],
  loops={"L0": ["0 <= i", "forall(q, 0, i, toptr[q] == 1)"],
         "L1": ["0 <= i", "forall(q, 0, outlength, toptr[q] == ite(exists(r, 0, i, parents[r] == q), 0, 1))"]},
  ensures_ok=["forall(q, 0, outlength, toptr[q] == ite(exists(r, 0, lenparents, parents[r] == q), 0, 1))"],
  serves=["C03", "C12", "C13"])

K("awkward_SliceVarNewAxis_to_SliceJagged64",
  extents={"tocarry": "fromoffsets[length]"},
  requires=["fromoffsets[0] >= 0", SORTED("fromoffsets", "length + 1")],
  serves=["C01", "C12", "C13"])

# ---------------------------------------------------------------- UnionArray
K("awkward_UnionArray_nestedfill_tags_index",
  extents={"totags": "ghost_ntotal", "toindex": "ghost_ntotal"},
  ghost={"ghost_ntotal": ([], None)},
  requires=[NONNEG("fromcounts", "length"), NONNEG("tmpstarts", "length"),
            "forall(q, 0, length, tmpstarts[q] + fromcounts[q] <= ghost_ntotal)"],
  loops={"L0": ["0 <= i", "forall(q, i, length, tmpstarts[q] == old(tmpstarts[q]))"],
         "L0.0": ["forall(q, i, length, tmpstarts[q] == old(tmpstarts[q]))", "tmpstarts[i] <= j"]},
  serves=["C08", "C12", "C13"])

K("awkward_UnionArray_simplify",
  extents={"innertags": "ghost_ninner", "innerindex": "ghost_ninner"},
  ghost={"ghost_ninner": ([], None)},
  requires=["forall(q, 0, length, 0 <= outerindex[q] < ghost_ninner)"],
  # C08: flattening a union nested in a union keeps every value: an element that the outer union sends to the nested
  # union, and the nested union to its content `innerwhich`, gets the tag of the content that now holds those values
  # (`towhich`) and its old position there moved behind what was already placed (`base`)
  store_asserts={"totags": ["at == i", "outertags[i] == outerwhich", "innertags[outerindex[i]] == innerwhich",
                            "implies(0 - 128 <= towhich and towhich < 128, value == towhich)"],
                 "toindex": ["at == i", "outertags[i] == outerwhich", "innertags[outerindex[i]] == innerwhich",
                             "value == innerindex[outerindex[i]] + base"]},
  serves=["C08", "C12", "C13"])

K("awkward_UnionArray_simplify_one",
  # C08: an element of the merged-away content gets the surviving content's tag and its position behind the
  # elements already placed there; every other element is left as it is
  store_asserts={"totags": ["at == i", "fromtags[i] == fromwhich", "implies(0 - 128 <= towhich and towhich < 128, value == towhich)"],
                 "toindex": ["at == i", "fromtags[i] == fromwhich", "value == fromindex[i] + base"]},
  serves=["C08", "C12", "C13"])

# ---------------------------------------------------------------- carry_SliceJagged
for nm in ["awkward_carry_SliceJagged_nextcarry", "awkward_carry_SliceJagged_offsets"]:
    K(nm,
      file=nm.replace("SliceJagged_", "SliceJagged64_") + ".cpp",
      extents=dict({"fromoffsets": "ghost_noffsets"}, **({} if "nextcarry" in nm else {"tooffsets": "carrylen + 1"})),
      ghost={"ghost_noffsets": ([], None), "ghost_ncarry": ([], None)},
      requires=["forall(q, 0, carrylen, 0 <= fromcarry[q] and fromcarry[q] + 1 < ghost_noffsets)"],
      # C01: carrying a jagged slice keeps, for every selected list, its length (offsets) and its element positions in order
      **({"store_asserts": {"tocarry": ["at == k", "value == j", "fromoffsets[fromcarry[i]] <= value and value < fromoffsets[fromcarry[i] + 1]"]}}
         if "nextcarry" in nm else
         {"loops": {"L0": ["0 <= i", "tooffsets[0] == 0",
                           "forall(q, 0, i, tooffsets[q + 1] - tooffsets[q] == fromoffsets[fromcarry[q] + 1] - fromoffsets[fromcarry[q]])"]},
          "ensures_ok": ["tooffsets[0] == 0",
                         "forall(q, 0, carrylen, tooffsets[q + 1] - tooffsets[q] == fromoffsets[fromcarry[q] + 1] - fromoffsets[fromcarry[q]])"]}),
      serves=["C01", "C12", "C13"])

# ---------------------------------------------------------------- sorting ranges
K("awkward_sorting_ranges_length",
  extents={"parents": "parentslength"},
  serves=["C06", "C12", "C13"])

K("awkward_UnionArray_project",
  extents={"tocarry": "length"},
  loops={"L0": ["0 <= i", "0 <= lenout[0] <= i"]},
  ensures_ok=["0 <= lenout[0] <= length"],
  serves=["C08", "C12", "C13"])

K("awkward_UnionArray_regular_index",
  extents={"current": "size", "toindex": "length"},
  requires=[INRANGE("fromtags", "length", "size")],
  serves=["C08", "C12", "C13"])


K("awkward_RegularArray_getitem_next_array_advanced",
  extents={"fromarray": "lenarray"},
  requires=[INRANGE("fromadvanced", "length", "lenarray")],
  loops={"L0": ["0 <= i", "forall(q, 0, i, tocarry[q] == q*size + fromarray[fromadvanced[q]] and toadvanced[q] == fromadvanced[q])"]},
  ensures_ok=["forall(q, 0, length, tocarry[q] == q*size + fromarray[fromadvanced[q]] and toadvanced[q] == fromadvanced[q])"],
  serves=["C01", "C12", "C13"])


K("awkward_Identities_from_ListArray",
  requires=[NONNEG("fromstarts", "fromlength")],
  serves=["C12", "C13"])

K("awkward_Identities_from_ListOffsetArray",
  requires=["fromoffsets[0] >= 0", SORTED("fromoffsets", "fromlength + 1")],
  serves=["C12", "C13"])

K("awkward_ListOffsetArray_reduce_nonlocal_nextshifts_64",
  extents={"nummissing": "maxcount", "starts": "ghost_nstarts", "parents": "length", "offsets": "length + 1",
           "nextshifts": "nextlen", "nextcarry": "nextlen"},
  ghost={"ghost_nstarts": ([], None)},
  requires=["offsets[0] >= 0", SORTED("offsets", "length + 1"), INRANGE("parents", "length", "ghost_nstarts"),
            "forall(q, 0, length, offsets[q + 1] - offsets[q] <= maxcount)", NONNEG("nextcarry", "nextlen")],
  serves=["C03", "C12", "C13"])

K("awkward_NumpyArray_rearrange_shifted",
  extents={"starts": "startslength", "parents": "parentslength"},
  requires=[INRANGE("parents", "length", "startslength"), "length <= parentslength"],
  unchecked=["shifts"],
  # C06 (argsort returns positions inside each list): a position p found for the merged column is reported relative
  # to its own list: p + shifts[p] - starts[parents[i]] -- the shift looked up at the *position*, stated from the
  # property, not from the kernel's definition
  store_asserts={"toptr@L1": ["value == toptr[at] + shifts[toptr[at]] - starts[parents[at]]"],
                 "toptr@L0.0": ["value == toptr[at] + offsets[i]"]},
  notes="shifts is indexed by values read back from the in/out array toptr; its bound depends on the caller's data and is not under contract",
  serves=["C06", "C12", "C13"])

K("awkward_sorting_ranges",
  requires=["tolength >= 2"],
  serves=["C06", "C12", "C13"])

K("awkward_NumpyArray_subrange_equal",
  requires=[NONNEG("fromstarts", "length")],
  serves=["C06", "C12", "C13"])

K("awkward_NumpyArray_unique_strings_uint8",
  requires=["offsets[0] >= 0", SORTED("offsets", "offsetslength")],
  serves=["C06", "C12", "C13"])

K("awkward_ListOffsetArray_reduce_nonlocal_preparenext_64",
  requires=[NONNEG("parents", "length"), "forall(q, 0, length, offsetscopy[q] >= offsets[q])"],
  loops={"L0": ["maxnextparents[0] >= 0"],
         "L1": ["forall(q, 0, length, offsetscopy[q] >= offsets[q])", "maxnextparents[0] >= 0"],
         "L1.0": ["0 <= i", "forall(q, 0, length, offsetscopy[q] >= offsets[q])", "maxnextparents[0] >= 0"]},
  ensures_ok=["maxnextparents[0] >= 0"],
  # C03 (reducing along an outer axis combines the elements with the same coordinates): element number k taken from
  # list i is the next unconsumed element of that list, and its group is (group of list i, position within the list)
  store_asserts={"nextcarry": ["at == k", "value == offsetscopy[i]", "offsets[i] <= value and value < offsets[i + 1]"],
                 "nextparents": ["at == k", "value == parents[i] * maxcount + (nextcarry[k] - offsets[i])"],
                 "offsetscopy": ["at == i", "value == offsetscopy[i] + 1"]},
  notes="maxnextparents >= 0 is what sizes nextstarts (maxnextparents + 1) and the next level's outlength; termination of the outer while depends on sum(counts) == nextlen (caller's obligation); not proved here",
  serves=["C03", "C12", "C13"])


# ---------------------------------------------------------------- UnionArray flatten (T** offsetsraws: one offsets array per content)
for nm in ["awkward_UnionArray_flatten_length", "awkward_UnionArray_flatten_combine"]:
    K(nm,
      # C05 (flattening a union of lists concatenates, in order, the list each element selects): the flattened
      # elements of union element i carry its tag and run over exactly its list's positions [start, stop)
      **({"store_asserts": {"totags": ["at == k", "value == fromtags[i]"],
                            "toindex": ["at == k", "value == j", "start <= value and value < stop"],
                            "tooffsets@L0": ["at == i + 1", "value == tooffsets[i] + (stop - start)"]}}
         if nm.endswith("combine") else {}),
      extents={"offsetsraws": "ghost_ncontents", "fromtags": "length", "fromindex": "length"},
      ghost={"ghost_ncontents": ([], None)},
      requires=["ghost_ncontents >= 0", INRANGE("fromtags", "length", "ghost_ncontents"), NONNEG("fromindex", "length")],
      per_spec={"U32": {"requires": ["forall(q, 0, length, fromindex[q] < 4294967295)"]}},
      notes="offsetsraws is a T**: its rows (one offsets array per union content) have no length parameter; index obligations on the rows are not generated (listed as unchecked), the row selection itself is",
      serves=["C05", "C12", "C13"])
