# Local functional clauses stated at every store (store_asserts): each value written into an output array
# satisfies the clause of the property that constrains it -- taken from the property statements:
#   C01  the carried position lies inside the list that is being sliced (never a neighbouring list)
#   C09  a padded slot is -1 (None) or a position of the same list; missing stays missing
#   C11  indexes handed to the next node are in range for it (closure of validity)
# These keep detecting a change that edits a kernel and its YAML definition together.

def LE(s, e, n):
    return "forall(q, 0, %s, %s[q] <= %s[q])" % (n, s, e)


IN_LIST = "fromstarts[i] <= value and value < fromstops[i]"

K("awkward_ListArray_getitem_next_array",
  extents={"fromarray": "lenarray", "tocarry": "lenstarts * lenarray", "toadvanced": "lenstarts * lenarray"},
  store_asserts={"tocarry": [IN_LIST, "value < lencontent"], "toadvanced": ["0 <= value and value < lenarray"]},
  serves=["C01", "C11", "C12", "C13"])

K("awkward_RegularArray_getitem_next_at",
  store_asserts={"tocarry": ["i * size <= value and value < (i + 1) * size"]},
  serves=["C01", "C12", "C13"])

K("awkward_RegularArray_getitem_next_array",
  store_asserts={"tocarry": ["i * size <= value and value < (i + 1) * size"]},
  requires=["forall(q, 0, lenarray, 0 <= fromarray[q] and fromarray[q] < size)"],
  notes="fromarray has been regularized by awkward_RegularArray_getitem_next_array_regularize (producer postcondition, assumed here)",
  serves=["C01", "C12", "C13"])

# wrap-negative-then-check kernels: success iff every index is in [-n, n); on success each element is the
# wrapped index; nothing else changes
_WR = "ite(fromarray[q] < 0, fromarray[q] + size, fromarray[q])"
K("awkward_RegularArray_getitem_next_array_regularize",
  loops={"L0": ["0 <= j", "forall(q, 0, j, 0 <= toarray[q] and toarray[q] < size and toarray[q] == %s)" % _WR]},
  ensures_ok=["forall(q, 0, lenarray, 0 <= toarray[q] and toarray[q] < size and toarray[q] == %s)" % _WR],
  ensures_fail=["exists(q, 0, lenarray, not (0 - size <= fromarray[q] and fromarray[q] < size))"],
  serves=["C01", "C12", "C13"])

_WA = "ite(old(flatheadptr[q]) < 0, old(flatheadptr[q]) + length, old(flatheadptr[q]))"
K("awkward_regularize_arrayslice",
  loops={"L0": ["0 <= i", "forall(q, 0, i, 0 <= flatheadptr[q] and flatheadptr[q] < length and flatheadptr[q] == %s)" % _WA,
                "forall(q, i, lenflathead, flatheadptr[q] == old(flatheadptr[q]))"]},
  ensures_ok=["forall(q, 0, lenflathead, 0 <= flatheadptr[q] and flatheadptr[q] < length and flatheadptr[q] == %s)" % _WA],
  ensures_fail=["exists(q, 0, lenflathead, not (0 - length <= old(flatheadptr[q]) and old(flatheadptr[q]) < length))"],
  serves=["C01", "C12", "C13"])

K("awkward_ByteMaskedArray_toIndexedOptionArray",
  store_asserts={"toindex": ["value == ite((mask[i] != 0) == validwhen, i, -1)"]},
  serves=["C02", "C09", "C12", "C13"])

K("awkward_IndexedArray_mask",
  store_asserts={"tomask": ["(value != 0) == (fromindex[i] < 0)"]},
  serves=["C09", "C12", "C13"])

K("awkward_ByteMaskedArray_mask",
  store_asserts={"tomask": ["(value != 0) == ((frommask[i] != 0) != validwhen)"]},
  serves=["C09", "C12", "C13"])

# C09 / C02: a bit mask marks element i*8 + j valid exactly when bit j of byte i (counted from the least significant
# bit when lsb_order, from the most significant otherwise) equals valid_when -- stated from the property, for every
# bit position, not from the kernel's own definition
def _bit(j, lsb):
    return "(frombitmask[i] // %d) %% 2 != 0" % (2 ** (j if lsb else 7 - j))

_BYTE = ["0 <= index - i*8 and index - i*8 < 8"]
_IDX = ["0 <= index - i*8 and index - i*8 < 8"]
for _j in range(8):
    for _lsb in (True, False):
        _g = "index == i*8 + %d and lsb_order == %s" % (_j, "True" if _lsb else "False")
        _BYTE.append("implies(%s, (value != 0) == ((%s) != validwhen))" % (_g, _bit(_j, _lsb)))
        _IDX.append("implies(%s, value == ite((%s) == validwhen, index, -1))" % (_g, _bit(_j, _lsb)))

K("awkward_BitMaskedArray_to_ByteMaskedArray",
  store_asserts={"tobytemask": _BYTE},
  serves=["C02", "C09", "C12", "C13"])

K("awkward_BitMaskedArray_to_IndexedOptionArray",
  store_asserts={"toindex": _IDX},
  serves=["C02", "C09", "C12", "C13"])
