# Hand-written quicksort of sort(stable=False) / argsort(stable=False): awkward_quick_sort.cpp, awkward_quick_argsort.cpp.
#
# What is proved (for every element type, both predicates, all inputs, all iterations):
#   * quick_sort / quick_argsort never touch arr / result outside [0, elements) nor the explicit stack beg/end
#     outside [0, maxlevels): the stack discipline  -1 <= i < maxlevels,  0 <= beg[k] <= end[k] <= elements for every
#     live level k <= i  is an inductive invariant of the outer loop, the partition loop keeps
#     beg[i] <= low <= high < end[i];
#   * quick_argsort keeps every entry of `result` a position inside [0, elements) (so arr[result[..]] is in bounds);
#   * they return 0 or -1;
#   * the kernels hand each list's window [start, stop) of the buffer to the helper and nothing else: the extents the
#     helper's contract states fit into the kernel's buffers (C.extent), its precondition holds at the call (C.pre),
#     everything outside the window is left unchanged (assumed from the helper's frame, which is its extents).
# What is NOT proved here: that the result is sorted and a permutation (bounded stand-in in sorting.py, Engine N),
# termination.  `binary_op(l, r, predicate)` is the call through the predicate pointer: a pure callee whose result
# is an unknown boolean (a syntactic obligation B.binary_op checks that its body is exactly `(*f)(left, right)`).

STACK = "forall(k, 0, i + 1, 0 <= beg[k] and beg[k] <= end[k] and end[k] <= elements)"
# Depth of the explicit stack.  B(elements, k) = elements // 2**k (defining axioms below; they have the model 2**k, so
# assuming them is sound).  Because the SMALLER of the two sub-ranges is always the one pushed on top, the range held
# at level k has at most B(elements, k) elements; so the helper gives up (returns -1, "failed to sort an array") only
# if B(elements, maxlevels - 1) >= 2, i.e. for lists of at least 2**maxlevels elements -- never for a list that fits
# in memory with the library's kMaxLevels = 48.  A change that pushes the larger range breaks HALVING.
GHOST_B = {"B": (["e", "k"], None)}
AXIOMS_B = ["B(elements, 0) == elements",
            "forall(k, 0, maxlevels, B(elements, k + 1) == B(elements, k) // 2)"]
HALVING = "forall(k, 0, i + 1, end[k] - beg[k] <= B(elements, k))"
DEPTH_POST = "result == 0 or (result == -1 and B(elements, maxlevels - 1) >= 2)"

K("binary_op", pure=True)

K("quick_sort",
  extents={"arr": "elements", "beg": "maxlevels", "end": "maxlevels"},
  requires=["maxlevels >= 1"],
  calls={"binary_op": "binary_op"},
  loops={
      "L0": ["-1 <= i", "i < maxlevels", STACK, HALVING],
      "L0.0": ["beg[i] <= low", "low <= high", "high < end[i]"],
      "L0.0.0": ["low <= high", "high <= entry(high)"],
      "L0.0.1": ["low <= high", "low >= entry(low)"],
      "L0.1": ["beg[i] <= low", "low <= entry(low)"],
      "L0.2": ["mid <= end[i]", "mid >= entry(mid)"],
  },
  auto_inv=False,      # every invariant is written out (no Houdini search: these units are the slowest otherwise)
  ghost=GHOST_B, axioms=AXIOMS_B,
  ensures=[DEPTH_POST])

INRANGE = "forall(k, 0, elements, 0 <= result[k] and result[k] < elements)"

K("quick_argsort",
  extents={"arr": "elements", "result": "elements", "beg": "maxlevels", "end": "maxlevels"},
  requires=["maxlevels >= 1", INRANGE],
  calls={"binary_op": "binary_op"},
  loops={
      "L0": ["-1 <= i", "i < maxlevels", STACK, HALVING, INRANGE],
      "L0.0": ["beg[i] <= low", "low <= high", "high < end[i]", INRANGE, "0 <= ind and ind < elements"],
      "L0.0.0": ["low <= high", "high <= entry(high)"],
      "L0.0.1": ["low <= high", "low >= entry(low)"],
      "L0.1": ["beg[i] <= low", "low <= entry(low)"],
      "L0.2": ["mid <= end[i]", "mid >= entry(mid)"],
  },
  auto_inv=False,
  ghost=GHOST_B, axioms=AXIOMS_B,
  ensures=[DEPTH_POST])
# (inside `ensures`, `result` is the returned value; the array parameter of the same name is not mentioned there)

# ---- the kernels
# tmpptr holds at least N elements, where every list window lies inside [0, N) (N is a ghost constant: the buffer
# length is not a parameter of the kernel)
K("awkward_quick_sort",
  ghost={"N": ([], None)},
  extents={"tmpptr": "N", "tmpbeg": "maxlevels", "tmpend": "maxlevels", "fromstarts": "length", "fromstops": "length"},
  requires=["maxlevels >= 1",
            "forall(k, 0, length, 0 <= fromstarts[k] and fromstarts[k] <= fromstops[k] and fromstops[k] <= N)"],
  calls={"quick_sort": "quick_sort"})

SORTED_OFFSETS = "forall(a, 0, offsetslength, forall(b, a, offsetslength, 0 <= offsets[a] and offsets[a] <= offsets[b] and offsets[b] <= length))"
# (written over the position p itself, not over offsets[s] + j: array terms indexed by a bound variable give the
#  solver usable triggers)
LOCAL = "forall(s, %s, offsetslength - 1, forall(p, offsets[s], offsets[s + 1], toptr[p] == p - offsets[s]))"

K("awkward_quick_argsort",
  extents={"toptr": "length", "fromptr": "length", "tmpbeg": "maxlevels", "tmpend": "maxlevels", "offsets": "offsetslength"},
  requires=["maxlevels >= 1", SORTED_OFFSETS],
  calls={"quick_argsort": "quick_argsort"},
  loops={
      # initialisation: every list window holds its local positions 0, 1, 2, ...
      "L0": ["0 <= i", LOCAL.replace("%s, offsetslength - 1", "0, i")],
      "L0.0": ["0 <= j", LOCAL.replace("%s, offsetslength - 1", "0, i"),
               "forall(p, offsets[i], offsets[i] + j, toptr[p] == p - offsets[i])"],
      # the windows not yet sorted are as the initialisation left them (entry(...) = the state when the loop is entered)
      "L1": ["0 <= i", "forall(p, offsets[i], length, toptr[p] == entry(toptr[p]))"],
      "L2": ["0 <= i", "forall(p, offsets[i], length, toptr[p] == entry(toptr[p]))"],
  },
  auto_inv=False)
