# Functional contracts for the element-wise kernels (one output element per loop iteration), stated from the
# property statements, not from the YAML definitions: E pins each kernel to its definition, these pin kernel *and*
# definition to what the property says, so an edit made to both in the same wrong way is still refuted.
#
# Single-index kernels get a whole-array postcondition with a frame; kernels that write at i*n + j get store
# assertions (the quantified form over the non-linear index made z3's verdict depend on machine load, see
# awkward_RegularArray_localindex in functional.py).


def FILL(name, arr, n, val, off=None, serves=(), guard=None, extra_loops=(), nonneg=None):
    """for (i = 0; i < n; i++) arr[off + i] = val(i)"""
    at = "q" if off is None else "%s + q" % off
    body = "%s[%s] == %s" % (arr, at, val.replace("@", "q"))
    if guard:
        body = "implies(%s, %s)" % (guard.replace("@", "q"), body)
    inv = ["0 <= i", "forall(q, 0, i, %s)" % body] + list(extra_loops)
    post = ["forall(q, 0, %s, %s)" % (n, body)]
    if off is not None:
        frame = "forall(q, 0, %s, %s[q] == old(%s[q]))" % (off, arr, arr)
        inv.append(frame)
        post.append(frame)
    K(name, loops={"L0": inv}, ensures_ok=post, serves=list(serves) + ["C12", "C13"],
      **({"nonneg": nonneg} if nonneg is not None else {}))


# ---- C05: num / local_index / offsets of regular and list arrays
FILL("awkward_RegularArray_num", "tonum", "length", "size", serves=["C05"])
FILL("awkward_carry_arange", "toptr", "length", "@", serves=["C01", "C05"])
FILL("awkward_content_reduce_zeroparents_64", "toparents", "length", "0", serves=["C03"])
FILL("awkward_zero_mask", "tomask", "length", "0", serves=["C09"])
FILL("awkward_one_mask", "tomask", "length", "1", serves=["C09"])

# offsets of a RegularArray are the multiples of its size
K("awkward_RegularArray_compact_offsets",
  loops={"L0": ["0 <= i", "tooffsets[0] == 0", "forall(q, 0, i, tooffsets[q + 1] == (q + 1) * size)"]},
  ensures_ok=["tooffsets[0] == 0", "forall(q, 0, length, tooffsets[q + 1] == (q + 1) * size)"],
  serves=["C05", "C02", "C12", "C13"])

# compacted offsets start at 0 and grow by each list's length; a list with stop < start is an error
K("awkward_ListArray_compact_offsets",
  loops={"L0": ["0 <= i", "tooffsets[0] == 0",
                "forall(q, 0, i, tooffsets[q + 1] - tooffsets[q] == fromstops[q] - fromstarts[q])",
                "forall(q, 0, i, fromstarts[q] <= fromstops[q])"]},
  ensures_ok=["tooffsets[0] == 0", "forall(q, 0, length, tooffsets[q + 1] - tooffsets[q] == fromstops[q] - fromstarts[q])",
              "forall(q, 0, length, fromstarts[q] <= fromstops[q])"],
  ensures_fail=["0 <= err_identity and err_identity < length", "fromstops[err_identity] < fromstarts[err_identity]"],
  serves=["C05", "C02", "C11", "C12", "C13"])

K("awkward_RegularArray_localindex",
  extents={"toindex": "length * size"},
  store_asserts={"toindex": ["at == i*size + j", "value == j"]},
  notes="whole-array postcondition over the nonlinear index q*size + r made z3's verdict depend on machine load; stated per store instead",
  serves=["C05", "C12", "C13"])

# a regular array broadcasts to offsets only if every list has exactly `size` elements
K("awkward_RegularArray_broadcast_tooffsets",
  loops={"L0": ["0 <= i", "forall(q, 0, i, fromoffsets[q + 1] - fromoffsets[q] == size)"]},
  ensures_ok=["forall(q, 0, offsetslength - 1, fromoffsets[q + 1] - fromoffsets[q] == size)"],
  ensures_fail=["0 <= err_identity and err_identity < offsetslength - 1",
                "fromoffsets[err_identity + 1] - fromoffsets[err_identity] != size"],
  serves=["C04", "C12", "C13"])

K("awkward_RegularArray_broadcast_tooffsets_size1",
  store_asserts={"tocarry": ["value == i", "at == k"]},
  serves=["C04", "C12", "C13"])

# ---- C01: carries of n-dimensional NumpyArray and RegularArray slicing
FILL("awkward_NumpyArray_getitem_next_at", "nextcarryptr", "lencarry", "skip*carryptr[@] + at", serves=["C01"])

K("awkward_NumpyArray_getitem_next_range",
  store_asserts={"nextcarryptr": ["at == i*lenhead + j", "value == skip*carryptr[i] + start + j*step"]},
  serves=["C01", "C12", "C13"])

K("awkward_NumpyArray_getitem_next_range_advanced",
  store_asserts={"nextcarryptr": ["at == i*lenhead + j", "value == skip*carryptr[i] + start + j*step"],
                 "nextadvancedptr": ["at == i*lenhead + j", "value == advancedptr[i]"]},
  serves=["C01", "C12", "C13"])

K("awkward_NumpyArray_getitem_next_array",
  store_asserts={"nextcarryptr": ["at == i*lenflathead + j", "value == skip*carryptr[i] + flatheadptr[j]"],
                 "nextadvancedptr": ["at == i*lenflathead + j", "value == j"]},
  serves=["C01", "C12", "C13"])

K("awkward_RegularArray_getitem_next_range",
  store_asserts={"tocarry": ["at == i*nextsize + j", "value == i*size + regular_start + j*step"]},
  serves=["C01", "C12", "C13"])

K("awkward_RegularArray_getitem_carry",
  store_asserts={"tocarry": ["at == i*size + j", "value == fromcarry[i]*size + j"]},
  serves=["C01", "C02", "C12", "C13"])

K("awkward_RegularArray_getitem_next_range_spreadadvanced",
  store_asserts={"toadvanced": ["at == i*nextsize + j", "value == fromadvanced[i]"]},
  serves=["C01", "C12", "C13"])

# ---- C09: padding indexes
# pad_none(axis=0, clip): the first min(target, length) positions are themselves, the rest are missing
K("awkward_index_rpad_and_clip_axis0",
  loops={"L0": ["0 <= i", "shorter == min(target, length)", "forall(q, 0, i, toindex[q] == q)"],
         "L1": ["shorter <= i", "shorter == min(target, length)", "forall(q, 0, shorter, toindex[q] == q)",
                "forall(q, shorter, i, toindex[q] == 0 - 1)"]},
  ensures_ok=["forall(q, 0, min(target, length), toindex[q] == q)",
              "forall(q, min(target, length), target, toindex[q] == 0 - 1)"],
  serves=["C09", "C12", "C13"])

# regular padding: list q occupies [q*target, (q+1)*target)
K("awkward_index_rpad_and_clip_axis1",
  loops={"L0": ["0 <= i", "offset == i * target",
                "forall(q, 0, i, tostarts[q] == q * target and tostops[q] == (q + 1) * target)"]},
  ensures_ok=["forall(q, 0, length, tostarts[q] == q * target and tostops[q] == (q + 1) * target)"],
  serves=["C09", "C12", "C13"])

# fill_none through a union: a missing entry (negative index) points at the fill value (position 0 of its content),
# every other entry keeps its position
FILL("awkward_UnionArray_fillna", "toindex", "length", "ite(fromindex[@] >= 0, fromindex[@], 0)", serves=["C09"])

# ---- C08: merging into a union / indexed array copies each input's tags and indexes into its own segment
FILL("awkward_UnionArray_filltags", "totags", "length", "fromtags[@] + base", off="totagsoffset", serves=["C08"],
     guard="0 - 128 <= fromtags[@] + base and fromtags[@] + base < 128")
FILL("awkward_UnionArray_filltags_const", "totags", "length", "base", off="totagsoffset", serves=["C08"],
     guard="0 - 128 <= base and base < 128")
FILL("awkward_UnionArray_fillindex", "toindex", "length", "fromindex[@]", off="toindexoffset", serves=["C08"])
FILL("awkward_UnionArray_fillindex_count", "toindex", "length", "@", off="toindexoffset", serves=["C08"])
FILL("awkward_IndexedArray_fill_count", "toindex", "length", "@ + base", off="toindexoffset", serves=["C08"])

# ---- C03
K("awkward_ListOffsetArray_reduce_global_startstop_64",
  ensures_ok=["globalstart[0] == offsets[0]", "globalstop[0] == offsets[length]"],
  serves=["C03", "C12", "C13"])

# ---- index conversions keep every entry
FILL("awkward_Index_to_Index64", "toptr", "length", "fromptr[@]", serves=["C02"])


# ---- C08: collapsing an index of an index keeps every entry: missing outside stays missing, otherwise the inner entry
K("awkward_IndexedArray_simplify",
  loops={"L0": ["0 <= i", "forall(q, 0, i, outerindex[q] < innerlength)",
                "forall(q, 0, i, toindex[q] == ite(outerindex[q] < 0, 0 - 1, innerindex[outerindex[q]]))"]},
  ensures_ok=["forall(q, 0, outerlength, outerindex[q] < innerlength)",
              "forall(q, 0, outerlength, toindex[q] == ite(outerindex[q] < 0, 0 - 1, innerindex[outerindex[q]]))"],
  ensures_fail=["0 <= err_identity and err_identity < outerlength", "outerindex[err_identity] >= innerlength"],
  serves=["C08", "C02", "C12", "C13"])

# ---- C09: masking an indexed / byte-masked array: an element is missing afterwards iff the new mask says so or it
# was missing before
FILL("awkward_IndexedArray_overlay_mask", "toindex", "length", "ite(mask[@] != 0, 0 - 1, fromindex[@])", serves=["C09"])

K("awkward_ByteMaskedArray_overlay_mask",
  loops={"L0": ["0 <= i", "forall(q, 0, i, (tomask[q] != 0) == (theirmask[q] != 0 or ((mymask[q] != 0) != validwhen)))"]},
  ensures_ok=["forall(q, 0, length, (tomask[q] != 0) == (theirmask[q] != 0 or ((mymask[q] != 0) != validwhen)))"],
  serves=["C09", "C12", "C13"])

# ---- C02 / C05: a list array is regular exactly when all its lists have one length; that length is the size
# (0 for an array without lists)
K("awkward_ListOffsetArray_toRegularArray",
  loops={"L0": ["0 <= i", "implies(offsetslength - 1 <= 0, i == 0)", "implies(i == 0, size[0] == 0 - 1)", "implies(i > 0, size[0] >= 0)",
                "forall(q, 0, i, fromoffsets[q + 1] - fromoffsets[q] == size[0])"]},
  ensures_ok=["forall(q, 0, offsetslength - 1, fromoffsets[q + 1] - fromoffsets[q] == size[0])",
              "implies(offsetslength - 1 <= 0, size[0] == 0)", "size[0] >= 0"],
  ensures_fail=["0 <= err_identity and err_identity < offsetslength - 1"],
  serves=["C02", "C05", "C12", "C13"])

# ---- C01
# total number of elements selected by a range slice: the span of the new offsets
K("awkward_ListArray_getitem_next_range_counts",
  loops={"L0": ["0 <= i", "total[0] == fromoffsets[i] - fromoffsets[0]"]},
  ensures_ok=["implies(lenstarts >= 0, total[0] == fromoffsets[lenstarts] - fromoffsets[0])"],
  serves=["C01", "C12", "C13"])

# a jagged slice applied to every list of a regular / list array: list i, position j gets slice j's range,
# and (list arrays) carries element start_i + j
K("awkward_RegularArray_getitem_jagged_expand",
  store_asserts={"multistarts": ["at == i*regularsize + j", "value == singleoffsets[j]"],
                 "multistops": ["at == i*regularsize + j", "value == singleoffsets[j + 1]"]},
  serves=["C01", "C12", "C13"])

K("awkward_ListArray_getitem_jagged_expand",
  store_asserts={"multistarts": ["at == i*jaggedsize + j", "value == singleoffsets[j]"],
                 "multistops": ["at == i*jaggedsize + j", "value == singleoffsets[j + 1]"],
                 "tocarry": ["at == i*jaggedsize + j", "value == fromstarts[i] + j", "fromstops[i] - fromstarts[i] == jaggedsize"]},
  serves=["C01", "C12", "C13"])

# a boolean index selects exactly the positions holding a non-zero byte
K("awkward_NumpyArray_getitem_boolean_nonzero",
  store_asserts={"toptr": ["value == i", "fromptr[i] != 0", "at == k"]},
  serves=["C01", "C12", "C13"])

# ---- C02: an index is contiguous exactly when entry q is q
_CONTIG = {"loops": {"L0": ["0 <= i", "expecting == i", "result[0] != 0", "forall(q, 0, i, fromindex[q] == q)"]},
           "ensures_ok": ["(result[0] != 0) == forall(q, 0, length, fromindex[q] == q)"]}
K("awkward_Index_iscontiguous",
  per_spec={"Index64_": _CONTIG, "Index32_": _CONTIG},
  notes="the 8-bit and unsigned instantiations count with a wrapping `T expecting`: an Index8 longer than 128 entries whose entry 128 is -128 "
        "would be reported contiguous; no caller asks this of a narrow index (carry indexes are Index64), so it is recorded as an observation, not a finding",
  serves=["C02", "C12", "C13"])


# ---- C03: the offsets of the reduced lists are the group starts, closed by the total length
K("awkward_IndexedArray_reduce_next_fix_offsets_64",
  loops={"L0": ["0 <= i", "forall(q, 0, i, outoffsets[q] == starts[q])"]},
  ensures_ok=["forall(q, 0, startslength, outoffsets[q] == starts[q])", "outoffsets[startslength] == outindexlength"],
  serves=["C03", "C06", "C12", "C13"])

# counting reducers on booleans (sum of bools as int32/int64 == count of True): same fold as count_nonzero
for _nm in ["awkward_reduce_sum_int32_bool_64", "awkward_reduce_sum_int64_bool_64"]:
    K(_nm,
      extents={"toptr": "outlength", "fromptr": "lenparents", "parents": "lenparents"},
      requires=["forall(j, 0, lenparents, 0 <= parents[j] < outlength)"],
      ghost={"G": (["p", "n"], None)},
      axioms=["forall(p, 0, outlength, G(p, 0) == 0)",
              "forall(p, 0, outlength, forall(n, 0, lenparents, G(p, n + 1) == G(p, n) + ite(parents[n] == p, ite(fromptr[n] != 0, 1, 0), 0)))"],
      loops={"L0": ["0 <= i", "forall(p, 0, i, toptr[p] == 0)"],
             "L1": ["0 <= i", "i <= lenparents", "forall(p, 0, outlength, toptr[p] == G(p, i))"]},
      ensures_ok=["forall(p, 0, outlength, toptr[p] == G(p, lenparents))"],
      serves=["C03", "C12", "C13"])

# ---- C09 / C03: positions of the valid entries count the valid entries before them; the shift of a valid entry
# is the number of missing entries before it
K("awkward_IndexedOptionArray_rpad_and_clip_mask_axis1",
  sums={"NV": ("q", "length", "ite(frommask[q] != 0, 0, 1)", ["frommask"], "unit")},
  loops={"L0": ["0 <= i", "i <= length", "count == NV(frommask, i)"]},
  store_asserts={"toindex": ["at == i", "value == ite(frommask[i] != 0, 0 - 1, NV(frommask, i))"]},
  serves=["C09", "C12", "C13"])

# C03 (argmin/argmax positions): when missing entries are dropped before reducing, the shift of the k-th valid entry
# is the number of missing entries before it (added to the incoming shift, if any)
_VI = {"V": ("q", "length", "ite(index[q] >= 0, 1, 0)", ["index"], "unit")}
K("awkward_IndexedArray_reduce_next_nonlocal_nextshifts_64",
  sums=_VI,
  loops={"L0": ["0 <= i", "i <= length", "k == V(index, i)", "nullsum == i - V(index, i)"]},
  store_asserts={"nextshifts": ["index[i] >= 0", "at == V(index, i)", "value == i - V(index, i)"]},
  serves=["C03", "C06", "C12", "C13"])

K("awkward_IndexedArray_reduce_next_nonlocal_nextshifts_fromshifts_64",
  sums=_VI,
  loops={"L0": ["0 <= i", "i <= length", "k == V(index, i)", "nullsum == i - V(index, i)"]},
  store_asserts={"nextshifts": ["index[i] >= 0", "at == V(index, i)", "value == shifts[i] + i - V(index, i)"]},
  serves=["C03", "C06", "C12", "C13"])

_VM = {"W": ("q", "length", "ite((mask[q] != 0) == valid_when, 1, 0)", ["mask", "valid_when"], "unit")}
K("awkward_ByteMaskedArray_reduce_next_nonlocal_nextshifts_64",
  sums=_VM,
  loops={"L0": ["0 <= i", "i <= length", "k == W(mask, valid_when, i)", "nullsum == i - W(mask, valid_when, i)"]},
  store_asserts={"nextshifts": ["(mask[i] != 0) == valid_when", "at == W(mask, valid_when, i)", "value == i - W(mask, valid_when, i)"]},
  serves=["C03", "C12", "C13"])

K("awkward_ByteMaskedArray_reduce_next_nonlocal_nextshifts_fromshifts_64",
  sums=_VM,
  loops={"L0": ["0 <= i", "i <= length", "k == W(mask, valid_when, i)", "nullsum == i - W(mask, valid_when, i)"]},
  store_asserts={"nextshifts": ["(mask[i] != 0) == valid_when", "at == W(mask, valid_when, i)", "value == shifts[i] + i - W(mask, valid_when, i)"]},
  serves=["C03", "C12", "C13"])


# ---- C03: helpers of the non-innermost reduction
# a copy of the offsets and the length of the longest list
K("awkward_ListOffsetArray_reduce_nonlocal_maxcount_offsetscopy_64",
  loops={"L0": ["0 <= i", "maxcount[0] >= 0", "forall(q, 0, i + 1, offsetscopy[q] == offsets[q])",
                "forall(q, 0, i, offsets[q + 1] - offsets[q] <= maxcount[0])",
                "maxcount[0] == 0 or exists(q, 0, i, offsets[q + 1] - offsets[q] == maxcount[0])"]},
  ensures_ok=["forall(q, 0, length + 1, offsetscopy[q] == offsets[q])",
              "forall(q, 0, length, offsets[q + 1] - offsets[q] <= maxcount[0])", "maxcount[0] >= 0",
              "maxcount[0] == 0 or exists(q, 0, length, offsets[q + 1] - offsets[q] == maxcount[0])"],
  serves=["C03", "C12", "C13"])

# the offsets of the reduced lists: entry k is the number of elements whose parent is below k (every k up to
# outlength, empty groups included)
K("awkward_ListOffsetArray_reduce_local_outoffsets_64",
  loops={"L0": ["0 <= i", "0 - 1 <= last", "k == last + 1", "forall(q, 0, i, parents[q] <= last)"],
         "L0.0": ["0 - 1 <= last", "k == last + 1", "forall(q, 0, i, parents[q] <= last)"],
         "L1": ["0 <= k", "forall(q, 0, lenparents, parents[q] < k)"]},
  store_asserts={"outoffsets@L0.0": ["at == k", "value == i", "k <= parents[i]", "forall(q, 0, i, parents[q] < k)"],
                 "outoffsets@L1": ["at == k", "value == lenparents", "forall(q, 0, lenparents, parents[q] < k)"]},
  serves=["C03", "C12", "C13"])

# ---- C08: the number of contents a union needs is one more than its largest tag
K("awkward_UnionArray_regular_index_getsize",
  loops={"L0": ["0 <= i", "size[0] >= 0", "forall(q, 0, i, fromtags[q] <= size[0])",
                "size[0] == 0 or exists(q, 0, i, fromtags[q] == size[0])"]},
  ensures_ok=["size[0] >= 1", "forall(q, 0, length, fromtags[q] < size[0])",
              "size[0] == 1 or exists(q, 0, length, fromtags[q] == size[0] - 1)"],
  serves=["C08", "C12", "C13"])

# ---- C01 / C02: positions of a strided n-dimensional array made contiguous
FILL("awkward_NumpyArray_contiguous_init", "toptr", "skip", "@*stride", serves=["C02"], nonneg=["skip"])
K("awkward_NumpyArray_contiguous_next",
  nonneg=["length", "skip"],      # (a stride may be negative: reversed views)
  store_asserts={"topos": ["at == i*skip + j", "value == frompos[i] + j*stride"]},
  serves=["C02", "C12", "C13"])


# ---- byte copies (memcpy is a built-in of the VC generator: both ranges inside their arrays, destination range = source bytes)
K("awkward_NumpyArray_copy",
  extents={"toptr": "len", "fromptr": "len"},
  ensures_ok=["forall(q, 0, len, toptr[q] == fromptr[q])"],
  serves=["C02", "C12", "C13"])

K("awkward_NumpyArray_contiguous_copy",
  extents={"toptr": "len * stride", "pos": "len"},
  nonneg=["len", "stride"],
  unchecked=["fromptr"],
  loops={"L0": ["0 <= i"]},
  notes="fromptr is data() of a view: positions are byte offsets relative to it and are negative for a negative stride; the extent of the underlying buffer on either side is not a parameter, so the source range is not under contract (the destination range is)",
  serves=["C02", "C12", "C13"])

K("awkward_NumpyArray_getitem_next_null",
  extents={"toptr": "len * stride", "pos": "len"},
  nonneg=["len", "stride"],
  unchecked=["fromptr"],
  loops={"L0": ["0 <= i"]},
  notes="as for contiguous_copy: the source buffer's extent around fromptr is not a parameter",
  serves=["C01", "C12", "C13"])


# ---- C03: gaps between successive distinct parents (the first one counted from -1): each gap is positive and
# measured from the largest parent seen so far
K("awkward_ListOffsetArray_reduce_nonlocal_findgaps_64",
  loops={"L0": ["0 <= i", "0 - 1 <= last", "forall(q, 0, i, parents[q] <= last)",
                "last == 0 - 1 or exists(q, 0, i, parents[q] == last)"]},
  store_asserts={"gaps": ["at == k", "value == parents[i] - last", "value > 0"]},
  serves=["C03", "C12", "C13"])


# ---- C01 (jagged index with missing rows): row i of the index is present or missing as index_in says; a present
# row keeps its own position as its mask entry, and the rows' ranges partition offsets_in in order: the n-th present
# row gets [offsets_in[n], offsets_in[n+1]), a missing row gets an empty range at the current position
_VN = {"P": ("q", "length", "ite(index_in[q] >= 0, 1, 0)", ["index_in"], "unit")}
K("awkward_Content_getitem_next_missing_jagged_getmaskstartstop",
  sums=_VN,
  extents={"offsets_in": "P(index_in, length) + 1"},
  loops={"L0": ["0 <= i", "i <= length", "k == P(index_in, i)"]},
  store_asserts={"mask_out": ["at == i", "value == ite(index_in[i] < 0, 0 - 1, i)"],
                 "starts_out": ["at == i", "value == offsets_in[P(index_in, i)]"],
                 "stops_out": ["at == i", "value == offsets_in[P(index_in, i) + ite(index_in[i] < 0, 0, 1)]"]},
  serves=["C01", "C12", "C13"])

# ---- C06 (argsort: missing values last, every position used once): the missing slots (-1) are numbered with fresh
# positions above the largest position present, in order; present slots keep their positions
_NM = {"NM": ("q", "length", "ite(old(toindex[q]) == 0 - 1, 1, 0)", ["toindex"], "unit")}
K("awkward_Index_nones_as_index",
  loops={"L0": ["0 <= i", "last_index >= 0", "forall(q, 0, i, toindex[q] <= last_index)",
                "last_index == 0 or exists(q, 0, i, toindex[q] == last_index)",
                "forall(q, 0, length, toindex[q] == old(toindex[q]))"],
         "L1": ["0 <= i", "i <= length", "last_index >= entry(last_index)",
                "forall(q, i, length, toindex[q] == old(toindex[q]))",
                "forall(q, 0, i, implies(old(toindex[q]) != 0 - 1, toindex[q] == old(toindex[q])))",
                "forall(q, 0, i, implies(old(toindex[q]) == 0 - 1, entry(last_index) < toindex[q] and toindex[q] <= last_index))"]},
  store_asserts={"toindex@L1": ["at == i", "old(toindex[at]) == 0 - 1", "value == last_index"]},
  ensures_ok=["forall(q, 0, length, implies(old(toindex[q]) != 0 - 1, toindex[q] == old(toindex[q])))",
              "forall(q, 0, length, implies(old(toindex[q]) == 0 - 1, toindex[q] > old(toindex[q]) and forall(r, 0, length, implies(old(toindex[r]) != 0 - 1, toindex[q] > old(toindex[r])))))"],
  serves=["C06", "C12", "C13"])
