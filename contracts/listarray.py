# ListArray / ListOffsetArray kernels whose unsigned (U32) specializations compute stops - starts in
# uint32_t: the specializations agree with the definition exactly on *valid* lists (start <= stop),
# which is the precondition the callers guarantee (validity rule of the node).
def LE(s, e, n):
    return "forall(q, 0, %s, %s[q] <= %s[q])" % (n, s, e)


def SORTED(a, n):
    return "forall(a_, 0, %s, forall(b_, a_, %s, %s[a_] <= %s[b_]))" % (n, n, a, a)


K("awkward_ListArray_num", per_spec={"U32": {"requires": [LE("fromstarts", "fromstops", "length")]}},
  loops={"L0": ["0 <= i", "forall(q, 0, i, tonum[q] == fromstops[q] - fromstarts[q])"]},
  ensures_ok=["forall(q, 0, length, tonum[q] == fromstops[q] - fromstarts[q])"],
  requires=[LE("fromstarts", "fromstops", "length")],
  serves=["C05", "C02", "C12", "C13"])

K("awkward_ListArray_getitem_next_at",
  store_asserts={"tocarry": ["fromstarts[i] <= value and value < fromstops[i]"]},
  per_spec={"U32": {"requires": [LE("fromstarts", "fromstops", "lenstarts")]}},
  serves=["C01", "C12", "C13"])

K("awkward_ListArray_min_range",
  requires=["lenstarts >= 1"],
  extents={"fromstarts": "lenstarts", "fromstops": "lenstarts"},
  per_spec={"U32": {"requires": [LE("fromstarts", "fromstops", "lenstarts")]}},
  notes="reads element 0: lenstarts >= 1 is a precondition (checked at the call site by Engine G)",
  serves=["C09", "C12", "C13"])

K("awkward_ListArray_rpad_and_clip_length_axis1",
  per_spec={"U32": {"requires": [LE("fromstarts", "fromstops", "lenstarts")]}},
  serves=["C09", "C12", "C13"])

K("awkward_ListArray_getitem_jagged_descend",
  per_spec={"U32": {"requires": [LE("fromstarts", "fromstops", "sliceouterlen")]}},
  serves=["C01", "C12", "C13"])

K("awkward_ListOffsetArray_rpad_axis1",
  store_asserts={"toindex": ["value == -1 or (fromoffsets[i] <= value and value < fromoffsets[i + 1])"]},
  sums={"S": ("q", "fromlength", "max(fromoffsets[q + 1] - fromoffsets[q], target)")},
  extents={"toindex": "S(fromlength)"},
  requires=[SORTED("fromoffsets", "fromlength + 1")],
  loops={"L0": ["0 <= i", "count == S(i)"],
         "L0.0": ["0 <= j", "count == S(i) + j", "j <= max(fromoffsets[i + 1] - fromoffsets[i], 0)"],
         "L0.1": ["count == S(i) + j", "fromoffsets[i + 1] - fromoffsets[i] <= j", "j <= max(fromoffsets[i + 1] - fromoffsets[i], target)"]},
  notes="toindex is allocated from awkward_ListOffsetArray_rpad_length_axis1 = sum of max(len, target)",
  serves=["C09", "C12", "C13"])

K("awkward_ListArray_rpad_axis1",
  store_asserts={"toindex": ["value == -1 or (fromstarts[i] <= value and value < fromstops[i])"]},
  requires=[LE("fromstarts", "fromstops", "length")],
  per_spec={"ListArray64": {
      "sums": {"S": ("q", "length", "max(fromstops[q] - fromstarts[q], target)")},
      "extents": {"toindex": "S(length)"},
      "loops": {"L0": ["0 <= i", "offset == S(i)"],
                "L0.0": ["0 <= j", "offset == S(i)"],
                "L0.1": ["fromstops[i] - fromstarts[i] <= j", "offset == S(i)"]}}},
  notes="toindex is allocated from rpad_and_clip_length_axis1 = sum of max(len, target); the 32-bit specializations store the running offset in a 32-bit slot and are covered by S.lower and E only",
  serves=["C09", "C12", "C13"])

K("awkward_ListOffsetArray_reduce_nonlocal_outstartsstops_64",
  requires=["lendistincts >= outlength", "implies(outlength == 0, lendistincts == 0)",
            "forall(q, 0, lendistincts, gaps[q] >= 1)", "forall(q, 0, lendistincts, distincts[q] >= -1)"],
  loops={"L0": ["0 <= i", "0 <= j", "0 <= k", "maxdistinct >= -1", "implies(maxdistinct >= 0, k >= 1)"]},
  notes="divides by lendistincts/outlength inside the loop: needs lendistincts >= outlength (so the quotient is >= 1 whenever the loop runs)",
  serves=["C03", "C12", "C13"])
