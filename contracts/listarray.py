# ListArray / ListOffsetArray kernels whose unsigned (U32) specializations compute stops - starts in
# uint32_t: the specializations agree with the definition exactly on *valid* lists (start <= stop),
# which is the precondition the callers guarantee (validity rule of the node).
def LE(s, e, n):
    return "forall(q, 0, %s, %s[q] <= %s[q])" % (n, s, e)


def SORTED(a, n):
    return "forall(a_, 0, %s, forall(b_, a_, %s, %s[a_] <= %s[b_]))" % (n, n, a, a)


K("awkward_ListArray_num", per_spec={"U32": {"requires": [LE("fromstarts", "fromstops", "length")]}},
  loops={"L0": ["0 <= i", "forall(q, 0, i, tonum[q] == fromstops[q] - fromstarts[q])"]},
  ensures_ok=["forall(q, 0, length, tonum[q] == fromstops[q] - fromstarts[q])"],
  requires=[LE("fromstarts", "fromstops", "length")],
  serves=["C05", "C02", "C12", "C13"])

K("awkward_ListArray_getitem_next_at",
  store_asserts={"tocarry": ["fromstarts[i] <= value and value < fromstops[i]"]},
  per_spec={"U32": {"requires": [LE("fromstarts", "fromstops", "lenstarts")]}},
  serves=["C01", "C12", "C13"])

K("awkward_ListArray_min_range",
  requires=["lenstarts >= 1"],
  extents={"fromstarts": "lenstarts", "fromstops": "lenstarts"},
  # C09 (pad_none without clip decides from the shortest list whether anything has to be padded): the result is a
  # lower bound of every list's length and is the length of one of the lists -- every list, the last included
  loops={"L0": ["1 <= i", "i <= lenstarts", "forall(q, 0, i, shorter <= fromstops[q] - fromstarts[q])",
                "exists(q, 0, i, shorter == fromstops[q] - fromstarts[q])"]},
  ensures_ok=["forall(q, 0, lenstarts, tomin[0] <= fromstops[q] - fromstarts[q])",
              "exists(q, 0, lenstarts, tomin[0] == fromstops[q] - fromstarts[q])"],
  per_spec={"U32": {"requires": [LE("fromstarts", "fromstops", "lenstarts")]}},
  notes="reads element 0: lenstarts >= 1 is a precondition (checked at the call site by Engine G)",
  serves=["C09", "C12", "C13"])

K("awkward_ListArray_rpad_and_clip_length_axis1",
  # C09 (pad_none gives every list length max(len, target)): the padded content has the sum of those lengths
  sums={"PL": ("q", "lenstarts", "max(target, fromstops[q] - fromstarts[q])", ["fromstarts", "fromstops", "target"])},
  loops={"L0": ["0 <= i", "i <= lenstarts", "length == PL(fromstarts, fromstops, target, i)"]},
  ensures_ok=["tomin[0] == PL(fromstarts, fromstops, target, lenstarts)"],
  per_spec={"U32": {"requires": [LE("fromstarts", "fromstops", "lenstarts")]}},
  serves=["C09", "C12", "C13"])

K("awkward_ListArray_getitem_jagged_descend",
  # C01 (a jagged index selects list by list): the offsets of the next level give every list its own length, whatever
  # order or position the lists have in the content; a slice row of another length than its list is an error
  loops={"L0": ["0 <= i", "tooffsets[0] == ite(sliceouterlen == 0, 0, slicestarts[0])",
                "forall(q, 0, i, tooffsets[q + 1] - tooffsets[q] == fromstops[q] - fromstarts[q])",
                "forall(q, 0, i, slicestops[q] - slicestarts[q] == fromstops[q] - fromstarts[q])"]},
  ensures_ok=["tooffsets[0] == ite(sliceouterlen == 0, 0, slicestarts[0])",
              "forall(q, 0, sliceouterlen, tooffsets[q + 1] - tooffsets[q] == fromstops[q] - fromstarts[q])",
              "forall(q, 0, sliceouterlen, slicestops[q] - slicestarts[q] == fromstops[q] - fromstarts[q])"],
  ensures_fail=["0 <= err_identity and err_identity < sliceouterlen",
                "slicestops[err_identity] - slicestarts[err_identity] != fromstops[err_identity] - fromstarts[err_identity]"],
  per_spec={"U32": {"requires": [LE("fromstarts", "fromstops", "sliceouterlen")]}},
  serves=["C01", "C12", "C13"])

K("awkward_ListOffsetArray_rpad_axis1",
  store_asserts={"toindex": ["value == -1 or (fromoffsets[i] <= value and value < fromoffsets[i + 1])"]},
  sums={"S": ("q", "fromlength", "max(fromoffsets[q + 1] - fromoffsets[q], target)")},
  extents={"toindex": "S(fromlength)"},
  requires=[SORTED("fromoffsets", "fromlength + 1")],
  loops={"L0": ["0 <= i", "count == S(i)"],
         "L0.0": ["0 <= j", "count == S(i) + j", "j <= max(fromoffsets[i + 1] - fromoffsets[i], 0)"],
         "L0.1": ["count == S(i) + j", "fromoffsets[i + 1] - fromoffsets[i] <= j", "j <= max(fromoffsets[i + 1] - fromoffsets[i], target)"]},
  notes="toindex is allocated from awkward_ListOffsetArray_rpad_length_axis1 = sum of max(len, target)",
  serves=["C09", "C12", "C13"])

K("awkward_ListArray_rpad_axis1",
  store_asserts={"toindex": ["value == -1 or (fromstarts[i] <= value and value < fromstops[i])"]},
  requires=[LE("fromstarts", "fromstops", "length")],
  per_spec={"ListArray64": {
      "sums": {"S": ("q", "length", "max(fromstops[q] - fromstarts[q], target)")},
      "extents": {"toindex": "S(length)"},
      "loops": {"L0": ["0 <= i", "offset == S(i)"],
                "L0.0": ["0 <= j", "offset == S(i)"],
                "L0.1": ["fromstops[i] - fromstarts[i] <= j", "offset == S(i)"]}}},
  notes="toindex is allocated from rpad_and_clip_length_axis1 = sum of max(len, target); the 32-bit specializations store the running offset in a 32-bit slot and are covered by S.lower and E only",
  serves=["C09", "C12", "C13"])

K("awkward_ListOffsetArray_reduce_nonlocal_outstartsstops_64",
  ghost={"MC": ("", "ite(outlength == 0, 0, cdiv(lendistincts, outlength))")},
  extents={"outstarts": "outlength", "outstops": "outlength", "distincts": "lendistincts", "gaps": "0"},
  requires=["lendistincts >= 0", "outlength >= 0"],
  loops={"L0": ["0 <= k", "0 <= i", "i == k * maxcount", "maxcount == MC()", "maxcount * outlength <= lendistincts", "maxcount >= 0",
                "forall(q, 0, k, outstarts[q] == q * maxcount)",
                "forall(q, 0, k, q * maxcount <= outstops[q] and outstops[q] <= (q + 1) * maxcount)"],
         "L0.0": ["0 <= j", "j <= maxcount", "i == k * maxcount + j", "(k + 1) * maxcount <= lendistincts",
                  "outstarts[k] == k * maxcount", "k * maxcount <= outstops[k]", "outstops[k] <= i",
                  "forall(q, 0, k, outstarts[q] == q * maxcount)",
                  "forall(q, 0, k, q * maxcount <= outstops[q] and outstops[q] <= (q + 1) * maxcount)"]},
  ensures_ok=["forall(q, 0, outlength, outstarts[q] == q * MC())",
              "forall(q, 0, outlength, outstarts[q] <= outstops[q] and outstops[q] <= (q + 1) * MC())"],
  store_asserts={"outstarts": ["index == k", "value == i"], "outstops": ["index == k", "value == i or value == i + 1"]},
  notes="output list k is the k-th segment of maxcount = lendistincts / outlength slots of distincts, cut after its last slot in use; "
        "every write is to slot k < outlength (the 1.4.0 kernel advanced k by a gap count and wrote past outlength: fixed)",
  serves=["C03", "C12", "C13"])
