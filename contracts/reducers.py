# Leaf reducers (src/cpu-kernels/awkward_reduce_*.cpp).  Serves C03 (and C12/C13 through S/E).
#
# Precondition shared by all of them (the caller's `parents` come from
# reduce_next: every element belongs to an output group).
PARENTS = "forall(j, 0, lenparents, 0 <= parents[j] < outlength)"

# ---- count / countnonzero / sum / prod / min / max and their bool variants: one init loop, one fold loop
# Functional contract from the property statement (C03): the result of group p is the fold, in element
# order, over exactly the elements whose parent is p; an empty group yields the identity.  G(p, n) is the
# ghost fold of the first n elements restricted to group p (defining axioms below).
def FOLD(term):
    return ["forall(p, 0, outlength, G(p, 0) == 0)",
            "forall(p, 0, outlength, forall(n, 0, lenparents, G(p, n + 1) == G(p, n) + ite(parents[n] == p, %s, 0)))" % term]


FOLD_LOOPS = {"L0": ["0 <= i", "forall(p, 0, i, toptr[p] == 0)"],
              "L1": ["0 <= i", "i <= lenparents", "forall(p, 0, outlength, toptr[p] == G(p, i))"]}
FOLD_POST = ["forall(p, 0, outlength, toptr[p] == G(p, lenparents))"]

K("awkward_reduce_count_64",
  extents={"toptr": "outlength", "parents": "lenparents"},
  requires=[PARENTS], ghost={"G": (["p", "n"], None)}, axioms=FOLD("1"),
  loops=FOLD_LOOPS, ensures_ok=FOLD_POST,
  serves=["C03", "C12", "C13"])

# The fold STEP of sum and prod, stated from the property (C03: "the fold, in element order, over exactly the elements
# of the group; an empty group yields the identity"): the init loop stores the identity, and every store of the fold
# loop goes to the element's own group and writes exactly  old value (+|*) element  -- for the signed-integer and the
# floating-point instantiations (floating-point + and * are the uninterpreted operators of the encoding, so a step that
# skips or reorders an operation, e.g. `if (acc != 0) acc *= x`, is not this step: 0 * inf is not 0).  The unsigned
# instantiations wrap modulo 2^w and stay pinned to the definition by E.
def STEP(op, ident):
    return {"toptr@L0": ["at == i", "value == %s" % ident],
            "toptr@L1": ["at == parents[i]", "value == toptr[parents[i]] %s fromptr[i]" % op]}


SIGNED_OR_FLOAT = ["_int32_int", "_int64_int", "_float32_float32", "_float64_float64"]


# ... and the whole fold for the floating-point instantiations (a store assertion cannot see a store that is skipped):
# flt_G(p, n) is the fold of the first n elements restricted to group p, a floating-point valued ghost
def FLTFOLD(op, ident):
    return {"ghost": {"flt_G": (["p", "n"], None)},
            "axioms": ["forall(p, 0, outlength, flt_G(p, 0) == %s)" % ident,
                       "forall(p, 0, outlength, forall(n, 0, lenparents, flt_G(p, n + 1) == ite(parents[n] == p, flt_G(p, n) %s fromptr[n], flt_G(p, n))))" % op],
            "loops": {"L0": ["0 <= i", "forall(p, 0, i, toptr[p] == %s)" % ident],
                      "L1": ["0 <= i", "i <= lenparents", "forall(p, 0, outlength, toptr[p] == flt_G(p, i))"]},
            "ensures_ok": ["forall(p, 0, outlength, toptr[p] == flt_G(p, lenparents))"],
            "store_asserts": STEP(op, ident)}

K("awkward_reduce_sum",
  extents={"toptr": "outlength", "fromptr": "lenparents", "parents": "lenparents"},
  requires=[PARENTS],
  # the 64-bit signed integer sums (mathematical integers): sum of the group's elements
  per_spec=dict([("reduce_sum_int64_int", {"ghost": {"G": (["p", "n"], None)}, "axioms": FOLD("fromptr[n]"),
                                           "loops": FOLD_LOOPS, "ensures_ok": FOLD_POST})]
                + [("reduce_sum_int32_int", {"store_asserts": STEP("+", "0")})]
                + [("reduce_sum" + t, FLTFOLD("+", "0")) for t in ("_float32_float32", "_float64_float64")]),
  serves=["C03", "C12", "C13"])

K("awkward_reduce_countnonzero",
  extents={"toptr": "outlength", "fromptr": "lenparents", "parents": "lenparents"},
  requires=[PARENTS],
  per_spec={"countnonzero_int": {"ghost": {"G": (["p", "n"], None)}, "axioms": FOLD("ite(fromptr[n] != 0, 1, 0)"),
                                 "loops": FOLD_LOOPS, "ensures_ok": FOLD_POST},
            "countnonzero_uint": {"ghost": {"G": (["p", "n"], None)}, "axioms": FOLD("ite(fromptr[n] != 0, 1, 0)"),
                                  "loops": FOLD_LOOPS, "ensures_ok": FOLD_POST}},
  serves=["C03", "C12", "C13"])

K("awkward_reduce_prod",
  extents={"toptr": "outlength", "fromptr": "lenparents", "parents": "lenparents"},
  requires=[PARENTS],
  per_spec=dict([("reduce_prod" + t, {"store_asserts": STEP("*", "1")}) for t in ("_int32_int", "_int64_int")]
                + [("reduce_prod" + t, FLTFOLD("*", "1")) for t in ("_float32_float32", "_float64_float64")]),
  serves=["C03", "C12", "C13"])

# product of booleans counted as integers (C03): 1 exactly when no element of the group is False
for name in ["awkward_reduce_prod_int32_bool_64", "awkward_reduce_prod_int64_bool_64"]:
    K(name,
      extents={"toptr": "outlength", "fromptr": "lenparents", "parents": "lenparents"},
      requires=[PARENTS],
      loops={"L0": ["0 <= i", "forall(p, 0, i, toptr[p] == 1)"],
             "L1": ["0 <= i", "i <= lenparents", "forall(p, 0, outlength, toptr[p] == 0 or toptr[p] == 1)",
                    "forall(q, 0, i, implies(fromptr[q] == 0, toptr[parents[q]] == 0))",
                    "forall(p, 0, outlength, implies(toptr[p] == 0, exists(q, 0, i, parents[q] == p and fromptr[q] == 0)))"]},
      ensures_ok=["forall(p, 0, outlength, toptr[p] == 0 or toptr[p] == 1)",
                  "forall(q, 0, lenparents, implies(fromptr[q] == 0, toptr[parents[q]] == 0))",
                  "forall(p, 0, outlength, implies(toptr[p] == 0, exists(q, 0, lenparents, parents[q] == p and fromptr[q] == 0)))"],
      auto_inv=False,
      serves=["C03", "C12", "C13"])

# ---- min / max over integers (C03): the result of group p bounds every element of the group and the initial value,
# and is one of them (the initial value alone for an empty group)
def EXTREME(le, n):
    return ["forall(q, 0, %s, fromptr[q] %s toptr[parents[q]])" % (n, le),
            "forall(p, 0, outlength, identity %s toptr[p])" % le,
            "forall(p, 0, outlength, toptr[p] == identity or exists(q, 0, %s, parents[q] == p and fromptr[q] == toptr[p]))" % n]


for name, le in [("awkward_reduce_max", "<="), ("awkward_reduce_min", ">=")]:
    spec_ = {"loops": {"L0": ["0 <= i", "forall(p, 0, i, toptr[p] == identity)"],
                       "L1": ["0 <= i", "i <= lenparents"] + EXTREME(le, "i")},
             "ensures_ok": EXTREME(le, "lenparents")}
    K(name,
      extents={"toptr": "outlength", "fromptr": "lenparents", "parents": "lenparents"},
      requires=[PARENTS],
      loops={"L0": ["0 <= i"], "L1": ["0 <= i"]}, auto_inv=False,
      per_spec={"_int": spec_, "_uint": spec_},
      serves=["C03", "C12", "C13"])

# ---- any / all (C03): any of group p is True exactly when some element of the group is non-zero; all of group p is
# False exactly when some element of the group is zero
def BOOLFOLD(hit, n):
    return ["forall(q, 0, %s, implies(fromptr[q] %s 0, toptr[parents[q]] == HITV))" % (n, hit),
            "forall(p, 0, outlength, toptr[p] == HITV or toptr[p] == INITV)",
            "forall(p, 0, outlength, implies(toptr[p] == HITV, exists(q, 0, %s, parents[q] == p and fromptr[q] %s 0)))" % (n, hit)]


for name, hit, hitv, initv in [("awkward_reduce_sum_bool", "!=", "1", "0"), ("awkward_reduce_prod_bool", "==", "0", "1")]:
    def _s(x):
        return [t.replace("HITV", hitv).replace("INITV", initv) for t in x]
    spec_ = {"loops": {"L0": ["0 <= i", "forall(p, 0, i, toptr[p] == %s)" % initv],
                       "L1": ["0 <= i", "i <= lenparents"] + _s(BOOLFOLD(hit, "i"))},
             "ensures_ok": _s(BOOLFOLD(hit, "lenparents"))}
    K(name,
      extents={"toptr": "outlength", "fromptr": "lenparents", "parents": "lenparents"},
      requires=[PARENTS],
      loops={"L0": ["0 <= i"], "L1": ["0 <= i"]}, auto_inv=False,
      per_spec={"_int": spec_, "_uint": spec_, "_bool_bool": spec_},
      serves=["C03", "C12", "C13"])

# complex sum: real and imaginary parts are summed separately, each into its own slot of the element's group
K("awkward_reduce_sum_complex",
  extents={"toptr": "outlength * 2", "fromptr": "lenparents * 2", "parents": "lenparents"},
  requires=[PARENTS],
  store_asserts={"toptr@L0": ["at == i * 2 or at == i * 2 + 1", "value == 0"],
                 "toptr@L1": ["at == parents[i] * 2 or at == parents[i] * 2 + 1",
                              "value == toptr[at] + fromptr[i * 2 + (at - parents[i] * 2)]"]},
  serves=["C03", "C12", "C13"])

for name in ["awkward_reduce_countnonzero_complex", "awkward_reduce_prod_complex",
             "awkward_reduce_sum_bool_complex", "awkward_reduce_prod_bool_complex",
             "awkward_reduce_min_complex", "awkward_reduce_max_complex"]:
    two = name in ("awkward_reduce_prod_complex", "awkward_reduce_min_complex", "awkward_reduce_max_complex")
    K(name,
      extents={"toptr": "outlength * 2" if two else "outlength", "fromptr": "lenparents * 2", "parents": "lenparents"},
      requires=[PARENTS],
      serves=["C03", "C12", "C13"])

# ---- argmin / argmax: toptr[p] is -1 or the position of an element of group p seen so far
ARG_INV0 = "forall(p, 0, k, toptr[p] == -1)"
ARG_INV1 = "forall(p, 0, outlength, toptr[p] == -1 or (0 <= toptr[p] < i and parents[toptr[p]] == p))"
def ARG_FIRST(cmp, n):
    # the recorded position is the FIRST element of the group attaining the extremum; an empty group keeps -1
    return ["forall(p, 0, outlength, implies(toptr[p] != -1, forall(q, 0, %s, implies(parents[q] == p, fromptr[q] %s fromptr[toptr[p]] and implies(fromptr[q] == fromptr[toptr[p]], toptr[p] <= q)))))" % (n, cmp),
            "forall(p, 0, outlength, implies(toptr[p] == -1, forall(q, 0, %s, parents[q] != p)))" % n]


for name, cmp in [("awkward_reduce_argmax", "<="), ("awkward_reduce_argmin", ">=")]:
    K(name,
      extents={"toptr": "outlength", "fromptr": "lenparents", "parents": "lenparents"},
      requires=[PARENTS],
      loops={"L0": ["0 <= k", ARG_INV0], "L1": ["0 <= i", ARG_INV1]},
      ensures_ok=["forall(p, 0, outlength, toptr[p] == -1 or (0 <= toptr[p] < lenparents and parents[toptr[p]] == p))"],
      per_spec={"_int": {"loops": {"L0": ["0 <= k", ARG_INV0], "L1": ["0 <= i", ARG_INV1] + ARG_FIRST(cmp, "i")},
                         "ensures_ok": ARG_FIRST(cmp, "lenparents")},
                "_uint": {"loops": {"L0": ["0 <= k", ARG_INV0], "L1": ["0 <= i", ARG_INV1] + ARG_FIRST(cmp, "i")},
                          "ensures_ok": ARG_FIRST(cmp, "lenparents")}},
      serves=["C03", "C12", "C13"])
for name in ["awkward_reduce_argmax_bool_64", "awkward_reduce_argmin_bool_64"]:
    K(name,
      extents={"toptr": "outlength", "fromptr": "lenparents", "parents": "lenparents"},
      requires=[PARENTS],
      loops={"L0": ["0 <= k", ARG_INV0], "L1": ["0 <= i", ARG_INV1]},
      ensures_ok=["forall(p, 0, outlength, toptr[p] == -1 or (0 <= toptr[p] < lenparents and parents[toptr[p]] == p))"],
      serves=["C03", "C12", "C13"])
for name in ["awkward_reduce_argmax_complex", "awkward_reduce_argmin_complex"]:
    _cmp = ">" if "argmax" in name else "<"
    K(name,
      extents={"toptr": "outlength", "fromptr": "lenparents * 2", "parents": "lenparents"},
      requires=[PARENTS],
      loops={"L0": ["0 <= k", ARG_INV0], "L1": ["0 <= i", ARG_INV1]},
      # C03 (position of the FIRST extremal element): the recorded position is replaced only by an element that is
      # strictly beyond it in the lexicographic (real, imaginary) order -- never on a tie
      store_asserts={"toptr@L1": ["value == i", "at == parents[i]",
                                  "toptr[at] == -1 or fromptr[i * 2] %s fromptr[toptr[at] * 2] or "
                                  "(feq(fromptr[i * 2], fromptr[toptr[at] * 2]) and fromptr[i * 2 + 1] %s fromptr[toptr[at] * 2 + 1])" % (_cmp, _cmp)]},
      ensures_ok=["forall(p, 0, outlength, toptr[p] == -1 or (0 <= toptr[p] < lenparents and parents[toptr[p]] == p))"],
      serves=["C03", "C12", "C13"])
