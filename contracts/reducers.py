# Leaf reducers (src/cpu-kernels/awkward_reduce_*.cpp).  Serves C03 (and C12/C13 through S/E).
#
# Precondition shared by all of them (the caller's `parents` come from
# reduce_next: every element belongs to an output group).
PARENTS = "forall(j, 0, lenparents, 0 <= parents[j] < outlength)"

# ---- count / countnonzero / sum / prod / min / max and their bool variants: one init loop, one fold loop
for name in ["awkward_reduce_count_64", "awkward_reduce_countnonzero", "awkward_reduce_sum", "awkward_reduce_prod",
             "awkward_reduce_sum_bool", "awkward_reduce_prod_bool", "awkward_reduce_min", "awkward_reduce_max",
             "awkward_reduce_sum_int32_bool_64", "awkward_reduce_sum_int64_bool_64",
             "awkward_reduce_prod_int32_bool_64", "awkward_reduce_prod_int64_bool_64"]:
    K(name,
      extents={"toptr": "outlength", "fromptr": "lenparents", "parents": "lenparents"},
      requires=[PARENTS],
      serves=["C03", "C12", "C13"])

for name in ["awkward_reduce_countnonzero_complex", "awkward_reduce_sum_complex", "awkward_reduce_prod_complex",
             "awkward_reduce_sum_bool_complex", "awkward_reduce_prod_bool_complex",
             "awkward_reduce_min_complex", "awkward_reduce_max_complex"]:
    two = name in ("awkward_reduce_sum_complex", "awkward_reduce_prod_complex", "awkward_reduce_min_complex", "awkward_reduce_max_complex")
    K(name,
      extents={"toptr": "outlength * 2" if two else "outlength", "fromptr": "lenparents * 2", "parents": "lenparents"},
      requires=[PARENTS],
      serves=["C03", "C12", "C13"])

# ---- argmin / argmax: toptr[p] is -1 or the position of an element of group p seen so far
ARG_INV0 = "forall(p, 0, k, toptr[p] == -1)"
ARG_INV1 = "forall(p, 0, outlength, toptr[p] == -1 or (0 <= toptr[p] < i and parents[toptr[p]] == p))"
for name in ["awkward_reduce_argmax", "awkward_reduce_argmin", "awkward_reduce_argmax_bool_64", "awkward_reduce_argmin_bool_64"]:
    K(name,
      extents={"toptr": "outlength", "fromptr": "lenparents", "parents": "lenparents"},
      requires=[PARENTS],
      loops={"L0": ["0 <= k", ARG_INV0], "L1": ["0 <= i", ARG_INV1]},
      ensures_ok=["forall(p, 0, outlength, toptr[p] == -1 or (0 <= toptr[p] < lenparents and parents[toptr[p]] == p))",
                  # an empty group keeps -1, a non-empty one does not
                  ],
      serves=["C03", "C12", "C13"])
for name in ["awkward_reduce_argmax_complex", "awkward_reduce_argmin_complex"]:
    K(name,
      extents={"toptr": "outlength", "fromptr": "lenparents * 2", "parents": "lenparents"},
      requires=[PARENTS],
      loops={"L0": ["0 <= k", ARG_INV0], "L1": ["0 <= i", ARG_INV1]},
      ensures_ok=["forall(p, 0, outlength, toptr[p] == -1 or (0 <= toptr[p] < lenparents and parents[toptr[p]] == p))"],
      serves=["C03", "C12", "C13"])
