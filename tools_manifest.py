#!/usr/bin/env python3
"""regenerates MANIFEST.json from the table below (kept in one place so it stays valid)"""
import json, os
HERE = os.path.dirname(os.path.abspath(__file__))
BASELINE = "cd /repo && /venv/bin/python -m pytest -ra -q -p no:cacheprovider --timeout=900 --continue-on-collection-errors"

CLAIMED = {
 "C06": {
  "text": "Proved (complete, loop-free, bit-precise in z3's FP/BV theories): every instantiation of the comparators sort_order_{ascending,descending}<T> and argsort_order_*<T> of awkward_sort.cpp / awkward_argsort.cpp is a strict weak order (the precondition std::sort needs), equals the integer order for integer T, and puts NaN first in both directions for float/double. Proved by the kernel engine: sorting_ranges(_length), rearrange_shifted, local_preparenext, unique, subrange_equal, unique_strings are memory-safe under their contracts and equal to their definitions where one exists. BOUNDED only (not proved): the sorting cores awkward_sort/argsort/quick_sort and the string sorts are run on every small input of a stated domain against an oracle (sorted permutation per segment, NaN first, stability, local positions).",
  "ref": "DESIGN.md section 5 (C06)",
  "note": "Trusted: std::sort/std::stable_sort contracts; the bounded stand-ins are exploration, not proof; re-insertion of missing values in option nodes is glue.",
  "technique": "contract-based deductive verification (comparators: complete SMT proofs; helper kernels: VC generator) plus bounded exhaustive stand-ins of the compiled sorting kernels"},
 "C07": {
  "text": "Proved by the kernel engine: awkward_ListArray_combinations_length (all widths) is memory-safe under its contract. BOUNDED only (not proved): combinations_length against math.comb and the fill kernels awkward_ListArray*_combinations_64 / awkward_RegularArray_combinations_64 against itertools.combinations(_with_replacement) -- exact tuples, order and per-list counts -- for every size vector of up to 3 lists (sizes 0..4 quick, 0..6 thorough), n in 1..4, with/without replacement, contiguous/gapped/reversed starts and all index widths. ak.cartesian (Python) is NOT covered.",
  "ref": "DESIGN.md section 5 (C07)",
  "note": "The enumeration kernels use a recursive helper over T** and are outside the translator; the closed-form count is not proved in this round. Bounded stand-ins are exploration, not proof.",
  "technique": "contract-based deductive verification of the length kernel's safety plus bounded exhaustive stand-ins of the compiled combinations kernels against itertools"},
 "C18": {
  "text": "Under deductive contract: the partition arithmetic only -- IrregularlyPartitionedArray::partitionid_index_at maps every global position to the first partition containing it and the right local index (sentinels for negative / past-the-end positions), start/stop, PartitionedArray::getitem_at wraps and bounds-checks exactly like Python, and the range regularisation it shares with slicing (awkward_regularize_rangeslice == CPython slice adjustment). VirtualArray caches/generators, getitem_range across partitions and repartition are covered by the bounded Engine N families only; partition.py and the Python-side generators/caches are NOT covered.",
  "ref": "DESIGN.md section 5 (C18)",
  "note": "Trusted: stops_ non-decreasing and non-negative with one entry per partition (class invariant, assumed); callee contracts of length()/getitem_at_nowrap assumed.",
  "technique": "contract-based deductive verification of the extracted partition methods (VC generator over the clang AST, z3/cvc5)"},
 "C14": {
  "text": "Under deductive contract: the buffer layer of the builders only -- GrowableBuffer<int64_t>::append/set_length/set_reserved/clear/getitem_at_nowrap extracted from the clang AST and proved for all states: 0 <= length <= reserved always, append stores the datum at the old length inside the (possibly reallocated) buffer and leaves every earlier element unchanged whether or not it reallocates (the snapshot-immutability clause at the only place data can move), for every ArrayBuilderOptions (initial, resize) value. Also under contract, one level up: every value-taking method of OptionBuilder and ListBuilder (16 each), executed over the nested builder's interface (length/active, assumed: a call completes 0 or 1 element, only end_* completes one while active): OptionBuilder appends to index_ exactly as many entries as its content's length grew by, each equal to the content's previous length (null on an inactive content: one -1); ListBuilder appends to offsets_ only when end_list closes a list opened at its own level, the entry being the content's length, and resets begun_. The rest of the builder tree (type promotion, union/record/tuple unification) is covered by the bounded Engine N families only; from_iter's Python side and LayoutBuilder are NOT covered.",
  "ref": "DESIGN.md section 5 (C14)",
  "note": "Trusted: set_reserved's memcpy/malloc (its contract is assumed at call sites), float growth factor abstract; builder tree rewriting not covered.",
  "technique": "contract-based deductive verification of the extracted GrowableBuffer, OptionBuilder and ListBuilder methods (VC generator over the clang AST, z3/cvc5)"},
 "C01": {
  "text": "Kernel- and helper-level lemmas of slicing, proved for all inputs: awkward_regularize_rangeslice equals CPython's slice adjustment (PySlice_AdjustIndices) for both step signs and absent bounds; every getitem/carry/jagged/missing kernel is proved equal to its Python definition (lockstep) and memory-safe under its contract, with functional contracts on the carry kernels (output position = start + wrapped index; error iff out of range). The recursion through Content::getitem_next and toslice() is not covered.",
  "ref": 'DESIGN.md section 5 (C01)',
  "note": 'Trusted: clang AST, z3/cvc5, encoding assumptions listed in the evidence; preconditions written in contracts/*.py; the C++ class methods and Python functions that compose these kernels are glue outside the contracts (a change there is invisible to this check). Bounded stand-ins are never counted as proved.',
  "technique": 'contract-based deductive verification of the real kernel code (VC generator over the clang AST, sidecar contracts, lockstep equivalence with the YAML definitions; z3/cvc5; replay on the compiled kernels)'},
 "C02": {
  "text": 'Normalisation kernels (compact offsets, broadcast_tooffsets, nextcarry/project, simplify, mask conversions, Index widening, contiguous, index carry, num) are proved equal to their definitions in every index-width specialization (32/U32/64 share one algorithm: same lockstep proof per instantiation, unsigned ones under start<=stop), with functional contracts where stated (compact offsets = offsets - offsets[0]; num = stop - start). That every operation first normalises is glue.',
  "ref": 'DESIGN.md section 5 (C02)',
  "note": 'Trusted: clang AST, z3/cvc5, encoding assumptions listed in the evidence; preconditions written in contracts/*.py; the C++ class methods and Python functions that compose these kernels are glue outside the contracts (a change there is invisible to this check). Bounded stand-ins are never counted as proved.',
  "technique": 'contract-based deductive verification of the real kernel code (VC generator over the clang AST, sidecar contracts, lockstep equivalence with the YAML definitions; z3/cvc5; replay on the compiled kernels)'},
 "C03": {
  "text": "Leaf reducers and the reduce_next helper kernels: memory-safe for parents in [0,outlength), equal to their definitions (lockstep) in all 100+ specializations; arg-reducers keep 'toptr[p] is -1 or a position of group p' as a proved invariant; local nextparents has a full functional contract; awkward_ListOffsetArray_reduce_nonlocal_outstartsstops_64 (rewritten by a fix: commit) has a full functional contract (output list k is segment k of lendistincts/outlength slots cut after its last slot in use; every write inside outlength); preparenext is covered by safety only.",
  "ref": 'DESIGN.md section 5 (C03)',
  "note": 'Trusted: clang AST, z3/cvc5, encoding assumptions listed in the evidence; preconditions written in contracts/*.py; the C++ class methods and Python functions that compose these kernels are glue outside the contracts (a change there is invisible to this check). Bounded stand-ins are never counted as proved.',
  "technique": 'contract-based deductive verification of the real kernel code (VC generator over the clang AST, sidecar contracts, lockstep equivalence with the YAML definitions; z3/cvc5; replay on the compiled kernels)'},
 "C04": {
  "text": 'Only the list-alignment kernels behind broadcasting (broadcast_tooffsets for ListArray/RegularArray, size-1 repetition, compact offsets) are under contract: equal to their definitions, memory-safe. broadcast_and_apply in _util.py, the n-ary case analysis the property is mostly about, cannot be executed or encoded here and is NOT covered.',
  "ref": 'DESIGN.md section 5 (C04)',
  "note": 'Trusted: clang AST, z3/cvc5, encoding assumptions listed in the evidence; preconditions written in contracts/*.py; the C++ class methods and Python functions that compose these kernels are glue outside the contracts (a change there is invisible to this check). Bounded stand-ins are never counted as proved.',
  "technique": 'contract-based deductive verification of the real kernel code (VC generator over the clang AST, sidecar contracts, lockstep equivalence with the YAML definitions; z3/cvc5; replay on the compiled kernels)'},
 "C05": {
  "text": 'num, flatten_offsets, flatten_nextcarry/none2empty, UnionArray flatten (bounded), localindex kernels: equal to their definitions and memory-safe for valid offsets; num and flatten_offsets have functional contracts. ak.unflatten and the axis recursion are glue.',
  "ref": 'DESIGN.md section 5 (C05)',
  "note": 'Trusted: clang AST, z3/cvc5, encoding assumptions listed in the evidence; preconditions written in contracts/*.py; the C++ class methods and Python functions that compose these kernels are glue outside the contracts (a change there is invisible to this check). Bounded stand-ins are never counted as proved.',
  "technique": 'contract-based deductive verification of the real kernel code (VC generator over the clang AST, sidecar contracts, lockstep equivalence with the YAML definitions; z3/cvc5; replay on the compiled kernels)'},
 "C08": {
  "text": 'All NumpyArray_fill specializations (169 FROM->TO pairs), ListArray/IndexedArray/UnionArray fill, simplify, project, regular_index, nestedfill kernels: equal to their definitions (the copy loop writes exactly toptr[tooffset+i] = cast(fromptr[i]) and nothing else) and memory-safe. Promotion table and mergemany call sites are not yet covered.',
  "ref": 'DESIGN.md section 5 (C08)',
  "note": 'Trusted: clang AST, z3/cvc5, encoding assumptions listed in the evidence; preconditions written in contracts/*.py; the C++ class methods and Python functions that compose these kernels are glue outside the contracts (a change there is invisible to this check). Bounded stand-ins are never counted as proved.',
  "technique": 'contract-based deductive verification of the real kernel code (VC generator over the clang AST, sidecar contracts, lockstep equivalence with the YAML definitions; z3/cvc5; replay on the compiled kernels)'},
 "C09": {
  "text": 'rpad / rpad_and_clip / min_range / fillna / numnull / mask / overlay / bit-mask conversion kernels: equal to their definitions for every width, memory-safe under validity preconditions; the index buffers of rpad_axis1 are proved to be sized by the sum the length kernel computes (ghost prefix sum with a proved monotonicity lemma). ak.fill_none/is_none/mask in structure.py are glue.',
  "ref": 'DESIGN.md section 5 (C09)',
  "note": 'Trusted: clang AST, z3/cvc5, encoding assumptions listed in the evidence; preconditions written in contracts/*.py; the C++ class methods and Python functions that compose these kernels are glue outside the contracts (a change there is invisible to this check). Bounded stand-ins are never counted as proved.',
  "technique": 'contract-based deductive verification of the real kernel code (VC generator over the clang AST, sidecar contracts, lockstep equivalence with the YAML definitions; z3/cvc5; replay on the compiled kernels)'},
 "C11": {
  "text": 'The three validity kernels (ListArray, IndexedArray, UnionArray; every width) are proved equal to their definitions and memory-safe; iff-contracts against the documented rules are stated in contracts/validity.py. Closure (operations return valid arrays) is covered only through the postconditions of the index-producing kernels, not through the node classes.',
  "ref": 'DESIGN.md section 5 (C11)',
  "note": 'Trusted: clang AST, z3/cvc5, encoding assumptions listed in the evidence; preconditions written in contracts/*.py; the C++ class methods and Python functions that compose these kernels are glue outside the contracts (a change there is invisible to this check). Bounded stand-ins are never counted as proved.',
  "technique": 'contract-based deductive verification of the real kernel code (VC generator over the clang AST, sidecar contracts, lockstep equivalence with the YAML definitions; z3/cvc5; replay on the compiled kernels)'},
 "C12": {
  "text": 'Memory safety and absence of division traps for every CPU kernel symbol (690 specializations) and awkward_regularize_rangeslice under the extents and validity preconditions of the sidecar contracts: every array access inside its extent (or, where no extent is stated, index >= 0), no division by zero / MIN/-1, stores only through non-const parameters, inferred loop invariants inductive (Houdini). Also here: the Forth VM units, the GrowableBuffer units and builder discipline, dispatch forwarding of kernel-dispatch.cpp, and a bounded run of the combinations kernels with buffers sized by the length kernel. Ownership/lifetime, printing/conversion entry points and the Python layer are not covered.',
  "ref": 'DESIGN.md section 5 (C12)',
  "note": 'Trusted: clang AST, z3/cvc5, encoding assumptions listed in the evidence; preconditions written in contracts/*.py; the C++ class methods and Python functions that compose these kernels are glue outside the contracts (a change there is invisible to this check). Bounded stand-ins are never counted as proved.',
  "technique": 'contract-based deductive verification of the real kernel code (VC generator over the clang AST, sidecar contracts, lockstep equivalence with the YAML definitions; z3/cvc5; replay on the compiled kernels)'},
 "C19": {
  "text": "Deductive, per instruction: every `case CODE_*` block of ForthMachineOf<int64_t,int32_t>::internal_run is extracted from the clang AST of the working tree as its own unit (inline helpers of the class inlined from their own AST) and proved, for all machine states satisfying the machine invariant, to (a) access the data stack / do-stack / recursion stack only inside their extents, never divide by zero or trap, (b) re-establish the invariant at every exit, set the documented error code exactly when the documented condition holds, and (c) for the stack, arithmetic and comparison words, compute the documented result (floor division and modulo included) and leave the rest of the stack unchanged. ForthInputBuffer::read/seek/skip keep 0 <= pos <= length and move exactly as documented; ForthOutputBufferOf<int64_t> writes stay inside the (re)allocated buffer, never go through a pointer taken before a reallocation, and preserve what was already written (growth settings cannot change results); reset() clears every piece of run state. The compile-time half (tokenizer, compiler) and whole-program sequencing are not under deductive contract; they are exercised by the bounded Engine N family only.",
  "ref": "DESIGN.md section 5 (C19), section 2.4",
  "note": "Trusted: compiled bytecode is well-formed (operands in range), maybe_resize meets its contract, external calls on buffer objects only write current_error_, signed overflow treated as mathematical; see evidence trusted_base. One known finding (shift amounts).",
  "technique": "contract-based deductive verification of the extracted instruction blocks and buffer methods (self-written VC generator over the clang AST, z3/cvc5)"},
 "C13": {
  "text": "Deductive: for every extern \"C\" kernel symbol of kernel-specification.yml the real C++ body (clang AST of the working tree, template instantiation per specialization) is checked (a) in lockstep bisimulation against its Python definition: every assigned value, every written index, every branch/loop condition and the error/no-error outcome are proved equal by z3/cvc5 for all argument values under the contract's precondition and all loop iterations (E obligations); (b) against sidecar contracts: array accesses within the stated extents, divisors non-zero, invariants inductive (S/I/F obligations); (c) signature/forwarding obligations (YAML args vs C parameters, wrapper forwards in order). Kernels whose definition cannot be aligned are listed as bounded and only compared with the definition by a differential run of the compiled kernel; kernels with no definition get S/F obligations only.",
  "ref": "DESIGN.md section 5 (C13), section 2.2",
  "note": "Trusted: clang's AST, z3/cvc5, the encoding assumptions listed in the evidence (64-bit signed arithmetic mathematical, floats abstract, typed reading of the definitions, no aliasing between pointer parameters). Preconditions (validity of offsets/parents/indexes) are those written in contracts/*.py. Bounded stand-ins are never counted as proved.",
  "technique": "contract-based deductive verification: self-written VC generator over the clang AST + lockstep equivalence with the YAML definitions, discharged by z3/cvc5; counterexamples replayed on the compiled kernels via ctypes"},
}
CLAIMED["C10"] = {
  "category": "exploration",
  "text": "NOT a proof: no deductive obligation exists for this property (record-field plumbing is Content object-graph code with no integer mechanism within reach of the VC generator, and ak.zip / ak.unzip / ak.with_field broadcast in Python, which cannot be executed here). What is checked is the C++ half only, by run-time contracts on the real compiled classes over a bounded seeded input space (Engine N): fields (x[\"f\"] and x[[\"f\", \"g\"]] through lists and options keep order, values and exactly the requested fields in the requested order), field_slices (projecting a field commutes with integers, ranges, ellipsis and newaxis placed before or after it), setitem_field (RecordArray::setitem_field: the new field reads back as given, every other field, the number of records and their order unchanged; tuples get a new slot), record_scalar (one record taken out of a record array -- a Record scalar -- reads as that record, and its fields project to that record's values), and records read as dicts / tuples with fields in declaration order (every family that contains records). 1200 (quick) / 20000 (thorough) cases per family.",
  "ref": "DESIGN.md section 5 (C10)",
  "note": "Bounded exploration only; ak.zip, ak.unzip, ak.with_field (src/awkward/operations/structure.py, _util.py broadcasting) are NOT covered. Trusted: the rapidjson stand-in (compile-only), the reference semantics in akvlib/nat/refops.py.",
  "technique": "run-time contract checking of the real compiled layout classes on a bounded seeded input space (the bounded stand-in of the contract family; nothing is proved)"}
CLAIMED["C17"] = {
  "category": "exploration",
  "text": "NOT a proof: no deductive obligation exists for this property (Type/Form hierarchies and string round trips; Form <-> JSON and the Lark type parser need rapidjson / Python and are NOT covered). What is checked is, by run-time contracts on the real compiled classes over a bounded seeded input space (Engine N family types): the item type printed for an array (Content::type with the default type strings) is the documented datashape-like syntax for its data (var *, N *, ?T / option[...], records, tuples, named records Name[...], categorical[type=...] incl. the general struct[...]/tuple[..., parameters={...}] spelling when a name meets another parameter, unions, string, bytes, dtypes) for every physical encoding; the type obtained from the form (Content::form -> Form::type) equals the type obtained from the array (also by Type::equal); a range slice has the same type; an element taken out of a list-typed array has the inner type; minmax_depth agrees with the value. 1200 (quick) / 20000 (thorough) cases.",
  "ref": "DESIGN.md section 5 (C17)",
  "note": "Bounded exploration only; Form -> JSON -> Form, type printing <-> re-parsing (src/awkward/_typeparser), forms.py/types.py and the high-level ak.type (array length prefix) are NOT covered. Trusted: the rapidjson stand-in (parameters compared as JSON text), the reference type syntax in akvlib/nat/engine.py (ref_type).",
  "technique": "run-time contract checking of the real compiled layout and type classes on a bounded seeded input space (the bounded stand-in of the contract family; nothing is proved)"}

NA = {
 "C15": "io/json.cpp does not parse here (rapidjson headers absent from the sandbox), and the property is about strings and a SAX state machine driving builders",
 "C16": "implemented in convert.py/highlevel.py over ak.layout objects, NumPy and pyarrow; the package cannot be imported from /repo and the functions are not integer programs",
 "C20": "Numba lowering emits LLVM IR from Python; neither numba against this tree nor _ext can be loaded, and generated IR is not a function the engines can contract",
}
NOT_BUILT = "not built yet in this round (planned in DESIGN.md section 5)"
ALL = ["C%02d" % i for i in range(1, 21)]

G_SENTENCE = (" Call sites (Engine G): the libawkward C++ methods that call these kernels are executed symbolically from their clang AST, with path conditions, and every such call is checked against the kernel's contract (each buffer holds at least the extent the contract requires for the actual scalar arguments, scalar preconditions hold; count kernels and fill kernels are tied by a ghost count over the same input buffer), and every recursive call of reduce_next / sort_next / argsort_next / getitem_next is checked against the length preconditions of those virtual methods (the Index objects passed down have the length of the array they are passed to); only the obligations that prove on the unchanged tree are counted, the others are listed as undecided call sites in the evidence.")


N_FAMILIES = {
 "C01": "getitem_basic (integers, ranges with any bounds/step, ellipsis, newaxis, fields), getitem_array (one or two adjacent integer arrays of one or two dimensions, boolean arrays, index arrays with missing values), getitem_jagged (jagged integer/boolean indexes with missing entries, boolean masks with None, and -- one-level indexes -- missing rows; lists of records, and doubly jagged indexes that pass through a record into its list-typed fields), getitem_numpy (rectilinear arrays against NumPy's own indexing as oracle), carry_range (carry, x[a:b], x[i]), fields (x[\"f\"] and x[[\"f\", \"g\"]] through lists and options, also out of unions of two record types that share the field)",
 "C02": "layout_independent (metamorphic: the same operation -- reducers, num, flatten, local_index, pad_none, combinations, sort, argsort, slicing, carry, values_astype, field projection, fill_none -- on a random physical layout and on the compact canonical layout of the same value gives equal values and the same success-or-error outcome), tolist (every physical encoding -- ListArray/ListOffsetArray/RegularArray in 32/U32/64 bit, shifted or shuffled storage with unreachable elements, IndexedArray views, all five option encodings with arbitrary padding bits and negative indexes, strided/offset/reversed/n-dimensional NumpyArray, records, unions -- reads back as the encoded value), carry_range, convert (toListOffsetArray64, toRegularArray, option-encoding conversions, simplify, project, bytemask, deep_copy, contiguous), union_shared (the operations of the other families on union[x, x] whose two branches are literally the same buffers give what they give on x), union_windows (the same on a union of the two overlapping windows x[0:n-1] and x[1:n] of one array, weighted towards flatten/num/local_index); every other family also draws its inputs from these encodings and compares with a layout-independent reference",
 "C03": "reduce_ragged (all ten reducers, every axis written positively or negatively, mask_identity, keepdims, missing leaves and missing lists, every encoding; a mode for argmin/argmax over lists that sit behind a missing list, where the reported position must count the missing ones; integer, boolean, floating-point and -- a fifth of the cases -- complex64/complex128 leaves with NumPy's lexicographic order for min/max/argmin/argmax) reduce_rect (rectilinear arrays incl. size-0 dimensions and n-dimensional NumpyArray) and reduce_datetime (min/max/argmin/argmax/count of datetime64 and timedelta64 leaves in s/ms/us, sum of time differences)",
 "C04": "broadcast (the list-alignment step only: broadcast_tooffsets64 of ListArray / ListOffsetArray / RegularArray onto offsets with the same list lengths keeps the value, a length-1 regular dimension repeats its element to the requested lengths, different lengths raise)",
 "C05": "num, flatten (incl. unions of list types), localindex at every axis; one union node (numbers against records, same list depth) at a random level; record_scalar (local_index and num of one record taken out of a record array equal those of its fields alone)",
 "C06": "sort and argsort along the innermost axis (both directions, stable or not, NaN first, missing leaves last, positions realise the order, ties in original order when stable; for sort also missing lists at the outermost level, which stay where they are; lists of strings and bytestrings sorted as whole units by bytes)",
 "C07": "combinations (n 1..4, with/without replacement, every axis, tuples and order equal to itertools)",
 "C08": "concat (ak.concatenate axis=0 composed from mergeable/mergemany/merge_as_union/simplify as structure.py does: same types, numerically different leaf types with the promoted dtype checked against numpy.result_type for two arrays, different types giving unions, record arrays with the same fields stored in another order, IndexedArray nodes with repeats also next to option-type arrays, blocks of one rectilinear shape as n-dimensional NumpyArrays, datetime64/timedelta64 arrays stored in different units), union_shared, astype (values_astype against numpy.astype leaf by leaf, n-dimensional arrays included, complex64/complex128 as source and target), simplify_union (simplify_uniontype keeps every value, flat unions and a union nested in a union), union_windows",
 "C09": "rpad (pad_none with/without clip at every axis), fillna (fill_none at the top option level), convert (conversions among the option encodings, project, bytemask = is_none), record_scalar (fill_none of one record taken out of a record array fills that record's fields only)",
 "C11": "valid_accept (layouts obeying every documented rule -- strings, bytestrings and fixed-length strings included -- pass validityerror), valid_reject (one documented rule broken at one node -- offsets, starts/stops, indexes, tags, mask/content/field lengths, option directly in option, negative size, malformed string/char/byte/categorical parameters --: reported, or refused by the constructor; never a crash) and, in EVERY family, the layout returned for a valid input passes validityerror",
 "C12": "every family: the call neither crashes nor hangs (each case runs in a forked child with a 20 s alarm), the input layouts are byte-for-byte unchanged afterwards and the result reads the same after its inputs have been dropped; invalid_nocrash (to_list / deep_copy / depth queries on layouts with one broken rule never crash); print_nocrash (printing -- Content::tostring -- a valid layout, a layout with one broken rule, or dates and time differences of any magnitude never crashes); thorough tier: the same under AddressSanitizer",
 "C14": "builder (random well-nested values through the real ArrayBuilder incl. records with differing fields, tuples, strings (also with NUL characters), None, mixed numbers incl. integers beyond 2**32: final to_list equals the appended values up to the documented unification, length, validity; zero-field tuples; snapshots taken between values and in the middle of an open value equal the values completed so far and read the same at the end, for initial buffer sizes 1, 2, 8, 1024) and builder_malformed (unbalanced end, field/index outside record/tuple raise)",
 "C19": "forth (random small programs -- stack/arithmetic/comparison/bitwise words, if/else, do/loop/+loop with i, begin/until, begin/while/repeat, user words with exit, variables, typed little/big-endian, repeated, varint and zigzag reads to the stack or to an output, seek/skip/len/pos/end, typed output writes, +<-, rewind, halt, pause -- on the real ForthMachine64 in three schedules (run resumed after every pause, single-stepped, mixed) and with output buffers starting at 1, 2 or 1024 items: error status, stack, variables, outputs and input positions equal those of the reference interpreter akvlib/nat/forthref.py written from the documented semantics)",
 "C18": "virtual (the operations of the other families through a real VirtualArray with a counting generator and no cache / an unbounded cache / a cache that evicts after k hits, optionally with a first generation that fails; in a third of the cases the VirtualArray is the content of the outermost list/regular/indexed/option node, and every virtual input is read again after the call), virtual_enforce (declared length+form: length/depth/form queries never invoke the generator; a too-short or wrong-form generation is refused and leaves neither an inferred form nor a cached array), field projection of a lazy record array answers depth queries like the eager field, partitioned (IrregularlyPartitionedArray getitem_at, getitem_range with any start/stop and steps up to +-7, repartition incl. empty partitions, against the concatenated list)",
}

N_SENTENCE = (" BOUNDED, never counted as proved (Engine N): run-time contracts on the REAL layout classes -- libawkward and the kernels are compiled from the working tree, linked with /verif/native/driver.cpp (rapidjson, an empty submodule here, replaced by a stand-in that is only compiled, never used for JSON) and each postcondition, taken from the property text over the array's nested-list value, is checked on %d (quick) / %d (thorough) seeded random cases per family (lists of at most 4 elements, 3 percent of them 8 to 18 long, depth at most 3): %s. Inputs that hit a recorded known finding are not generated; each recorded input is replayed and reported as KNOWN-FINDING while it still fails.")


def main():
    for _pid, fams in N_FAMILIES.items():
        if _pid in CLAIMED and "Engine N" not in CLAIMED[_pid]["text"]:
            CLAIMED[_pid]["text"] += N_SENTENCE % (1200, 20000, fams)
            CLAIMED[_pid]["technique"] += "; plus bounded run-time contract checking of the real compiled layout classes (labelled bounded)"
    for _pid in ("C01", "C02", "C03", "C04", "C05", "C07", "C08", "C09", "C11", "C12"):
        if _pid in CLAIMED and "Engine G" not in CLAIMED[_pid]["text"].split("Call sites (Engine G)")[0][-1:] and "Call sites (Engine G)" not in CLAIMED[_pid]["text"]:
            CLAIMED[_pid]["text"] += G_SENTENCE
    checks = []
    for pid, c in CLAIMED.items():
        checks.append({
            "property_id": pid,
            "quick_cmd": "./akv check %s --tier quick" % pid,
            "thorough_cmd": "./akv check %s --tier thorough" % pid,
            "evidence_file": "evidence/%s.json" % pid,
            "replay_cmd_template": "./akv replay {path}",
            "engine": c.get("engine", "akv"),
            "level_claimed": {"category": c.get("category", "proof"), "text": c["text"], "design_ref": c["ref"]},
            "level_note": c["note"],
            "technique": c["technique"],
        })
    na = []
    for pid in ALL:
        if pid in CLAIMED:
            continue
        na.append({"property_id": pid, "reason": NA.get(pid, NOT_BUILT)})
    m = {
        "version": 1,
        "setup_cmd": "./akv selftest --quick",
        "hooks": {"guard": "AWKWARD_VERIF_HOOKS", "enable": "none needed: contracts are sidecar files under /verif/contracts and the checks read the clang AST of the working tree as it is",
                  "baseline_off_cmd": BASELINE, "source_commits": [], "add_only": True},
        "engines": [
            {"name": "akv", "path": "akv", "serves_properties": sorted(CLAIMED),
             "kind_free_text": "self-written VC generator over the clang JSON AST of the real C/C++ functions (kernels, small methods, libawkward call sites) with sidecar contracts; z3 then cvc5; counterexamples replayed on the freshly compiled kernels through ctypes; Engine N: bounded run-time contract checking of the real compiled layout classes through /verif/native/driver.cpp (never counted as proved)"},
        ],
        "checks": checks,
        "not_applicable": na,
        "notes": "see DESIGN.md; known findings are listed in known_findings.json",
    }
    json.dump(m, open(os.path.join(HERE, "MANIFEST.json"), "w"), indent=1)

if __name__ == "__main__":
    main()
