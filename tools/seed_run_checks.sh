#!/bin/bash
# usage: seed_run_checks.sh <seed-dir> <PID> [<PID>...]: applies the patch to /repo, runs the quick checks, undoes it
d=$(readlink -f "$1"); shift
cd /verif
git -C /repo diff --quiet || { echo "/repo not clean"; exit 3; }
git -C /repo apply $d/patch.diff || exit 3
for pid in "$@"; do
  ./akv check $pid > $d/check_$pid.txt 2>&1; echo "$pid exit=$? $(grep -c '^VIOLATION' $d/check_$pid.txt) violation lines"
done
git -C /repo checkout -- .
