#!/bin/bash
# usage: seed_verify.sh <seed-dir>   (contains patch.diff, demo.sh)
# confirms in a scratch worktree: demo passes on the clean tree, fails with the patch; patched files still compile
d=$(readlink -f "$1"); wt=/tmp/seedwt_$$
git -C /repo worktree add -q --detach $wt HEAD || exit 3
cp /repo/include/awkward/kernels.h $wt/include/awkward/kernels.h 2>/dev/null
trap "git -C /repo worktree remove --force $wt" EXIT
bash $d/demo.sh $wt > $d/out_clean.txt 2>&1; c=$?
git -C $wt apply $d/patch.diff || { echo "patch does not apply"; exit 3; }
bash $d/demo.sh $wt > $d/out_patched.txt 2>&1; p=$?
# compile the touched files
comp=ok
for f in $(git -C $wt diff --name-only); do
  case $f in
    src/cpu-kernels/*.cpp) g++ -std=c++11 -O0 -fPIC -DVERSION_INFO=\"1.4.0\" -I$wt/include -c $wt/$f -o /dev/null 2>/dev/null || comp=FAIL;;
    src/libawkward/*.cpp|src/libawkward/*/*.cpp) g++ -std=c++11 -fsyntax-only -DVERSION_INFO=\"1.4.0\" -I/verif/native/stub -I$wt/include $wt/$f 2>/dev/null || comp=FAIL;;
  esac
done
echo "clean_exit=$c patched_exit=$p compile=$comp"
