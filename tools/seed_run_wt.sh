#!/bin/bash
# usage: seed_run_wt.sh <verif-dir> <seed-dir> <PID> [<PID>...]
# runs the quick checks of <verif-dir> (a snapshot of /verif, so that edits in /verif do not disturb the run) against a
# scratch worktree of /repo HEAD with the seed's patch applied (AKV_REPO), then removes the worktree
v=$(readlink -f "$1"); d=$(readlink -f "$2"); shift; shift
wt=/tmp/seedrun_$$
git -C /repo worktree add -q --detach $wt HEAD || exit 3
cp /repo/include/awkward/kernels.h $wt/include/awkward/kernels.h 2>/dev/null
trap "git -C /repo worktree remove --force $wt" EXIT
git -C $wt apply $d/patch.diff || { echo "patch does not apply"; exit 3; }
cd $v
for pid in "$@"; do
  AKV_REPO=$wt ./akv check $pid > $d/check_$pid.txt 2>&1; echo "$(basename $d) $pid exit=$? $(grep -c '^VIOLATION' $d/check_$pid.txt) violation lines: $(grep -m1 '^VIOLATION' $d/check_$pid.txt | cut -c1-200)"
done
