#!/usr/bin/env python3
"""seed_store.py <src-dir> <seed-id> <property> <needs...>: copy a confirmed seeded change into /verif/seeded/<id>/ with meta.json"""
import sys, os, shutil, json, glob
src, sid, prop = sys.argv[1], sys.argv[2], sys.argv[3]
needs = " ".join(sys.argv[4:])
dst = os.path.join("/verif/seeded", sid)
os.makedirs(dst, exist_ok=True)
for f in glob.glob(os.path.join(src, "*")):
    b = os.path.basename(f)
    if b.startswith("check_") or os.path.isdir(f):
        continue
    if os.path.getsize(f) > 300000:
        continue
    shutil.copy(f, os.path.join(dst, b))
caught = {}
for f in glob.glob(os.path.join(src, "check_*.txt")):
    pid = os.path.basename(f)[6:-4]
    txt = open(f).read()
    v = [l for l in txt.splitlines() if l.startswith("VIOLATION")]
    caught[pid] = {"violation_lines": len(v), "first": v[0] if v else None}
as_stood = {}
for f in glob.glob(os.path.join(src, "asstood_*.txt")):
    pid = os.path.basename(f)[8:-4]
    v = [l for l in open(f).read().splitlines() if l.startswith("VIOLATION")]
    as_stood[pid] = {"violation_lines": len(v), "first": v[0] if v else None}
# demos written against the build kit refer to it through ${KIT:-...}: point the default at the stored copy
dm = os.path.join(dst, "demo.sh")
if os.path.exists(dm):
    t = open(dm).read().replace("${KIT:-/tmp/s14_kit}", "${KIT:-/verif/seeded/_kit}").replace("/tmp/s14_kit", "/verif/seeded/_kit")
    open(dm, "w").write(t)
oc = open(os.path.join(src, "out_clean.txt")).read()[-300:] if os.path.exists(os.path.join(src, "out_clean.txt")) else ""
meta = {"breaks_property": prop, "needs_to_manifest": needs,
        "confirmed": "tools/seed_verify.sh: scratch worktree of /repo HEAD; demo.sh exits 0 on the clean tree and non-zero with patch.diff applied; touched files compile (kernels: g++ -c, libawkward: -fsyntax-only); the pinned pytest suite never imports /repo/src so it is unaffected",
        "checks_run": caught}
if as_stood:
    meta["checks_as_they_stood_before_this_round"] = as_stood
json.dump(meta, open(os.path.join(dst, "meta.json"), "w"), indent=1)
print(dst, caught)
