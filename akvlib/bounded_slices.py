"""C01 bounded stand-in (never counted as proved): awkward_ListArray*_getitem_next_range_64 and
..._getitem_next_range_carrylength against CPython's own slicing, exhaustively on a small domain:
every list layout from a fixed set (gaps, empty lists, overlaps), every start/stop in {None, -6..6}, every
step in {-3..-1, 1..3}, three index widths.  The oracle is `list(range(a, b))[start:stop:step]` per list."""
import itertools, time

from . import native
from .sorting import A

KSLICENONE = 9223372036854775807

LAYOUTS = [
    ([], []),
    ([0], [0]),
    ([0], [3]),
    ([2, 0, 5], [5, 0, 9]),          # gap, empty list, non-zero origin
    ([4, 1, 1], [6, 4, 1]),          # reordered / overlapping
    ([0, 1, 3, 6], [1, 3, 6, 10]),   # contiguous, growing
]


def run(runner, tier):
    mism, cases = [], 0
    bounds = [None] + list(range(-6, 7))
    steps = [-3, -2, -1, 1, 2, 3]
    if tier == "quick":
        bounds = [None, -6, -4, -3, -1, 0, 1, 2, 3, 4, 6]
    for starts, stops in LAYOUTS:
        n = len(starts)
        for start, stop, step in itertools.product(bounds, bounds, steps):
            exp_carry, exp_off = [], [0]
            for a, b in zip(starts, stops):
                sel = list(range(a, b))[slice(start, stop, step)]
                exp_carry += sel
                exp_off.append(len(exp_carry))
            cstart = KSLICENONE if start is None else start
            cstop = KSLICENONE if stop is None else stop
            for w, ct in (("32", "int32_t"), ("U32", "uint32_t"), ("64", "int64_t")):
                cases += 1
                args = [A("carrylength", "int64_t", "out", False), A("fromstarts", ct), A("fromstops", ct),
                        A("lenstarts", "int64_t", depth=0, const=False), A("start", "int64_t", depth=0, const=False),
                        A("stop", "int64_t", depth=0, const=False), A("step", "int64_t", depth=0, const=False)]
                inp = {"carrylength": [0], "fromstarts": starts, "fromstops": stops, "lenstarts": n, "start": cstart, "stop": cstop, "step": step}
                sym1 = "awkward_ListArray%s_getitem_next_range_carrylength" % w
                r1 = runner.call(sym1, args, inp)
                got = r1.get("arrays", {}).get("carrylength")
                if got != [len(exp_carry)]:
                    mism.append((sym1, inp, "expected %d selected positions, kernel reports %r" % (len(exp_carry), got if got is not None else r1)))
                    continue
                args = [A("tooffsets", ct, "out", False), A("tocarry", "int64_t", "out", False), A("fromstarts", ct), A("fromstops", ct),
                        A("lenstarts", "int64_t", depth=0, const=False), A("start", "int64_t", depth=0, const=False),
                        A("stop", "int64_t", depth=0, const=False), A("step", "int64_t", depth=0, const=False)]
                inp = {"tooffsets": [0] * (n + 1), "tocarry": [-7] * len(exp_carry), "fromstarts": starts, "fromstops": stops,
                       "lenstarts": n, "start": cstart, "stop": cstop, "step": step}
                sym2 = "awkward_ListArray%s_getitem_next_range_64" % w
                r2 = runner.call(sym2, args, inp)
                arrs = r2.get("arrays", {})
                if "crash" in r2 or arrs.get("tocarry") != exp_carry or arrs.get("tooffsets") != exp_off or not r2.get("guard_ok", True):
                    mism.append((sym2, inp, "CPython slicing gives carry %r offsets %r, kernel gives %r" % (exp_carry, exp_off, arrs if arrs else r2)))
            if len(mism) > 20:
                return mism, cases
    return mism, cases


def engine(pid, tier, seed, known):
    t0 = time.time()
    out = {"obligations": [], "functions": {}, "errors": [], "notes": [], "bounded": [], "coverage": {}, "replay": {}}
    runner = native.KernelRunner(native.build_kernels())
    try:
        mism, cases = run(runner, tier)
    finally:
        runner.close()
    out["bounded"].append({"function": "awkward_ListArray*_getitem_next_range_64 / _carrylength vs CPython slicing",
                           "bound": "6 list layouts x start/stop in {None,-6..6} (quick: 11 values) x step in {-3..3}\\{0} x 3 widths",
                           "cases": cases, "mismatch": bool(mism)})
    seen = set()
    for sym_, inp, why in mism:
        if sym_ in seen:
            continue
        seen.add(sym_)
        oid = "bounded:%s" % sym_
        out["obligations"].append({"id": oid, "unit": sym_, "kind": "B.bounded", "label": "bounded", "line": None,
                                   "desc": "bounded stand-in: %s agrees with CPython slicing on the stated domain" % sym_,
                                   "status": "refuted", "time": 0.0, "backend": "native", "model": why[:1500], "auto": False})
        out["replay"][oid] = {"input": inp, "symbol": sym_, "why": why[:1500]}
    out["coverage"]["bounded_slices_wall_s"] = round(time.time() - t0, 1)
    return out
