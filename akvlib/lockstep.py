"""E obligations: lockstep bisimulation of a C kernel instantiation with the
Python definition of the kernel in kernel-specification.yml, under the identity
relation on the (shared) symbolic state.

Reading of the definition ("typed reading"): a value assigned to a variable or
array element is converted to the C type of that variable/element on *both*
sides, i.e. the definition is read as operating on the declared argument types
(kernel-specification.yml gives them) and on locals of the kernel's types.  All
other arithmetic on the definition side is CPython's (unbounded ints, floor
division).  A statement pair that cannot be aligned is never a violation by
itself: the unit is reported `unaligned` and handed to the bounded differential
check.
"""
import z3

from . import sym, spec, vcgen
from .sym import Val, State, EvalError, to_bool, to_int, to_flt, merge_states, IV
from .cast import unconst


class Misaligned(Exception):
    pass


def terminates(stmts):
    if not stmts:
        return False
    s = stmts[-1]
    if s[0] in ("ret", "break", "continue"):
        return True
    if s[0] == "if":
        return terminates(s[2]) and terminates(s[3])
    if s[0] == "block":
        return terminates(s[1])
    return False


def is_pure(e):
    """no assignment, increment or call anywhere inside"""
    if not isinstance(e, list) or not e:
        return True
    k = e[0]
    if k in ("v", "c", "g", "null", "enum", "str"):
        return True
    if k == "ld":
        return is_pure(e[1]) and is_pure(e[2])
    if k == "bin":
        return is_pure(e[2]) and is_pure(e[3])
    if k == "un":
        return is_pure(e[2])
    if k == "cast":
        return is_pure(e[1])
    if k == "cond":
        return is_pure(e[1]) and is_pure(e[2]) and is_pure(e[3])
    return False


def _target(s):
    """what a simple statement writes, syntactically: ('v', name) / ('a', array or pointer name) / None"""
    e = None
    if s[0] == "assign":
        e = s[1]
    elif s[0] == "effect":
        x = s[1]
        if x[0] in ("casg",):
            e = x[2]
        elif x[0] == "inc":
            e = x[1]
        elif x[0] == "asg":
            e = x[1]
    if e is None:
        return None
    if e[0] == "v":
        return ("v", e[1])
    while e[0] == "ld":
        e = e[1]
    if e[0] == "v":
        return ("a", e[1])
    return None


def normalize(stmts, is_c):
    """common normal form of both sides"""
    out = []
    for idx, s in enumerate(stmts):
        k = s[0]
        if k == "block":
            out.extend(normalize(s[1], is_c))
        elif k == "decl":
            if s[3] is None:
                out.append(["declare", s[1], s[2], s[-1]])
            else:
                out.append(["assign", ["v", s[1], s[2]], s[3], s[2], s[-1]])
        elif k == "expr":
            e = s[1]
            if e[0] == "asg":
                out.append(["assign", e[1], e[2], None, s[-1]])
            elif is_pure(e):
                pass        # a value computed and discarded (e.g. the untaken arm of a lowered ?:)
            else:
                out.append(["effect", e, s[-1]])
        elif k == "if":
            th, el = normalize(s[2], is_c), normalize(s[3], is_c)
            if terminates(th) and el:
                out.append(["if", s[1], th, [], s[-1]])
                out.extend(el)
            elif terminates(el) and th and not terminates(th):
                out.append(["if", ["un", "!", s[1], "bool"], el, [], s[-1]])
                out.extend(th)
            else:
                out.append(["if", s[1], th, el, s[-1]])
        elif k == "for":
            init = normalize(s[1], is_c)
            out.extend(init)
            inc = [["effect", s[3], s[-1]]] if s[3] is not None else []
            out.append(["loop", s[2], normalize(s[4], is_c), inc, id(s), s[-1]])
        elif k == "while":
            out.append(["loop", s[1], normalize(s[2], is_c), [], id(s), s[-1]])
        elif k == "pyfor":
            _, var, lo, hi, step, body, ln = s
            out.append(["assign", ["v", var, "py"], lo, None, ln])
            out.append(["pyrange", var, hi, step, ln])
            inc = [["effect", ["casg", "+", ["v", var, "py"], ["v", var + "$step", "py"], "py", "py"], ln]]
            out.append(["loop", ["pycond", var, var + "$hi", var + "$step"], normalize(body, is_c), inc, id(s), ln])
        else:
            out.append(s)
    return out


def has_continue(stmts):
    for s in stmts:
        if s[0] == "continue":
            return True
        if s[0] == "if" and (has_continue(s[2]) or has_continue(s[3])):
            return True
    return False


class Lockstep(vcgen.Unit):
    def __init__(self, cfunc, pyfunc, contract=None, consts=None, contracts=None, active=None):
        super().__init__(cfunc, contract, consts, contracts, active if active is not None else {})
        self.p = pyfunc
        self.ev.emit_safety = False
        self.ev.assume_store_fits = False
        if hasattr(self, "_orig_store"):
            self.ev.store = self._orig_store      # store assertions belong to the S/F run, not to the lockstep walk
        self.pev = sym.Evaluator(pyfunc)      # python-side evaluator
        self.pev.emit_safety = False
        self.pev.globals = dict(self.consts)
        self.pev.call_handler = self.py_call
        self.pev.float_is_neutral = True
        # a variable only the C side has assigned so far is unbound in the definition
        _pv, _pa = self.pev.ev_v, self.pev.assign

        def p_read(e, st):
            if e[1] in getattr(st, "pundef", ()):
                raise Misaligned("definition reads %s, which only the C side has assigned" % e[1])
            return _pv(e, st)

        def p_assign(lv, v, st, src_ty=None):
            if lv[0] == "v" and getattr(st, "pundef", None):
                st.pundef = set(st.pundef) - {lv[1]}
            return _pa(lv, v, st, src_ty)
        self.pev.ev_v = p_read
        self.pev.assign = p_assign
        # both evaluators share the universally valid facts
        self.pev.facts = self.ev.facts
        self.pev._fact_ids = self.ev._fact_ids
        self.ev.store_log = None
        self.aligned_pairs = 0
        self.unaligned = None
        self._last_src = {}

    def py_call(self, ev, e, st):
        raise Misaligned("definition calls %s" % e[1])

    # ---- driver
    def run(self):
        st = self.initial_state()
        # python evaluator sees the same arrays with 'py' element semantics but the C element types (typed reading)
        self.pev.elem = dict(self.ev.elem)
        self.pev.writable = dict(self.ev.writable)
        cparams = [n for n, _ in self.f["params"]]
        if cparams != list(self.p["params"]):
            self.unaligned = "parameter names differ: C %s vs definition %s" % (cparams, self.p["params"])
            return
        cb = normalize(self.f["body"], True)
        pb = normalize(self.p["body"], False)
        if not terminates(pb):
            pb = pb + [["ret", ["success"], None]]
        self.clabels = self.labels
        try:
            self.pair_block(cb, pb, st)
        except Misaligned as ex:
            self.unaligned = str(ex)
        except EvalError as ex:
            self.unaligned = "untranslatable: %s" % ex
        except spec.SpecError as ex:
            self.errors.append("contract error: %s" % ex)

    def ob(self, kind, claim, st, desc, line):
        self.ev.loc_label = "E"
        self.ev.line = line
        self.ev.oblige(kind, claim, st, desc)

    # ---- pairs
    def pair_block(self, cs, ps, st):
        i = j = 0
        cur = st
        done = []
        while True:
            while i < len(cs) and cs[i][0] == "declare":
                d = cs[i]
                cur.types[d[1]] = unconst(d[2])
                i += 1
            while j < len(ps) and ps[j][0] == "pyrange":
                _, var, hi, step, ln = ps[j]
                hv, sv = self.pev.ev(hi, cur), self.pev.ev(step, cur)
                cur.vars[var + "$hi"] = Val(to_int(hv), "int")
                cur.vars[var + "$step"] = Val(to_int(sv), "int")
                j += 1
            if i >= len(cs) and j >= len(ps):
                return [("fall", cur)] + done
            if i >= len(cs) or j >= len(ps):
                rest = cs[i:] if i < len(cs) else ps[j:]
                raise Misaligned("one side has extra statements (%s ...) at line %s" % (rest[0][0], rest[0][-1]))
            c, p = cs[i], ps[j]
            if c[0] in ("assign", "effect") and p[0] in ("assign", "effect"):
                # maximal runs of simple statements on both sides
                i2, j2 = i, j
                while i2 < len(cs) and cs[i2][0] in ("assign", "effect", "declare"):
                    i2 += 1
                while j2 < len(ps) and ps[j2][0] in ("assign", "effect"):
                    j2 += 1
                crun = [x for x in cs[i:i2] if x[0] != "declare"]
                prun = ps[j:j2]
                if len(crun) != len(prun) or [_target(x) for x in crun] != [_target(x) for x in prun]:
                    # different length, or the same statements in another order (independent stores swapped)
                    for d in cs[i:i2]:
                        if d[0] == "declare":
                            cur.types[d[1]] = unconst(d[2])
                    cur = self.group_pair(crun, prun, cur, c[-1])
                    i, j = i2, j2
                    continue
            res = self.pair_stmt(c, p, cur)
            falls = [s for o, s in res if o == "fall"]
            done.extend((o, s) for o, s in res if o != "fall")
            i += 1
            j += 1
            if not falls:
                if i < len(cs) or j < len(ps):
                    pass  # dead code after a terminating pair on both sides is ignored
                return done
            cur = merge_states(falls) if len(falls) > 1 else falls[0]

    def simple_pair(self, c, p, st, line):
        """both are side-effecting simple statements: run each on a fork, compare effects"""
        a, b = st.fork(), st.fork()
        clog, plog = [], []
        self._run_simple(self.ev, c, a, clog)
        self._run_simple(self.pev, p, b, plog)
        # scalar effects
        ca = {n for n, v in a.vars.items() if n not in st.vars or st.vars[n].t.get_id() != v.t.get_id() or st.vars[n].arr != v.arr}
        pa = {n for n, v in b.vars.items() if n not in st.vars or st.vars[n].t.get_id() != v.t.get_id() or st.vars[n].arr != v.arr}
        if c[0] == "assign" and c[1][0] == "v":
            ca.add(c[1][1])
        if p[0] == "assign" and p[1][0] == "v":
            pa.add(p[1][1])
        if ca != pa:
            raise Misaligned("different targets: C assigns %s, definition assigns %s (line %s)" % (sorted(ca), sorted(pa), line))
        for n in sorted(ca):
            va, vb = a.vars[n], b.vars[n]
            ty = a.types.get(n)
            same_signed = ty in ("i32", "i64") and self._last_src.get(n) == ty
            # (signed arithmetic carried out in the variable's own type is mathematical on the C side,
            #  so the definition's value is compared unconverted)
            if ty and ty != "py" and vb.k != "ptr" and not same_signed:
                vb = self.ev.coerce(vb, ty)
            self.ob("E.value", self.same(va, vb), st, "%s: same value assigned on both sides" % n, line)
        if len(clog) != len(plog):
            raise Misaligned("different number of array stores (line %s)" % line)
        for (arr1, i1, v1, sty1), (arr2, i2, v2, _sty2) in zip(clog, plog):
            if arr1 != arr2:
                raise Misaligned("stores go to different arrays %s / %s (line %s)" % (arr1, arr2, line))
            self.ob("E.index", i1 == i2, st, "%s[...]: same index written on both sides" % arr1, line)
            ety = self.ev.elem.get(arr1, "py")
            same_signed = bool(sty1) and unconst(sty1) == ety and ety in ("i32", "i64")
            # signed arithmetic is mathematical on the C side (overflow is undefined behaviour):
            # no conversion happened there, so none is applied to the definition's value either
            vb = self.ev.coerce(v2, ety) if ety != "py" and not same_signed else v2
            va = self.ev.coerce(v1, ety) if ety != "py" and not (sty1 and unconst(sty1) == ety and ety != "bool") else v1
            self.ob("E.value", self.same(va, vb), st, "%s[...]: same value written on both sides" % arr1, line)
        if getattr(b, "pundef", None) is not None:
            a.pundef = set(b.pundef)
        self.aligned_pairs += 1
        return a

    def group_pair(self, crun, prun, st, line):
        """runs of simple statements of different length (a temporary folded into an expression, an
        increment written inside a subscript, an initialisation only C needs): run each side on a fork and
        compare the net effect.  Only a variable that C assigns and the definition does not may differ; the
        definition must not read it before assigning it (checked at every later read)."""
        a, b = st.fork(), st.fork()
        clog, plog = [], []
        for c in crun:
            self._run_simple(self.ev, c, a, clog, keep_src=True)
        for p in prun:
            self._run_simple(self.pev, p, b, plog)
        def changed(x):
            return {n for n, v in x.vars.items() if n not in st.vars or st.vars[n].t.get_id() != v.t.get_id() or st.vars[n].arr != v.arr}
        ca, pa = changed(a), changed(b)
        for c in crun:
            if c[0] == "assign" and c[1][0] == "v":
                ca.add(c[1][1])
        for p in prun:
            if p[0] == "assign" and p[1][0] == "v":
                pa.add(p[1][1])
        if pa - ca:
            raise Misaligned("different targets: definition assigns %s, C does not (line %s)" % (sorted(pa - ca), line))
        for n in sorted(ca & pa):
            va, vb = a.vars[n], b.vars[n]
            ty = a.types.get(n)
            same_signed = ty in ("i32", "i64") and self._last_src.get(n) == ty
            if ty and ty != "py" and vb.k != "ptr" and not same_signed:
                vb = self.ev.coerce(vb, ty)
            self.ob("E.value", self.same(va, vb), st, "%s: same value after the statement group" % n, line)
        arrs_c = [x[0] for x in clog]
        arrs_p = [x[0] for x in plog]
        if sorted(arrs_c) != sorted(arrs_p) or len(set(arrs_c)) != len(arrs_c):
            raise Misaligned("statement groups store differently (line %s)" % line)
        pmap = {x[0]: x for x in plog}
        for (arr1, i1, v1, sty1) in clog:
            _a, i2, v2, _s = pmap[arr1]
            self.ob("E.index", i1 == i2, st, "%s[...]: same index written on both sides" % arr1, line)
            ety = self.ev.elem.get(arr1, "py")
            same_signed = bool(sty1) and unconst(sty1) == ety and ety in ("i32", "i64")
            vb = self.ev.coerce(v2, ety) if ety != "py" and not same_signed else v2
            va = self.ev.coerce(v1, ety) if ety != "py" and not (sty1 and unconst(sty1) == ety and ety != "bool") else v1
            self.ob("E.value", self.same(va, vb), st, "%s[...]: same value written on both sides" % arr1, line)
        a.pundef = set(getattr(b, "pundef", ())) | (ca - pa)
        self.aligned_pairs += 1
        return a

    def same(self, va, vb):
        if va.k == "ptr" or vb.k == "ptr":
            if va.k == vb.k and va.arr == vb.arr:
                return va.t == vb.t
            raise Misaligned("pointer compared with value")
        if va.k == "flt" or vb.k == "flt":
            return to_flt(va) == to_flt(vb)
        if va.k == "bool" and vb.k == "bool":
            return va.t == vb.t
        return to_int(va) == to_int(vb)

    def _run_simple(self, ev, s, st, log, keep_src=False):
        orig = ev.store
        orig_assign = ev.assign
        if ev is self.ev:
            if not keep_src:
                self._last_src = {}

            def logging_assign(lv, v, st_, src_ty=None):
                if lv[0] == "v":
                    self._last_src[lv[1]] = unconst(src_ty) if src_ty else None
                return orig_assign(lv, v, st_, src_ty)
            ev.assign = logging_assign

        def logging_store(arr, idx, v, st_, src_ty=None):
            log.append((arr, idx, v, src_ty))
            return orig(arr, idx, v, st_, src_ty)
        ev.store = logging_store
        try:
            if s[0] == "assign":
                v = ev.ev(s[2], st)
                if s[3] and s[1][0] == "v":
                    st.types[s[1][1]] = unconst(s[3])
                conv = s[2][0] == "cast" and s[2][3] != "noop"
                ev.assign(s[1], v, st, sym.expr_type(s[2]) if (ev is self.ev and not conv) else None)
            elif s[0] == "effect":
                ev.ev(s[1], st)
            else:
                raise Misaligned("not a simple statement: %s" % s[0])
        finally:
            ev.store = orig
            ev.assign = orig_assign

    def pair_stmt(self, c, p, st):
        kc, kp = c[0], p[0]
        line = c[-1]
        if kc in ("assign", "effect") and kp in ("assign", "effect"):
            return [("fall", self.simple_pair(c, p, st, line))]
        if kc == "if" and kp == "if":
            gc = to_bool(self.ev.ev(c[1], st))
            gp = to_bool(self.pev.ev(p[1], st))
            self.ob("E.cond", gc == gp, st, "if condition agrees", line)
            a, b = st.fork(), st.fork()
            a.assume(gc)
            b.assume(z3.Not(gc))
            return self.pair_block(c[2], p[2], a) + self.pair_block(c[3], p[3], b)
        if kc == "ret" and kp == "ret":
            rc, rp = c[1], p[1]
            if rc[0] == "failure" and rp[0] == "failure":
                return [(("ret", rc), st)]
            if rc[0] == "success" and rp[0] == "success":
                return [(("ret", rc), st)]
            raise Misaligned("return kinds differ: C %s vs definition %s (line %s)" % (rc[0], rp[0], line))
        if kc == "break" and kp == "break":
            return [("break", st)]
        if kc == "continue" and kp == "continue":
            return [("continue", st)]
        if kc == "loop" and kp == "loop":
            return self.pair_loop(c, p, st)
        raise Misaligned("statement kinds differ: C %s vs definition %s (C line %s)" % (kc, kp, line))

    def pair_loop(self, c, p, st):
        _, ccond, cbody, cinc, cid, line = c
        _, pcond, pbody, pinc, pid, _pl = p
        label = self.clabels.get(cid, "L?")
        # bring the increments to the same place
        if cinc and not pinc:
            if has_continue(cbody):
                raise Misaligned("C for-increment vs definition while with continue")
            cbody, cinc = cbody + cinc, []
        if pinc and not cinc:
            if has_continue(pbody):
                raise Misaligned("definition for-increment vs C while with continue")
            pbody, pinc = pbody + pinc, []
        entry = st.fork()
        mvc, mac = _modified_norm([ccond] + cbody + cinc)
        mvp, map_ = _modified_norm([pcond] + pbody + pinc)
        mv = mvc | mvp
        arrs_mod = set()
        for bname in mac | map_:
            if bname in st.arrs:
                arrs_mod.add(bname)
            elif bname in st.vars and st.vars[bname].k == "ptr" and st.vars[bname].arr in st.arrs:
                arrs_mod.add(st.vars[bname].arr)
            else:
                arrs_mod |= set(a for a in st.arrs if self.ev.writable.get(a, True))
        # a python for-loop variable must not be assigned in the body
        if pcond and pcond[0] == "pycond":
            pv = pcond[1]
            mb, _ = _modified_norm(pbody)
            if pv in mb:
                raise Misaligned("definition assigns its range variable")
        h = st.fork()
        ev = self.ev
        for v in sorted(mv):
            if v in h.vars and "$" not in v:
                old = h.vars[v]
                if old.k == "ptr":
                    h.vars[v] = Val(ev.fresh(v + "@" + label), "ptr", old.arr)
                elif old.k == "bool":
                    h.vars[v] = Val(ev.fresh(v + "@" + label, z3.BoolSort()), "bool")
                elif old.k == "flt":
                    h.vars[v] = Val(ev.fresh(v + "@" + label, sym.F), "flt")
                else:
                    t = ev.fresh(v + "@" + label)
                    h.vars[v] = Val(t, old.k)
                    ty = h.types.get(v)
                    if ty:
                        ev.range_fact(t, ty, h)
        for a in arrs_mod:
            h.arrs[a] = ev.fresh(a + "@" + label, ev.arr_sort(a))
        # C-side invariants established by the S run (same preconditions)
        if label in self.active:
            cands = self.candidates(label, st, mvc)
            for cid_ in sorted(self.active[label]):
                fn = cands.get(cid_)
                if fn is not None:
                    try:
                        h.assume(fn(h, entry))
                    except KeyError:
                        pass
        for src in self.c.loops.get(label, []):
            try:
                h.assume(self.se.boolean(src, h, init=self.init, entry=entry))
            except spec.SpecError:
                pass
        gc = self._cond(self.ev, ccond, h)
        gp = self._cond(self.pev, pcond, h)
        self.ob("E.cond", gc == gp, h, "loop %s condition agrees" % label, line)
        inside, outside = h.fork(), h.fork()
        inside.assume(gc)
        outside.assume(z3.Not(gc))
        res = self.pair_block(cbody, pbody, inside)
        exits, rets, conts = [outside], [], []
        for out, s in res:
            if out in ("fall", "continue"):
                conts.append(s)
            elif out == "break":
                exits.append(s)
            else:
                rets.append((out, s))
        if conts and (cinc or pinc):
            s = merge_states(conts)
            self.pair_block(cinc, pinc, s)
        return [("fall", e) for e in exits] + rets

    def _cond(self, ev, cond, h):
        if cond is None:
            return z3.BoolVal(True)
        if cond[0] == "pycond":
            _, var, hname, sname = cond
            i_, hi_, s_ = h.vars[var].t, h.vars[hname].t, h.vars[sname].t
            if z3.is_int_value(s_):
                return i_ < hi_ if s_.as_long() > 0 else i_ > hi_
            return z3.If(s_ > 0, i_ < hi_, i_ > hi_)
        return to_bool(ev.ev(cond, h))


def _modified_norm(stmts):
    """modified() over the normal form"""
    back = []

    def conv(s):
        k = s[0]
        if k == "assign":
            return ["expr", ["asg", s[1], s[2], "x"], s[-1]]
        if k == "effect":
            return ["expr", s[1], s[-1]]
        if k == "declare":
            return ["decl", s[1], s[2], None, s[-1]]
        if k == "if":
            return ["if", s[1], [conv(x) for x in s[2]], [conv(x) for x in s[3]], s[-1]]
        if k == "loop":
            cond = s[1] if s[1] and s[1][0] != "pycond" else None
            return ["while", cond or ["c", 1, "bool"], [conv(x) for x in s[2] + s[3]], s[-1]]
        if k == "pyrange":
            return ["decl", s[1] + "$hi", "py", None, s[-1]]
        return s
    for s in stmts:
        if s is None:
            continue
        if s and isinstance(s[0], str) and s[0] in ("assign", "effect", "declare", "if", "loop", "pyrange", "ret", "break", "continue"):
            back.append(conv(s))
        elif s and isinstance(s[0], str) and s[0] == "pycond":
            continue
        else:
            back.append(s)
    return vcgen.modified(back)
