"""run with /venv/bin/python (the only interpreter with PyYAML): kernel-specification.yml -> JSON"""
import sys, json, yaml
with open(sys.argv[1]) as f:
    d = yaml.safe_load(f)
json.dump(d, open(sys.argv[2], "w"))
