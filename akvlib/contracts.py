"""Loads the sidecar contracts: contracts/auto_extents.json (extents proposed by
akvlib.infer from the unchanged tree, reviewed, committed) merged with the
hand-written contracts in contracts/*.py (which win)."""
import glob, importlib.util, json, os

from .vcgen import Contract
from .cast import INT_TYPES, unconst

HERE = os.path.join(os.path.dirname(os.path.dirname(os.path.abspath(__file__))), "contracts")

# integer scalar parameters that may legitimately be negative (everything else is a length/offset/size: >= 0)
SIGNED_OK = {"at", "start", "stop", "step", "regular_start", "regular_stop", "identity", "which", "base",
             "fromwhich", "towhich", "regular_at", "low", "high"}


def default_nonneg(func):
    return ["%s >= 0" % n for n, t in func["params"] if unconst(t) in INT_TYPES and n not in SIGNED_OK]


class Registry:
    def __init__(self):
        self.manual = {}
        self.auto = json.load(open(os.path.join(HERE, "auto_extents.json")))
        self.lemmas = []
        self.munits = []
        for path in sorted(glob.glob(os.path.join(HERE, "*.py"))):
            spec = importlib.util.spec_from_file_location("akv_contracts_" + os.path.basename(path)[:-3], path)
            mod = importlib.util.module_from_spec(spec)
            mod.K = self._K
            mod.LEMMA = self._lemma
            spec.loader.exec_module(mod)

    def _K(self, name, **kw):
        if name in self.manual:
            raise ValueError("duplicate contract for %s" % name)
        kw["_src"] = "manual"
        self.manual[name] = kw

    def _lemma(self, name, **kw):
        kw["name"] = name
        self.lemmas.append(kw)

    def contract_for(self, func, symbol=None):
        """Contract for one implementation function (template name) specialised for the symbol"""
        name = func["name"]
        kw = dict(self.manual.get(name, {}))
        want_file = kw.pop("file", None)
        if want_file and os.path.basename(func.get("file", "")) != want_file:
            kw = {}       # a different template that happens to share the name (another translation unit)
        src = kw.pop("_src", None)
        auto = self.auto.get(name)
        ext = {}
        if auto:
            ext.update({a: e for a, e in auto.items() if e is not None})
        ext.update(kw.pop("extents", {}))
        params = {p for p, _ in func["params"]}
        ext = {a: e for a, e in ext.items() if a in params}
        req = list(kw.pop("requires", []))
        nonneg = kw.pop("nonneg", None)
        if nonneg is None:
            req = default_nonneg(func) + req
        else:
            req = ["%s >= 0" % n for n in nonneg] + req
        per_spec = kw.pop("per_spec", {})
        c = Contract(name, extents=ext, requires=req, **kw)
        c.source = src or ("auto" if auto else "none")
        if symbol:
            for pat, extra in per_spec.items():
                if pat in symbol:
                    for k2, v2 in extra.items():
                        cur = getattr(c, k2)
                        if isinstance(cur, list):
                            setattr(c, k2, cur + list(v2))
                        elif isinstance(cur, dict):
                            cur = dict(cur)
                            cur.update(v2)
                            setattr(c, k2, cur)
                        else:
                            setattr(c, k2, v2)
        return c
