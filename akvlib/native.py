"""Build the real CPU kernels of the working tree into a shared object and call
them through ctypes (used for replaying counterexamples and for the bounded
stand-ins).  Calls run in a child process so that a crash of the kernel
(SIGSEGV, SIGFPE, sanitizer abort) is an observation, not the end of the check."""
import ctypes, glob, hashlib, os, pickle, signal, struct, subprocess, sys, tempfile
from concurrent.futures import ThreadPoolExecutor

import numpy as np

from . import cast

KDIR = os.path.join(cast.REPO, "src", "cpu-kernels")
CXX = "g++"
CXXFLAGS = ["-std=c++11", "-O1", "-fPIC", '-DVERSION_INFO="1.4.0"', "-I" + os.path.join(cast.REPO, "include"), "-w"]
ASAN = ["-fsanitize=address,undefined", "-fno-omit-frame-pointer", "-g"]


def _tree_hash(extra=""):
    h = hashlib.sha1(extra.encode())
    for f in sorted(glob.glob(os.path.join(KDIR, "*.cpp"))):
        h.update(os.path.basename(f).encode())
        h.update(open(f, "rb").read())
    h.update(cast.header_hash().encode())
    return h.hexdigest()


def build_kernels(asan=False, jobs=16):
    """returns path of libkernels.so built from the current working tree (cached by content hash)"""
    flags = CXXFLAGS + (ASAN if asan else [])
    key = _tree_hash(" ".join(flags))
    outdir = os.path.join(cast.CACHE, "kbuild", key)
    so = os.path.join(outdir, "libkernels.so")
    if os.path.exists(so):
        return so
    os.makedirs(outdir, exist_ok=True)
    srcs = sorted(glob.glob(os.path.join(KDIR, "*.cpp")))

    def comp(src):
        obj = os.path.join(outdir, os.path.basename(src)[:-4] + ".o")
        p = subprocess.run([CXX] + flags + ["-c", src, "-o", obj], stdout=subprocess.PIPE, stderr=subprocess.PIPE)
        return src, obj, p.returncode, p.stderr.decode()[-2000:]

    objs, errs = [], []
    with ThreadPoolExecutor(jobs) as ex:
        for src, obj, rc, err in ex.map(comp, srcs):
            if rc != 0:
                errs.append((src, err))
            else:
                objs.append(obj)
    if errs:
        raise RuntimeError("kernel compilation failed: %s" % errs[:3])
    tmp = so + ".%d.tmp" % os.getpid()
    p = subprocess.run([CXX, "-shared"] + (ASAN if asan else []) + ["-o", tmp] + objs,
                       stdout=subprocess.PIPE, stderr=subprocess.PIPE)
    if p.returncode != 0:
        raise RuntimeError("link failed: %s" % p.stderr.decode()[-2000:])
    os.replace(tmp, so)
    for o in objs:
        try:
            os.remove(o)
        except OSError:
            pass
    return so


class Error(ctypes.Structure):
    _fields_ = [("str", ctypes.c_char_p), ("filename", ctypes.c_char_p),
                ("identity", ctypes.c_int64), ("attempt", ctypes.c_int64),
                ("pass_through", ctypes.c_bool)]


NP = {"bool": np.bool_, "int8_t": np.int8, "uint8_t": np.uint8, "int16_t": np.int16, "uint16_t": np.uint16,
      "int32_t": np.int32, "uint32_t": np.uint32, "int64_t": np.int64, "uint64_t": np.uint64,
      "float": np.float32, "double": np.float64}
CT = {"bool": ctypes.c_bool, "int8_t": ctypes.c_int8, "uint8_t": ctypes.c_uint8, "int16_t": ctypes.c_int16,
      "uint16_t": ctypes.c_uint16, "int32_t": ctypes.c_int32, "uint32_t": ctypes.c_uint32,
      "int64_t": ctypes.c_int64, "uint64_t": ctypes.c_uint64, "float": ctypes.c_float, "double": ctypes.c_double}


def parse_type(t):
    """'Const[List[int64_t]]' -> (depth, base)"""
    t = t.strip()
    if t.startswith("Const[") and t.endswith("]"):
        t = t[6:-1]
    depth = 0
    while t.startswith("List[") and t.endswith("]"):
        t = t[5:-1]
        depth += 1
    return depth, t


GUARD = 16   # guard elements on each side of every buffer


def call_kernel(lib, symbol, args, values):
    """args: YAML arg list; values: name -> python scalar | list | list of lists.
    returns dict(err=None|str, identity, attempt, arrays={name: list}, guard_ok=bool)"""
    fn = getattr(lib, symbol)
    fn.restype = Error
    cargs, bufs, argtypes = [], {}, []
    keep = []
    for a in args:
        depth, base = parse_type(a["type"])
        v = values[a["name"]]
        if depth == 0:
            argtypes.append(CT[base])
            cargs.append(CT[base](v))
        elif depth == 1:
            n = len(v)
            raw = np.empty(n + 2 * GUARD, dtype=NP[base])
            raw.view(np.uint8)[:] = 0xA5
            raw[GUARD:GUARD + n] = np.array(v, dtype=NP[base]) if n else np.array([], dtype=NP[base])
            bufs[a["name"]] = (raw, n)
            argtypes.append(ctypes.c_void_p)
            cargs.append(ctypes.c_void_p(raw.ctypes.data + GUARD * raw.itemsize))
        else:
            rows = []
            for row in v:
                n = len(row)
                raw = np.empty(n + 2 * GUARD, dtype=NP[base])
                raw.view(np.uint8)[:] = 0xA5
                raw[GUARD:GUARD + n] = np.array(row, dtype=NP[base]) if n else np.array([], dtype=NP[base])
                rows.append((raw, n))
            ptrs = (ctypes.c_void_p * max(1, len(rows)))(*[r.ctypes.data + GUARD * r.itemsize for r, _ in rows])
            keep.append(ptrs)
            bufs[a["name"]] = (rows, None)
            argtypes.append(ctypes.c_void_p)
            cargs.append(ctypes.cast(ptrs, ctypes.c_void_p))
    fn.argtypes = argtypes
    e = fn(*cargs)
    out = {"err": e.str.decode("utf-8", "replace") if e.str else None, "identity": e.identity,
           "attempt": e.attempt, "arrays": {}, "guard_ok": True}
    for name, (raw, n) in bufs.items():
        if n is None:
            res = []
            for r, m in raw:
                res.append(r[GUARD:GUARD + m].tolist())
                g = r.view(np.uint8)
                isz = r.itemsize
                if not (np.all(g[:GUARD * isz] == 0xA5) and np.all(g[(GUARD + m) * isz:] == 0xA5)):
                    out["guard_ok"] = False
            out["arrays"][name] = res
        else:
            out["arrays"][name] = raw[GUARD:GUARD + n].tolist()
            g = raw.view(np.uint8)
            isz = raw.itemsize
            if not (np.all(g[:GUARD * isz] == 0xA5) and np.all(g[(GUARD + n) * isz:] == 0xA5)):
                out["guard_ok"] = False
                out.setdefault("guard_bad", []).append(name)
    return out


def _child(so, rfd, wfd):
    lib = ctypes.CDLL(so)
    r = os.fdopen(rfd, "rb")
    w = os.fdopen(wfd, "wb")
    while True:
        try:
            job = pickle.load(r)
        except EOFError:
            break
        if job is None:
            break
        symbol, args, values = job
        try:
            res = call_kernel(lib, symbol, args, values)
        except Exception as ex:  # harness error, not a kernel fault
            res = {"harness_error": repr(ex)}
        pickle.dump(res, w)
        w.flush()
    os._exit(0)


class KernelRunner:
    """runs kernel calls in a forked child; a dying child is reported as {'crash': signal}"""

    def __init__(self, so, env=None):
        self.so = so
        self.pid = None
        self.env = env

    def _start(self):
        r1, w1 = os.pipe()
        r2, w2 = os.pipe()
        pid = os.fork()
        if pid == 0:
            os.close(w1)
            os.close(r2)
            try:
                devnull = os.open(os.devnull, os.O_WRONLY)
                os.dup2(devnull, 2)
            except OSError:
                pass
            _child(self.so, r1, w2)
            os._exit(0)
        os.close(r1)
        os.close(w2)
        self.pid = pid
        self.w = os.fdopen(w1, "wb")
        self.r = os.fdopen(r2, "rb")

    def call(self, symbol, args, values, timeout=20):
        if self.pid is None:
            self._start()
        try:
            pickle.dump((symbol, args, values), self.w)
            self.w.flush()
        except BrokenPipeError:
            return self._dead()
        import select
        rl, _, _ = select.select([self.r], [], [], timeout)
        if not rl:
            os.kill(self.pid, signal.SIGKILL)
            os.waitpid(self.pid, 0)
            self._close()
            return {"hang": True}
        try:
            return pickle.load(self.r)
        except (EOFError, pickle.UnpicklingError):
            return self._dead()

    def _dead(self):
        try:
            _, status = os.waitpid(self.pid, 0)
        except ChildProcessError:
            status = 0
        self._close()
        sig = os.WTERMSIG(status) if os.WIFSIGNALED(status) else None
        return {"crash": sig if sig is not None else "exit %d" % (os.WEXITSTATUS(status) if os.WIFEXITED(status) else -1)}

    def _close(self):
        for f in (getattr(self, "w", None), getattr(self, "r", None)):
            try:
                f.close()
            except Exception:
                pass
        self.pid = None

    def close(self):
        if self.pid is not None:
            try:
                pickle.dump(None, self.w)
                self.w.flush()
            except Exception:
                pass
            try:
                os.waitpid(self.pid, 0)
            except Exception:
                pass
            self._close()
