"""Engine M units for partitioned arrays (C18): the global-position -> (partition, local index) arithmetic."""
import copy, os, time

from . import cast, vcgen, munit, forth

IP = os.path.join(cast.REPO, "src", "libawkward", "partition", "IrregularlyPartitionedArray.cpp")
PA = os.path.join(cast.REPO, "src", "libawkward", "partition", "PartitionedArray.cpp")

TRUSTED = [
    "partition units: numpartitions() returns the number of entries of stops_ (constructor check partitions.size() == stops.size()); stops_ is non-decreasing and non-negative (class invariant assumed, not established by the constructor)",
    "VirtualArray / ArrayCache / ArrayGenerator behaviour over call histories, PartitionedArray::getitem_range* and repartition, and partition.py are not covered",
]

START = "ite(partitionid == 0, 0, stops_[partitionid - 1])"


def run_units():
    out = []
    consts = dict(cast.global_constants())
    r = cast.extract_file(IP, filt="IrregularlyPartitionedArray", tolerant=True)
    byname = {}
    for f in r["functions"]:
        byname.setdefault(f["name"], f)
    pre = ["nparts >= 0", "forall(q, 0, nparts, stops_[q] >= 0)",
           "forall(a_, 0, nparts, forall(b_, a_, nparts, stops_[a_] <= stops_[b_]))"]
    calls = {"this.numpartitions": {"requires": [], "havoc": [], "ensures": ["result == nparts"]}}
    specs = {
        "partitionid_index_at": (pre, {
            "ret": ["implies(at < 0, partitionid == -1 and index == -1)",
                    "implies(at >= 0 and (nparts == 0 or at >= stops_[nparts - 1]), partitionid == nparts and index == 0)",
                    "implies(at >= 0 and nparts > 0 and at < stops_[nparts - 1], 0 <= partitionid and partitionid < nparts)",
                    "implies(at >= 0 and nparts > 0 and at < stops_[nparts - 1], %s <= at and at < stops_[partitionid] and index == at - %s)" % (START, START),
                    "implies(at >= 0 and nparts > 0 and at < stops_[nparts - 1], forall(q, 0, partitionid, stops_[q] <= at))"]},
            {"L0": ["0 <= i", "i <= nparts", "start == ite(i == 0, 0, stops_[i - 1])", "forall(q, 0, i, stops_[q] <= at)", "at >= 0"]}),
        "start": (pre + ["0 <= partitionid <= nparts"], {"ret": ["result == ite(partitionid == 0, 0, stops_[partitionid - 1])"]}, {}),
        "stop": (pre + ["0 <= partitionid < nparts"], {"ret": ["result == stops_[partitionid]"]}, {}),
    }
    for name, (req, on_exit, loops) in specs.items():
        t0 = time.time()
        res = {"unit": "IrregularlyPartitionedArray::" + name, "obligations": [], "errors": []}
        f = byname.get(name)
        if f is None or f.get("body") is None:
            res["errors"].append("method not found / not translatable")
            out.append(res)
            continue
        variables = [("stops_", "x:std::vector<long>"), ("nparts", "i64")] + \
                    [(pn, "i64" if (pt.startswith("r:") or pt.startswith("x:")) else pt) for pn, pt in f["params"]]
        c = vcgen.Contract(name, requires=list(req), nonneg=[], calls=calls, extents={"stops_": "nparts"}, loops=loops)
        oe = dict(on_exit)
        oe.setdefault("fall", oe.get("ret", []))
        try:
            u, _ = vcgen.houdini(lambda act: munit.MUnit(name, copy.deepcopy(f["body"]), variables, c, consts, {}, {},
                                                          ret=f.get("ret", "void"), on_exit=oe, active=act), timeout_ms=3000)
            forth._finish(res, u, t0)
        except Exception:
            import traceback
            res["errors"].append("crash: " + traceback.format_exc()[-1200:])
        out.append(res)
    # PartitionedArray::getitem_at: Python-style wrap of a negative position, error iff out of range,
    # and the position handed on is the wrapped one (callee contracts: length() == total >= 0)
    r2 = cast.extract_file(PA, filt="PartitionedArray", tolerant=True)
    f = None
    for g in r2["functions"]:
        if g["name"] == "getitem_at" and g.get("body") is not None:
            f = g
    t0 = time.time()
    res = {"unit": "PartitionedArray::getitem_at", "obligations": [], "errors": []}
    if f is None:
        res["errors"].append("method not found / not translatable")
    else:
        variables = [("total", "i64")] + [(pn, "i64") for pn, pt in f["params"]]
        calls2 = {"this.length": {"requires": [], "havoc": [], "ensures": ["result == total"]},
                  "this.getitem_at_nowrap": {"requires": ["0 <= arg0 and arg0 < total", "arg0 == ite(at < 0, at + total, at)"],
                                             "havoc": [], "ensures": []}}
        c = vcgen.Contract("getitem_at", requires=["total >= 0"], nonneg=[], calls=calls2)
        oe = {"throw": ["not (0 - total <= at and at < total)"], "ret": ["0 - total <= at and at < total"]}
        oe["fall"] = oe["ret"]
        try:
            u, _ = vcgen.houdini(lambda act: munit.MUnit("getitem_at", copy.deepcopy(f["body"]), variables, c, consts, {}, {},
                                                          ret="x:ptr", on_exit=oe, active=act), timeout_ms=3000)
            forth._finish(res, u, t0)
        except Exception:
            import traceback
            res["errors"].append("crash: " + traceback.format_exc()[-1200:])
    out.append(res)
    return out


def engine(pid, tier, seed, known):
    res = run_units()
    out = {"obligations": [], "functions": {}, "errors": [], "notes": [], "bounded": [], "coverage": {"partition_units": len(res)}}
    for r in res:
        out["functions"][r["unit"]] = {"obligations": len(r["obligations"]), "exits": r.get("exits")}
        for e in r["errors"]:
            out["errors"].append("%s: %s" % (r["unit"], e))
        out["obligations"].extend(r["obligations"])
    return out


if __name__ == "__main__":
    import sys
    for r in run_units():
        bad = [o for o in r["obligations"] if o["status"] != "proved"]
        print(r["unit"], len(r["obligations"]), "obligations", len(bad), "not proved", r.get("exits"), r["errors"][:2])
        for o in bad:
            print("   ", o["status"], o["kind"], o["line"], o["desc"][:200])
            if "-v" in sys.argv and o["model"]:
                print("      ", o["model"][:1200].replace("\n", "\n       "))
