"""Engine G (AST based): the libawkward methods that size buffers and call kernels are executed symbolically
-- path conditions included -- and every kernel call is checked against the callee's contract:
  G.extent   each pointer argument has at least the number of elements the kernel's contract requires
             (instantiated with the actual scalar arguments)
  G.scalar   each scalar precondition of the kernel (e.g. lenstarts >= 1, outlength >= 1) holds at the call

Objects the translator does not model (shared_ptr<Content>, std::vector, strings, exceptions) are opaque:
an unknown expression evaluates to a fresh value, which over-approximates the caller.  A *proved* obligation
is therefore sound; a refuted one may be an artefact of the over-approximation.  Hence the baseline
contracts/g_calls.json: the obligations that hold on the unchanged tree are listed there; each must still be
generated and proved, a listed obligation that becomes refuted is a violation; unlisted ones that do not
prove are reported as undecided call sites and never raise an alarm (unless they are known findings).

  G.method   every recursive call of reduce_next / sort_next / argsort_next / getitem_next passes Index objects of the
             length the callee assumes, and (axis, depth) methods pass depth + 1 exactly from a list class to its content
  G.construct  every layout node constructed in libawkward satisfies the length rules validityerror() checks
             (len(content) >= len(mask), len(mask) * 8 >= length, len(stops) >= len(starts), len(offsets) >= 1,
             len(index) >= len(tags)), assuming *this obeys them

Class invariants used (from the constructors' own checks, plus the length rules of validity for the mask classes): ListArray stops.length() >= starts.length();
ListOffsetArray offsets.length() >= 1; UnionArray index.length() >= tags.length(); RegularArray size >= 0,
length >= 0; every length() is >= 0."""
import copy, glob, json, os, re, time
from concurrent.futures import ProcessPoolExecutor

import z3

from . import cast, vcgen, munit, sym, spec, contracts as contracts_mod, gsite
from .sym import Val, State, EvalError, to_int, to_bool, IV
from .cast import INT_TYPES, unconst

LIB = os.path.join(cast.REPO, "src", "libawkward")
BASELINE = os.path.join(cast.VERIF, "contracts", "g_calls.json")

CLASSES = [
    ("array/ListArray.cpp", "ListArrayOf", ["i64"]),
    ("array/ListOffsetArray.cpp", "ListOffsetArrayOf", ["i64"]),
    ("array/IndexedArray.cpp", "IndexedArrayOf", ["i64", "1"]),
    ("array/IndexedArray.cpp", "IndexedArrayOf", ["i64", "0"]),
    ("array/UnionArray.cpp", "UnionArrayOf", ["i8", "i64"]),
    ("array/RegularArray.cpp", "RegularArray", None),
    ("array/ByteMaskedArray.cpp", "ByteMaskedArray", None),
    ("array/BitMaskedArray.cpp", "BitMaskedArray", None),
    ("array/UnmaskedArray.cpp", "UnmaskedArray", None),
    ("array/RecordArray.cpp", "RecordArray", None),
    ("array/NumpyArray.cpp", "NumpyArray", None),
    ("Content.cpp", "Content", None),
    ("Index.cpp", "IndexOf", ["i64"]),
    ("Identities.cpp", "IdentitiesOf", ["i64"]),
]

INVARIANTS = {
    "ListArrayOf": ["len:stops_ >= len:starts_"],
    "ListOffsetArrayOf": ["len:offsets_ >= 1"],
    "UnionArrayOf": ["len:index_ >= len:tags_"],
    "RegularArray": ["size_ >= 0", "length_ >= 0"],
    # length rules of validityerror() that the constructors do not check: *this is assumed VALID (C11/C12 speak
    # about operations on valid arrays)
    "ByteMaskedArray": ["clen:content_ >= len:mask_"],
    "BitMaskedArray": ["length_ >= 0", "clen:content_ >= length_", "len8:mask_ >= length_"],
}

# Contracts of the recursive virtual methods (lengths only).  Inside a method body they are ASSUMED (METHOD_PRE /
# VMETHODS pre); at every call `x->method(...)` found in libawkward they are CHECKED (G.method) with length(x) taken
# from the content-length model (carry(i) has len(i) elements, getitem_range_nowrap(a, b) has b - a, ...).
VMETHODS = {
    "reduce_next": {"params": ["reducer", "negaxis", "starts", "shifts", "parents", "outlength", "mask", "keepdims"],
                    "pre": [("len(parents) == length(this)", lambda a: a["len:parents"] == a["this.length"]),
                            ("len(starts) == outlength", lambda a: a["len:starts"] == a["outlength"]),
                            ("outlength >= 0", lambda a: a["outlength"] >= 0)]},
    "sort_next": {"params": ["negaxis", "starts", "parents", "outlength", "ascending", "stable"],
                  "pre": [("len(parents) == length(this)", lambda a: a["len:parents"] == a["this.length"]),
                          ("outlength >= 0", lambda a: a["outlength"] >= 0)]},
    "getitem_next": {"params": ["*", "tail", "advanced"],
                     "pre": [("len(advanced) == 0 or len(advanced) == length(this)",
                              lambda a: z3.Or(a["len:advanced"] == 0, a["len:advanced"] == a["this.length"]))]},
    "argsort_next": {"params": ["negaxis", "starts", "shifts", "parents", "outlength", "ascending", "stable"],
                     "pre": [("len(parents) == length(this)", lambda a: a["len:parents"] == a["this.length"]),
                             ("outlength >= 0", lambda a: a["outlength"] >= 0)]},
}

# Length-level validity rules at every place where libawkward constructs a layout node (G.construct): what
# validityerror() checks about lengths must hold for the node being built, for all inputs of the constructing method.
def _layout_class(ty):
    m = re.search(r"awkward::(ByteMaskedArray|BitMaskedArray|UnmaskedArray|ListOffsetArrayOf|ListArrayOf|IndexedArrayOf|RegularArray|UnionArrayOf)\b", ty or "")
    return m.group(1) if m else None


CONSTRUCT = {
    "ByteMaskedArray": {"args": ["identities", "parameters", "mask", "content", "valid_when"],
                        "rules": [("len(content) >= len(mask)", lambda a: a["clen:content"] >= a["len:mask"])],
                        "length": lambda a: a["len:mask"]},
    "BitMaskedArray": {"args": ["identities", "parameters", "mask", "content", "valid_when", "length", "lsb_order"],
                       "rules": [("len(mask) * 8 >= length", lambda a: a["len:mask"] * 8 >= a["length"]),
                                 ("len(content) >= length", lambda a: a["clen:content"] >= a["length"])],
                       "length": lambda a: a["length"]},
    "UnmaskedArray": {"args": ["identities", "parameters", "content"], "rules": [], "length": lambda a: a["clen:content"]},
    "ListOffsetArrayOf": {"args": ["identities", "parameters", "offsets", "content"],
                          "rules": [("len(offsets) >= 1", lambda a: a["len:offsets"] >= 1)],
                          "length": lambda a: a["len:offsets"] - 1},
    "ListArrayOf": {"args": ["identities", "parameters", "starts", "stops", "content"],
                    "rules": [("len(stops) >= len(starts)", lambda a: a["len:stops"] >= a["len:starts"])],
                    "length": lambda a: a["len:starts"]},
    "IndexedArrayOf": {"args": ["identities", "parameters", "index", "content"], "rules": [], "length": lambda a: a["len:index"]},
    "UnionArrayOf": {"args": ["identities", "parameters", "tags", "index", "contents"],
                     "rules": [("len(index) >= len(tags)", lambda a: a["len:index"] >= a["len:tags"])],
                     "length": lambda a: a["len:tags"]},
}


# methods that recurse with (axis, depth): a list class passes depth + 1 to its content, every other class passes depth;
# a call on a conversion of *this passes depth unchanged (G.method "depth")
DEPTH_METHODS = {"num": 1, "offsets_and_flattened": 1, "localindex": 1, "rpad": 2, "rpad_and_clip": 2, "combinations": 5}   # index of `depth`
LIST_CLASSES = ("ListArrayOf", "ListOffsetArrayOf", "RegularArray")

# preconditions of virtual methods (stated once; their call sites are glue and are not checked here)
METHOD_PRE = {
    "reduce_next": ["outlength >= 0", "negaxis >= 1"],
    "sort_next": ["outlength >= 0", "negaxis >= 1"],
    "argsort_next": ["outlength >= 0", "negaxis >= 1"],
    "rpad": [], "rpad_and_clip": [],
    "getitem_range_nowrap": ["start >= 0", "stop >= start"],
    "combinations": ["n >= 1"],
}

INDEX_TYPE = re.compile(r"x:(?:awkward::)?(?:IndexOf<([^>]*)>|Index(64|32|U32|8|U8))$")
ELEM = {"int64_t": "i64", "long": "i64", "int": "i32", "int32_t": "i32", "unsigned int": "u32", "uint32_t": "u32",
        "signed char": "i8", "int8_t": "i8", "unsigned char": "u8", "uint8_t": "u8", "64": "i64", "32": "i32", "U32": "u32",
        "8": "i8", "U8": "u8"}
SIZEOF = {"long": 8, "int64_t": 8, "unsigned long": 8, "int": 4, "unsigned int": 4, "short": 2, "unsigned short": 2,
          "signed char": 1, "unsigned char": 1, "char": 1, "bool": 1, "float": 4, "double": 8, "int32_t": 4, "uint32_t": 4,
          "int8_t": 1, "uint8_t": 1, "int16_t": 2, "uint16_t": 2, "uint64_t": 8}


def index_elem(ty):
    m = INDEX_TYPE.match(ty or "")
    if not m:
        return None
    return ELEM.get((m.group(1) or m.group(2) or "").strip(), "i64")


# conversions that return an array of the same length as the one they are called on
SAME_LENGTH_METHODS = ("shallow_copy", "deep_copy", "shallow_simplify", "toListOffsetArray64", "toRegularArray",
                       "simplify_optiontype", "simplify_uniontype", "toIndexedOptionArray64", "toByteMaskedArray",
                       "getitem_field", "getitem_fields", "numbers_to_type", "copy_to")


def vm_params_match(vm, names):
    want = vm["params"]
    if len(want) != len(names):
        return False
    return all(w == "*" or w == n for w, n in zip(want, names))


class CallerUnit(munit.MUnit):
    def __init__(self, label, stmts, params, fields, consts, methods, enums, kernels, reg, KI, clsname, active=None):
        variables = []
        for n, t in params:
            tt = unconst(t[2:] if t.startswith("r:") else t)
            if tt in INT_TYPES or tt == "bool":
                variables.append((n, tt))
        for n, t in fields:
            if unconst(t) in INT_TYPES or unconst(t) == "bool":
                variables.append((n, unconst(t)))
        c = vcgen.Contract(label, requires=[], nonneg=[])
        super().__init__(label, stmts, variables, c, consts, methods, enums, active=active)
        self.kernels = kernels          # kernel::NAME -> list of (targs, dispatch entry)
        self.reg = reg
        self.KI = KI
        self.clsname = clsname
        self.objlen = {}                # object key -> z3 Int length
        self.stable = {}                # json text of a pure getter expression -> value
        self.field_types = dict(fields)
        self.param_types = {n: t for n, t in params}
        self.sites = []                 # result records
        self.callno = 0
        # static ordinals of call sites: the k-th textual occurrence (by source line) of a call to the same kernel or
        # virtual method inside this method body.  Keys built from them survive reordering of OTHER calls and do not
        # depend on the path taken.
        self.site_ordinal = {}
        occ = {}

        def walk(node, line):
            if not isinstance(node, list):
                return
            if node and isinstance(node[0], str) and node[0] in ("decl", "expr", "if", "for", "while", "dowhile", "ret", "block") \
                    and isinstance(node[-1], int):
                line = node[-1]
            if node and node[0] == "call" and isinstance(node[1], str) and node[1] in kernels:
                occ.setdefault(node[1], set()).add(line)
            if node and node[0] == "call" and node[1] == "make_shared" and _layout_class(node[-1] if isinstance(node[-1], str) else "") in CONSTRUCT:
                occ.setdefault("construct:" + _layout_class(node[-1]), set()).add(line)
            if node and node[0] == "construct" and isinstance(node[1], str) and not node[1].startswith("x:std::") and _layout_class(node[1]) in CONSTRUCT:
                occ.setdefault("construct:" + _layout_class(node[1]), set()).add(line)
            if node and node[0] == "mcall" and len(node) > 2 and isinstance(node[2], str) and (node[2] in VMETHODS or node[2] in DEPTH_METHODS):
                occ.setdefault("method:" + node[2], set()).add(line)
            for x in node:
                walk(x, line)
        walk(stmts, None)
        for nm, lines in occ.items():
            for k, ln in enumerate(sorted(l for l in lines if l is not None), 1):
                self.site_ordinal[(nm, ln)] = k
        self.ev.ev_v = self.ev_var
        self.ev.ev_mcall = self.ev_mcall2
        self.ev.ev_construct = self.ev_construct
        self.ev.ev_unsupported = lambda e, st: self.opaque_value(e[-1], st, "unsupported")
        self.ev.ev_opcall = lambda e, st: self.opaque_value(e[-1], st, "op")
        self.ev.ev_member = lambda e, st: self.opaque_value(e[-1], st, "member")
        self.ev.ev_throw = lambda e, st: self._throw(st)
        self.ev.ev_initlist = lambda e, st: self.opaque_value(e[-1], st, "init")
        self.ev.ev_str = lambda e, st: Val(IV(0), "opaque")
        self.ev.emit_safety = False
        self.clen = {}
        self.fallback = {}
        self.corigin = {}               # opaque Content id -> "content" (the content_ field or derived from it) | "this"

    # ---- objects
    def new_object(self, key, length, ety, st):
        self.ev.elem[key] = ety or "i64"
        self.ev.writable[key] = True
        st.arrs[key] = self.ev.fresh(key, self.ev.arr_sort(key))
        self.objlen[key] = length
        self.ev.extents[key] = length
        return Val(IV(0), "obj", key)

    def ev_var(self, e, st):
        name, ty = e[1], e[2]
        if name in st.vars:
            return st.vars[name]
        if name in self.consts:
            return Val(IV(self.consts[name]), "int")
        ety = index_elem(ty)
        if ety is not None:
            ln = z3.Int("len:%s" % name)
            st.assume(ln >= 0)
            v = self.new_object(name, ln, ety, st)
            st.vars[name] = v
            return v
        t = unconst(ty) if isinstance(ty, str) else "i64"
        v = self.opaque_value(t, st, name)
        if name == "content_" and v.k == "opaque" and z3.is_int_value(v.t):
            self.corigin[v.t.as_long()] = "content"
        st.vars[name] = v
        return v

    def opaque_value(self, ty, st, hint):
        ty = unconst(ty) if isinstance(ty, str) else "i64"
        if ty.startswith("r:"):
            ty = unconst(ty[2:])
        ety = index_elem(ty)
        if ety is not None:
            self.ext_counter += 1
            ln = self.ev.fresh("len_%s" % hint)
            st.assume(ln >= 0)
            return self.new_object("obj%d_%s" % (self.ext_counter, hint), ln, ety, st)
        if ty.startswith("x:"):
            self.ext_counter += 1
            return Val(IV(self.ext_counter), "opaque")
        return super().opaque_value(ty, st, hint)

    def ev_construct(self, e, st):
        _, ty, args, _t = e
        if isinstance(ty, str) and not ty.startswith("x:std::") and _layout_class(ty) in CONSTRUCT and len(args) >= 3:
            v = self.construct_layout(_layout_class(ty), args, st)
            if v is not None:
                return v
        ety = index_elem(ty)
        if ety is not None and args:
            a0 = self.ev.ev(args[0], st)
            if a0.k == "obj":
                return a0
            if a0.k in ("int", "bool"):
                self.ext_counter += 1
                return self.new_object("new%d" % self.ext_counter, to_int(a0), ety, st)
        for a in args:
            try:
                v = self.ev.ev(a, st)
                if len(args) == 1 and v.k == "obj":
                    return v
            except EvalError:
                pass
        return self.opaque_value(ty, st, "obj")

    THIS_LENGTH = {"UnmaskedArray": ("content", "content_"), "ByteMaskedArray": ("len", "mask_"), "BitMaskedArray": ("field", "length_"),
                   "IndexedArrayOf": ("len", "index_"), "ListOffsetArrayOf": ("len-1", "offsets_"), "ListArrayOf": ("len", "starts_"),
                   "RegularArray": ("field", "length_"), "RecordArray": ("field", "length_"), "UnionArrayOf": ("len", "tags_")}

    def this_length(self, st):
        """length() of *this in terms of the object model (None when the class is not in the table)"""
        how = self.THIS_LENGTH.get(self.clsname)
        if how is None:
            # length() is not a simple function of the modelled fields (NumpyArray: shape_[0]): one stable unknown
            v = self.stable_value(["call", "this.length", [], "i64"], "i64", st, "length")
            return v.t if v.k == "int" else None
        kind, fld = how
        ty = self.field_types.get(fld) or {"content_": "x:std::shared_ptr<awkward::Content>", "mask_": "x:awkward::Index8",
                                            "index_": "x:awkward::Index64", "offsets_": "x:awkward::Index64",
                                            "starts_": "x:awkward::Index64", "tags_": "x:awkward::Index8"}.get(fld)
        if kind == "field":
            if fld not in st.vars:
                v = z3.Int(fld)
                st.vars[fld] = Val(v, "int")
            st.assume(st.vars[fld].t >= 0)
            return st.vars[fld].t
        if ty is None:
            return None
        v = self.ev_var(["v", fld, ty], st)
        if kind == "content":
            if v.k == "opaque" and z3.is_int_value(v.t):
                return self.content_len(v.t.as_long(), st)
            return None
        if v.k != "obj":
            return None
        return self.objlen[v.arr] - 1 if kind == "len-1" else self.objlen[v.arr]

    def content_len(self, oid, st):
        if oid not in self.clen:
            t = self.ev.fresh("clen%d" % oid)
            self.clen[oid] = t
        st.assume(self.clen[oid] >= 0)
        return self.clen[oid]

    def new_content(self, length, st, origin=None):
        self.ext_counter += 1
        self.clen[self.ext_counter] = length
        if origin is not None:
            self.corigin[self.ext_counter] = origin
        return Val(IV(self.ext_counter), "opaque")

    def site_number(self, name):
        """static ordinal of this call site (k-th textual call of `name` in the method); sites inside inlined helper
        bodies have no static ordinal: numbered 101, 102, ... per name and source line, in order of first visit"""
        k = self.site_ordinal.get((name, self.ev.line))
        if k is not None:
            return k
        fb = self.fallback.setdefault(name, {})
        if self.ev.line not in fb:
            fb[self.ev.line] = 101 + len(fb)
        return fb[self.ev.line]

    def construct_layout(self, cls, args, st):
        """G.construct obligations for `new cls(args...)`; returns a Content value with the constructed node's length"""
        spec_ = CONSTRUCT[cls]
        if len(args) < len(spec_["args"]):
            return None
        env = {}
        for pname, a in zip(spec_["args"], args):
            try:
                v = self.ev.ev(a, st)
            except EvalError:
                continue
            if v.k == "obj":
                env["len:" + pname] = self.objlen[v.arr]
            elif v.k == "opaque" and z3.is_int_value(v.t) and pname == "content":
                env["clen:content"] = self.content_len(v.t.as_long(), st)
            elif v.k in ("int", "bool"):
                env[pname] = to_int(v)
        self.vcallno = getattr(self, "vcallno", 0) + 1
        key = "construct:" + cls
        rec_base = {"kernel": key, "line": self.ev.line, "n": self.site_number(key)}
        for desc, fn in spec_["rules"]:
            try:
                claim = fn(env)
            except KeyError:
                self.sites.append(dict(rec_base, param=desc, kind="G.construct", status="unknown",
                                       desc="%s when constructing %s: an argument is not modelled" % (desc, cls)))
                continue
            self.emit(rec_base, "G.construct", desc, claim, st, "constructing %s: %s" % (cls, desc))
        try:
            return self.new_content(spec_["length"](env), st)
        except KeyError:
            return None

    def check_depth(self, name, oid, args, st):
        """G.method depth: the depth handed to the recursive call is this method's depth plus one exactly when the call
        descends from a list class into its content"""
        k = DEPTH_METHODS[name]
        origin = self.corigin.get(oid)
        if origin is None or len(args) <= k or "depth" not in st.vars or st.vars["depth"].k != "int":
            return
        try:
            d = to_int(self.ev.ev(args[k], st))
        except EvalError:
            return
        step = 1 if (origin == "content" and self.clsname in LIST_CLASSES) else 0
        self.vcallno = getattr(self, "vcallno", 0) + 1
        rec_base = {"kernel": "method:" + name, "line": self.ev.line, "n": self.site_number("method:" + name)}
        self.emit(rec_base, "G.method", "depth == depth + %d" % step, d == st.vars["depth"].t + step, st,
                  "call of %s on %s: passes depth + %d" % (name, "the content" if origin == "content" else "a conversion of *this", step))

    def check_vmethod(self, name, this_len, args, e, st):
        """G.method: the arguments of a recursive virtual call satisfy the callee's (length) preconditions"""
        vm = VMETHODS[name]
        if len(args) != len(vm["params"]):
            return
        self.vcallno = getattr(self, "vcallno", 0) + 1
        env = {"this.length": this_len}
        for p, a in zip(vm["params"], args):
            if p == "*":
                continue
            try:
                v = self.ev.ev(a, st)
            except EvalError:
                continue
            if v.k == "obj":
                env["len:" + p] = self.objlen[v.arr]
            elif v.k in ("int", "bool"):
                env[p] = to_int(v)
        rec_base = {"kernel": "method:" + name, "line": self.ev.line, "n": self.site_number("method:" + name)}
        for desc, fn in vm["pre"]:
            try:
                claim = fn(env)
            except KeyError:
                self.sites.append(dict(rec_base, param=desc, kind="G.method", status="unknown",
                                       desc="%s at a call of %s: an argument is not modelled" % (desc, name)))
                continue
            self.emit(rec_base, "G.method", desc, claim, st, "call of %s: %s" % (name, desc))

    def _throw(self, st):
        self.exits.append(("throw", "throw", st.fork()))
        st.assume(z3.BoolVal(False))
        return Val(IV(0), "opaque")

    def stable_value(self, e, ty, st, hint):
        key = json.dumps(e)
        if key not in self.stable:
            v = self.opaque_value(ty, st, hint)
            if v.k == "int" and hint in ("length", "size"):
                st.assume(v.t >= 0)
            self.stable[key] = v
        v = self.stable[key]
        if v.k == "int" and hint in ("length", "size"):
            st.assume(v.t >= 0)
        return v

    def ev_mcall2(self, e, st):
        _, obj, name, args, ty = e
        try:
            o = self.ev.ev(obj, st)
        except EvalError:
            o = Val(IV(0), "opaque")
        if o.k == "obj":
            if name == "length" and not args:
                return Val(self.objlen[o.arr], "int")
            if name in ("deep_copy", "copy_to", "shallow_copy", "to64") :
                self.ext_counter += 1
                return self.new_object("%s%d" % (name, self.ext_counter), self.objlen[o.arr], self.ev.elem.get(o.arr, "i64"), st)
            if name == "is_empty_advanced" and not args:
                return Val(self.objlen[o.arr] == 0, "bool")
            if name in ("data", "get") and not args:
                return Val(IV(0), "ptr", o.arr)
            if name == "ptr" and not args:
                return o
            if name == "getitem_at_nowrap" and len(args) == 1:
                i = to_int(self.ev.ev(args[0], st))
                t = z3.Select(st.arrs[o.arr], i)
                return Val(t, "int")
            if name in ("setitem_at_nowrap",) and len(args) == 2:
                i = to_int(self.ev.ev(args[0], st))
                v = self.ev.ev(args[1], st)
                st.arrs[o.arr] = z3.Store(st.arrs[o.arr], i, to_int(v))
                return Val(IV(0), "opaque")
            if name in ("getitem_range_nowrap",) and len(args) == 2:
                a, b = to_int(self.ev.ev(args[0], st)), to_int(self.ev.ev(args[1], st))
                self.ext_counter += 1
                return self.new_object("slice%d" % self.ext_counter, b - a, self.ev.elem.get(o.arr, "i64"), st)
        if o.k == "ptr" and name == "get":
            return o
        if o.k == "opaque" and z3.is_int_value(o.t):
            # a Content (or other opaque) object: identity is kept through .get(); its length is one stable unknown;
            # results of carry / getitem_range_nowrap have the lengths those methods document
            oid = o.t.as_long()
            if name == "get" and not args:
                return o
            if name == "length" and not args:
                return Val(self.content_len(oid, st), "int")
            if name in VMETHODS:
                self.check_vmethod(name, self.content_len(oid, st), args, e, st)
            if name in DEPTH_METHODS:
                self.check_depth(name, oid, args, st)
            org = self.corigin.get(oid)
            if name == "carry" and len(args) >= 1:
                try:
                    idx = self.ev.ev(args[0], st)
                except EvalError:
                    idx = None
                if idx is not None and idx.k == "obj":
                    return self.new_content(self.objlen[idx.arr], st, org)
            if name == "getitem_range_nowrap" and len(args) == 2:
                try:
                    a, b = to_int(self.ev.ev(args[0], st)), to_int(self.ev.ev(args[1], st))
                    return self.new_content(b - a, st, org)
                except EvalError:
                    pass
            if name in SAME_LENGTH_METHODS:
                return self.new_content(self.content_len(oid, st), st, org)
        # pure getters on opaque objects are stable: same text, same value
        if not args and name in ("length", "size", "get", "numfields", "numcontents", "ndim", "itemsize", "purelist_depth",
                                 "isscalar", "istuple", "dtype", "format", "ptr_lib", "byteoffset", "bytelength"):
            return self.stable_value(e, ty, st, name)
        for a in args:
            try:
                self.ev.ev(a, st)
            except EvalError:
                pass
        self.external_effects(args, st)
        return self.opaque_value(ty, st, "ret_" + str(name))

    # ---- calls
    def call(self, ev, e, st):
        name, args, ty = e[1], e[2], e[3]
        if name in self.kernels and args:
            return self.kernel_call(name, args, e, st)
        if name == "malloc" and len(args) == 2:
            nbytes = to_int(self.ev.ev(args[1], st))
            m = re.search(r"shared_ptr<([^>]*)>", ty or "")
            sz = SIZEOF.get((m.group(1) if m else "").strip(), 1)
            self.ext_counter += 1
            ety = ELEM.get((m.group(1) if m else "").strip(), "i64")
            q = self.ev.fresh("mallocn")
            st.assume(z3.And(q * sz <= nbytes, nbytes < (q + 1) * sz))
            return self.new_object("malloc%d" % self.ext_counter, q, ety, st)
        if name in ("make_starts", "make_stops", "util::make_starts", "util::make_stops") and len(args) == 1:
            # util::make_starts(offsets) / make_stops(offsets): views of len(offsets) - 1 elements (values not related here)
            try:
                o = self.ev.ev(args[0], st)
            except EvalError:
                o = None
            if o is not None and o.k == "obj":
                self.ext_counter += 1
                return self.new_object("%s%d" % (name.split(":")[-1], self.ext_counter), self.objlen[o.arr] - 1,
                                       self.ev.elem.get(o.arr, "i64"), st)
        if name == "handle_error":
            for a in args:
                try:
                    self.ev.ev(a, st)
                except EvalError:
                    pass
            return Val(IV(0), "opaque")       # continue on the success path
        if name == "failure" or name == "success":
            return Val(IV(0), "opaque")
        if name == "make_shared" and _layout_class(ty) in CONSTRUCT:
            v = self.construct_layout(_layout_class(ty), args, st)
            if v is not None:
                return v
        if name in ("make_shared", "move", "dynamic_pointer_cast", "to_string", "string"):
            vals = []
            for a in args:
                try:
                    vals.append(self.ev.ev(a, st))
                except EvalError:
                    pass
            if len(vals) == 1 and vals[0].k == "obj":
                return vals[0]
            return self.opaque_value(ty, st, name)
        if name == "this.length" and not args:
            tl = self.this_length(st)
            if tl is not None:
                return Val(tl, "int")
        if name.startswith("this.") and name[5:] in SAME_LENGTH_METHODS:
            # analysed like any other call (their bodies may contain kernel calls); the result has this array's length
            v = self._call_rest(ev, e, st)
            tl = self.this_length(st)
            if tl is not None:
                return self.new_content(tl, st, "this")
            return v
        return self._call_rest(ev, e, st)

    def _call_rest(self, ev, e, st):
        name, args, ty = e[1], e[2], e[3]
        if name.startswith("this.") and not args:
            ms = self.methods.get(name[5:])
            if not ms or ms[0].get("body") is None or not self.simple_body(ms[0]["body"]):
                return self.stable_value(e, ty, st, name[5:])
        return super().call(ev, e, st)

    def kernel_call(self, name, args, e, st):
        self.callno += 1
        d = self.kernels[name]
        params = d["params"]
        actual = args[1:]            # first argument is ptr_lib
        rec_base = {"kernel": name, "line": self.ev.line, "n": self.site_number(name)}
        if len(actual) != len(params):
            self.sites.append(dict(rec_base, param="*", kind="G.shape", status="unknown", desc="argument count differs from kernel-dispatch"))
            return self.opaque_value(e[3], st, "err")
        info = self.KI.symbols.get(d["symbol"])
        if info is None or info.get("impl") is None:
            return self.opaque_value(e[3], st, "err")
        c = self.reg.contract_for(info["impl"], d["symbol"])
        argdesc = {a["name"]: a for a in info["args"]}
        vals = []
        for a in actual:
            try:
                vals.append(self.ev.ev(a, st))
            except EvalError:
                vals.append(None)
        # callee-side state for instantiating the contract: scalars by value, arrays by the caller's buffer
        cst = State()
        out_locals = []
        for p, v in zip(params, vals):
            ad = argdesc.get(p)
            if ad is None or v is None:
                continue
            if "List" not in ad["type"]:
                if v.k in ("int", "bool"):
                    cst.vars[p] = Val(to_int(v), "int") if v.k == "int" else v
            else:
                if v.k in ("ptr", "obj") and v.arr in st.arrs and (v.k == "obj" or (z3.is_int_value(v.t) and v.t.as_long() == 0)):
                    cst.arrs[p] = st.arrs[v.arr]
                elif v.k == "ptr" and isinstance(v.arr, str) and v.arr.startswith("&") and v.arr[1:] in st.vars and st.vars[v.arr[1:]].k == "int":
                    cst.arrs[p] = z3.Store(z3.K(z3.IntSort(), z3.IntVal(0)), 0, st.vars[v.arr[1:]].t)
                    out_locals.append((p, v.arr[1:]))
        gh = spec.Ghosts()
        for g, (gp, gb) in c.ghost.items():
            gh.declare(g, gp, gb)
        for sname, sdef in c.sums.items():
            gh.declare(sname, list(sdef[3] if len(sdef) > 3 else []) + ["x"], None)
        cse = spec.SpecEval(gh, self.consts)
        cinit = cst.fork()
        # defining axioms of the callee's ghost prefix sums, instantiated on the caller's buffers (their
        # monotonicity is proved inside the kernel's own unit)
        for sname, sdef in c.sums.items():
            try:
                ctx = list(sdef[3]) if len(sdef) > 3 else []
                cvals = []
                for cname in ctx:
                    if cname in cst.arrs:
                        cvals.append(cst.arrs[cname])
                    elif cname in cst.vars:
                        cvals.append(cst.vars[cname].t)
                    else:
                        raise spec.SpecError("context %s not available" % cname)
                Sf = sym.uf("ghost_" + sname, *([x.sort() for x in cvals] + [sym.I, sym.I]))
                S = lambda x, Sf=Sf, cvals=cvals: Sf(*(cvals + [x]))
                n_ = cse.term(sdef[1], cst, init=cinit)
                q = z3.Int("q?%s" % sname)
                tq = cse.int(cse.term(sdef[2], cst, init=cinit, bound={sdef[0]: q}))
                a_, b_ = z3.Int("a?%s" % sname), z3.Int("b?%s" % sname)
                st.assume(S(z3.IntVal(0)) == 0)
                st.assume(z3.ForAll([q], z3.Implies(z3.And(0 <= q, q < n_), S(q + 1) == S(q) + tq), patterns=[S(q + 1)]))
                st.assume(z3.ForAll([a_, b_], z3.Implies(z3.And(0 <= a_, a_ <= b_, b_ <= n_), S(a_) <= S(b_)),
                                    patterns=[z3.MultiPattern(S(a_), S(b_))]))
                if len(sdef) > 4 and sdef[4] == "unit":
                    st.assume(z3.ForAll([a_, b_], z3.Implies(z3.And(0 <= a_, a_ <= b_, b_ <= n_), S(b_) - S(a_) <= b_ - a_),
                                        patterns=[z3.MultiPattern(S(a_), S(b_))]))
                    st.assume(z3.Implies(n_ >= 0, z3.And(S(n_) >= 0, S(n_) <= n_)))      # instance a=0, b=n
            except spec.SpecError:
                pass
        # scalar preconditions
        for src in c.requires:
            if "[" in src or "forall" in src or "exists" in src:
                continue
            try:
                claim = cse.boolean(src, cst, init=cst)
            except spec.SpecError:
                continue
            self.emit(rec_base, "G.scalar", src, claim, st, "kernel::%s requires %s" % (name, src))
        # extents
        for p, v in zip(params, vals):
            ad = argdesc.get(p)
            if ad is None or "List" not in ad["type"] or p not in c.extents:
                continue
            try:
                req = cse.term(c.extents[p], cst, init=cst)
            except spec.SpecError:
                self.sites.append(dict(rec_base, param=p, kind="G.extent", status="skipped",
                                       desc="extent %s of %s is not a function of the scalar arguments" % (c.extents[p], p)))
                continue
            if v is None or v.k not in ("ptr", "obj") or v.arr not in self.objlen:
                self.sites.append(dict(rec_base, param=p, kind="G.extent", status="skipped",
                                       desc="argument for %s is not a buffer the translator tracks" % p))
                continue
            have = self.objlen[v.arr] - (v.t if v.k == "ptr" else 0)
            off_ok = (v.t >= 0) if v.k == "ptr" else z3.BoolVal(True)
            self.emit(rec_base, "G.extent", p, z3.And(off_ok, z3.Or(req <= 0, have >= req)), st,
                      "buffer passed as %s of kernel::%s holds at least %s elements" % (p, name, c.extents[p]))
        # effects: outputs are overwritten; scalars written through pointers are unknown afterwards
        for p, v, a in zip(params, vals, actual):
            ad = argdesc.get(p)
            if ad is None or v is None:
                continue
            if "List" in ad["type"] and not ad["type"].startswith("Const[") and v.k in ("ptr", "obj") and v.arr in st.arrs:
                st.arrs[v.arr] = self.ev.fresh(v.arr + "_after", self.ev.arr_sort(v.arr))
            if v.k == "ptr" and isinstance(v.arr, str) and v.arr.startswith("&"):
                nm = v.arr[1:]
                if nm in st.vars and st.vars[nm].k == "int":
                    st.vars[nm] = Val(self.ev.fresh(nm + "_from_" + name), "int")
        # the callee's postcondition (success path: handle_error throws otherwise) constrains what it wrote
        post = cst.fork()
        for p, v in zip(params, vals):
            ad = argdesc.get(p)
            if ad is None or v is None or "List" not in ad["type"] or ad["type"].startswith("Const["):
                continue
            if v.k in ("ptr", "obj") and v.arr in st.arrs and p in cst.arrs:
                post.arrs[p] = st.arrs[v.arr]
        for p, nm in out_locals:
            post.arrs[p] = z3.Store(z3.K(z3.IntSort(), z3.IntVal(0)), 0, st.vars[nm].t)
        for src in list(c.ensures_ok) + list(c.ensures):
            try:
                st.assume(cse.boolean(src, post, init=cinit))
            except spec.SpecError:
                pass
        return self.opaque_value(e[3], st, "err")

    def emit(self, rec_base, kind, what, claim, st, desc):
        ob = sym.Obligation(kind, "call", self.ev.line, desc, self.ev.facts + list(st.pc), claim)
        vcgen.solve(ob, 5000)
        self.sites.append(dict(rec_base, param=what, kind=kind, status=ob.status, desc=desc,
                               model=None if ob.status != "refuted" else str(ob.model)[:600]))

    # statements: never give up on a whole method because of one statement
    def stmt(self, s, st):
        try:
            if s[0] == "ret" and isinstance(s[1], list) and s[1] and s[1][0] == "val":
                # calls made inside the returned expression (x->getitem_next(...), kernels) are call sites too
                try:
                    self.ev.ev(s[1][1], st)
                except (EvalError, spec.SpecError, KeyError, AttributeError, z3.Z3Exception):
                    pass
            return super().stmt(s, st)
        except (EvalError, spec.SpecError, KeyError, AttributeError, z3.Z3Exception) as ex:
            # opaque statement: forget what it may have assigned
            mv, ma = vcgen.modified([s])
            for v in mv:
                if v in st.vars and st.vars[v].k == "int":
                    st.vars[v] = Val(self.ev.fresh(v + "_opaque"), "int")
                elif v in st.vars:
                    st.vars.pop(v, None)
            for a in list(st.arrs):
                if a in ma:
                    st.arrs[a] = self.ev.fresh(a + "_opaque", self.ev.arr_sort(a))
            self.opaque_statements = getattr(self, "opaque_statements", 0) + 1
            return [("fall", st)]

    def run(self):
        st = State()
        for name, ty in self.f["params"]:
            t = unconst(ty)
            st.types[name] = t
            if t == "bool":
                st.vars[name] = Val(z3.Bool(name), "bool")
            else:
                v = z3.Int(name)
                st.vars[name] = Val(v, "int")
                self.ev.range_fact(v, t, st)
        for inv in INVARIANTS.get(self.clsname, []):
            t = self.inv_term(inv, st)
            if t is not None:
                st.assume(t)
        mname = self.f["name"].split("::")[-1].split("#")[0]
        for src in METHOD_PRE.get(mname, []):
            m = re.match(r"(\w+)\s*>=\s*(-?\d+)$", src)
            if m and m.group(1) in st.vars and st.vars[m.group(1)].k == "int":
                st.assume(st.vars[m.group(1)].t >= int(m.group(2)))
            m = re.match(r"(\w+)\s*>=\s*([A-Za-z_]\w*)$", src)
            if m and all(x in st.vars and st.vars[x].k == "int" for x in m.groups()):
                st.assume(st.vars[m.group(1)].t >= st.vars[m.group(2)].t)
        if mname in VMETHODS and vm_params_match(VMETHODS[mname], list(self.param_types)):
            env = {}
            tl = self.this_length(st)
            if tl is not None:
                env["this.length"] = tl
            for pname, pty in self.param_types.items():
                bare = unconst(pty)
                if bare.startswith("r:"):
                    bare = unconst(bare[2:])
                if index_elem(bare) is not None:
                    try:
                        v = self.ev_var(["v", pname, bare], st)
                        if v.k == "obj":
                            env["len:" + pname] = self.objlen[v.arr]
                    except Exception:
                        pass
                elif pname in st.vars and st.vars[pname].k == "int":
                    env[pname] = st.vars[pname].t
            for desc, fn in VMETHODS[mname]["pre"]:
                try:
                    st.assume(fn(env))
                except KeyError:
                    pass
        self.init = st.fork()
        try:
            self.block(self.f["body"], st)
        except Exception as ex:      # the unit as a whole is lost; sites seen so far stay
            self.errors.append("caller unit aborted: %r" % (ex,))

    def inv_term(self, src, st):
        m = re.match(r"(\S+)\s*(>=)\s*(\S+)$", src)
        if not m:
            return None

        def side(x):
            if x.startswith("clen:"):
                fld = x[5:]
                v = self.ev_var(["v", fld, self.field_types.get(fld) or "x:std::shared_ptr<awkward::Content>"], st)
                if v.k == "opaque" and z3.is_int_value(v.t):
                    return self.content_len(v.t.as_long(), st)
                return None
            if x.startswith("len8:"):
                n = x[5:]
                ty = self.field_types.get(n) or "x:awkward::IndexU8"
                v = self.ev_var(["v", n, ty], st)
                return self.objlen.get(v.arr) * 8 if v.k == "obj" else None
            if x.startswith("len:"):
                n = x[4:]
                ty = self.field_types.get(n) or {"mask_": "x:awkward::Index8"}.get(n)
                if ty is None:
                    return None
                v = self.ev_var(["v", n, ty], st)
                return self.objlen.get(v.arr)
            if re.fullmatch(r"-?\d+", x):
                return z3.IntVal(int(x))
            if x in st.vars and st.vars[x].k == "int":
                return st.vars[x].t
            if x.endswith("_"):        # an integer data member not seen yet
                v = z3.Int(x)
                st.vars[x] = Val(v, "int")
                return v
            return None
        a, b = side(m.group(1)), side(m.group(3))
        if a is None or b is None:
            return None
        return a >= b


_G = {}


def _work(task):
    path, cls, targs = task
    t0 = time.time()
    out = {"file": path, "class": cls, "targs": ("<%s>" % ",".join(targs)) if targs else "", "sites": [], "methods": 0, "errors": [], "opaque": 0}
    try:
        full = os.path.join(LIB, path)
        if targs is None:
            r = cast.extract_file(full, filt=cls, tolerant=True)
            methods = {}
            for f in r["functions"]:
                methods.setdefault(f["name"], []).append(f)
            fields = []
        else:
            r = cast.extract_class_methods(full, cls, targs)
            methods, fields = r["methods"], r["fields"]
        helpers = munit.pure_helpers(methods)
        consts, enums = _G["consts"], {}
        for mname, fs in sorted(methods.items()):
            for k, f in enumerate(fs):
                if f.get("body") is None:
                    continue
                if not _mentions_kernel(f["body"], _G["kernels"]) and not any(('"%s"' % vm) in json.dumps(f["body"]) for vm in list(VMETHODS) + list(DEPTH_METHODS)) \
                        and not re.search(r"awkward::(ByteMaskedArray|BitMaskedArray|ListOffsetArrayOf|ListArrayOf|UnionArrayOf)", json.dumps(f["body"])):
                    continue
                out["methods"] += 1
                body = munit.subst_helpers(copy.deepcopy(f["body"]), helpers)
                label = "%s::%s#%d" % (cls, mname, k)
                u = CallerUnit(label, body, f["params"], fields, consts, methods, enums, _G["kernels"], _G["reg"], _G["KI"], cls)
                u.auto = False
                u.run()
                out["opaque"] += getattr(u, "opaque_statements", 0)
                for e in u.errors:
                    out["errors"].append("%s: %s" % (label, e))
                for s in u.sites:
                    s["method"] = label
                    out["sites"].append(s)
    except Exception:
        import traceback
        out["errors"].append("crash: " + traceback.format_exc()[-1500:])
    out["time"] = time.time() - t0
    return out


def _mentions_kernel(body, kernels):
    txt = json.dumps(body)
    for m in re.finditer(r'\["call", "(\w+)"', txt):
        if m.group(1) in kernels:
            return True
    return False


def run(update_baseline=False, jobs=14):
    from . import check as check_mod
    check_mod.init()
    disp = gsite.parse_dispatch()
    kernels = {}
    for (name, targs), d in disp.items():
        if name not in kernels or "int64_t" in targs:
            kernels[name] = d
    _G.update({"kernels": kernels, "reg": contracts_mod.Registry(), "KI": check_mod.KI, "consts": dict(cast.global_constants())})
    results = []
    with ProcessPoolExecutor(jobs) as ex:
        for r in ex.map(_work, CLASSES):
            results.append(r)
    sites = []
    errors = []
    for r in results:
        for s in r["sites"]:
            s["file"] = r["file"]
            s["key"] = "%s|%s%s|%s#%d|%s|%s" % (r["file"], s["method"], r.get("targs", ""), s["kernel"], s["n"], s["kind"], s["param"])
            sites.append(s)
        errors.extend(r["errors"])
    base = json.load(open(BASELINE)) if os.path.exists(BASELINE) else {"proved": []}
    if update_baseline:
        bad = {s["key"] for s in sites if s["status"] != "proved"}
        keys = sorted({s["key"] for s in sites if s["status"] == "proved"} - bad)
        json.dump({"proved": keys}, open(BASELINE, "w"), indent=1)
        base = {"proved": keys}
    expected = set(base["proved"])
    obligations, undecided_sites = [], []
    n = 0
    seen = {}
    for s in sites:
        seen.setdefault(s["key"], []).append(s)
    # site ordinals move when a call site is rewritten in an equivalent form (make_shared<T>(...) -> T out(...)): an
    # expected key that is gone is still present if the same method still carries at least as many proved obligations
    # of the same target / kind / parameter under other ordinals as the baseline expects
    def noord(key):
        return re.sub(r"#\d+\|", "|", key)
    exp_groups, now_groups = {}, {}
    for key in expected:
        exp_groups[noord(key)] = exp_groups.get(noord(key), 0) + 1
    for key, group in seen.items():
        if all(s["status"] == "proved" for s in group):
            now_groups[noord(key)] = now_groups.get(noord(key), 0) + 1
    for key in sorted(expected):
        group = seen.get(key)
        if not group:
            if now_groups.get(noord(key), 0) >= exp_groups[noord(key)]:
                continue          # renumbered: the obligations are reported below under their new keys
            obligations.append({"id": "gcall:%s#%d" % (key, n), "unit": key, "kind": "G.present", "label": "callsite", "line": None,
                                "desc": "call-site obligation %s is still generated" % key, "status": "unknown", "time": 0.0,
                                "backend": "syntactic", "model": None, "auto": False})
            n += 1
            continue
        worst = [s for s in group if s["status"] == "refuted"] or [s for s in group if s["status"] != "proved"] or group
        s = worst[0]
        obligations.append({"id": "gcall:%s#%d" % (key, n), "unit": key, "kind": s["kind"], "label": "callsite", "line": s["line"],
                            "desc": "%s (%s): %s [%d path(s)]" % (s["method"], s["file"], s["desc"], len(group)), "status": s["status"], "time": 0.0,
                            "backend": "z3", "model": s.get("model"), "auto": False})
        n += 1
    for key, group in seen.items():
        if key in expected:
            continue
        if all(s["status"] == "proved" for s in group):
            s = group[0]
            obligations.append({"id": "gcall:%s#%d" % (key, n), "unit": key, "kind": s["kind"], "label": "callsite", "line": s["line"],
                                "desc": "%s (%s): %s" % (s["method"], s["file"], s["desc"]), "status": "proved", "time": 0.0,
                                "backend": "z3", "model": None, "auto": False})
            n += 1
        else:
            for s in group:
                if s["status"] in ("refuted", "unknown"):
                    undecided_sites.append({"key": key, "desc": s["desc"], "line": s["line"], "model": (s.get("model") or "")[:200]})
                    break
    return {"obligations": obligations,
            "functions": {"libawkward caller methods with kernel calls": {"obligations": sum(r["methods"] for r in results)}},
            "errors": [], "notes": errors[:50], "bounded": [],
            "coverage": {"g_call_sites": len(sites), "g_call_expected": len(expected), "g_call_undecided": undecided_sites[:400], "g_call_undecided_count": len(undecided_sites),
                         "g_call_skipped": sum(1 for s in sites if s["status"] == "skipped"),
                         "g_call_opaque_statements": sum(r["opaque"] for r in results)}}


def engine(pid, tier, seed, known, kernel_patterns=None):
    """kernel_patterns: keep only the call sites of kernels whose name matches one of the regexes"""
    r = run()
    if kernel_patterns:
        pats = [re.compile(p) for p in kernel_patterns]

        def keep(unit):
            parts = unit.split("|")
            k = parts[2] if len(parts) > 2 else unit
            return any(p.search(k) for p in pats)
        r["obligations"] = [o for o in r["obligations"] if keep(o["unit"])]
        r["coverage"]["g_call_undecided"] = [u for u in r["coverage"]["g_call_undecided"] if keep(u["key"])]
        r["coverage"]["g_call_undecided_count"] = len(r["coverage"]["g_call_undecided"])
    return r


if __name__ == "__main__":
    import sys, collections
    r = run(update_baseline="--update-baseline" in sys.argv)
    c = collections.Counter((o["kind"], o["status"]) for o in r["obligations"])
    print(c)
    cov = r["coverage"]
    print("sites", cov["g_call_sites"], "expected", cov["g_call_expected"], "undecided", len(cov["g_call_undecided"]), "skipped", cov["g_call_skipped"],
          "opaque statements", cov["g_call_opaque_statements"])
    for e in r["notes"][:10]:
        print("NOTE", e[:300])
    if "-v" in sys.argv:
        for u in cov["g_call_undecided"]:
            print("UNDECIDED", u["key"], "|", u["desc"], "|", u["model"][:150].replace("\n", " "))
