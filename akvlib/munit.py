"""Engine M: small C++ functions and methods outside the kernels (class methods, pieces of a method
such as the `case` blocks of an interpreter loop).  Data members of *this are state variables of the
unit; one-line helper methods of the same class are inlined from their own AST."""
import copy
import z3

from . import sym, spec, vcgen
from .sym import Val, State, EvalError, to_bool, to_int, IV
from .cast import INT_TYPES, unconst


def subst_helpers(node, helpers):
    """replace calls to zero-parameter single-`return expr` helper methods by the returned expression"""
    if not isinstance(node, list):
        return node
    if node and node[0] == "call" and isinstance(node[1], str) and node[1] in helpers and not node[2]:
        return subst_helpers(copy.deepcopy(helpers[node[1]]), helpers)
    return [subst_helpers(x, helpers) for x in node]


def pure_helpers(methods):
    """{ 'this.name': returned expression } for methods whose body is exactly `return <expr>;` and take no parameters"""
    out = {}
    for name, fs in methods.items():
        if len(fs) != 1:
            continue
        f = fs[0]
        if f["params"] or not f.get("body"):
            continue
        b = f["body"]
        if len(b) == 1 and b[0][0] == "ret" and b[0][1][0] == "val":
            out["this." + name] = b[0][1][1]
    return out


class MUnit(vcgen.Unit):
    """executes a list of statements (a method body or a piece of one) over a state made of
    the given variables (name -> C type); pointers/vectors become arrays"""

    def __init__(self, name, stmts, variables, contract, consts, methods=None, enums=None, ret="void",
                 on_exit=None, active=None):
        func = {"name": name, "params": [[n, t] for n, t in variables], "body": stmts, "ret": ret,
                "targs": [], "file": ""}
        super().__init__(func, contract, consts, {}, active if active is not None else {})
        self.methods = methods or {}
        self.enums = enums or {}
        self.ev.call_handler = self.call
        self.ev.ev_enum = self.ev_enum
        self.ev.ev_unsupported = self.ev_unsupported
        self.ev.ev_mcall = self.ev_mcall
        self.ev.ev_opcall = self.ev_opcall
        self.ev.ev_member = self.ev_member
        self.ev.ev_construct = self.ev_opaque
        self.ev.ev_this = self.ev_opaque
        self.on_exit = on_exit or {}
        self.track_swaps = False
        self.buffers = {}      # member name -> extent spec (reallocatable buffer owned through a smart pointer)
        self.gen = 0
        self.exits = []
        self.depth = 0
        self.ext_counter = 0

    # ---- state
    def initial_state(self):
        st = State()
        ev = self.ev
        for name, ty in self.f["params"]:
            t = unconst(ty)
            if t.startswith("p:") or t.startswith("x:std::vector<"):
                if t.startswith("p:"):
                    ety = unconst(t[2:])
                else:
                    inner = t[len("x:std::vector<"):-1]
                    from .cast import _map_type_str
                    ety = unconst(_map_type_str(inner))
                if ety not in INT_TYPES and ety not in ("bool", "f32", "f64"):
                    ety = "i64"
                    ev.unchecked = set(getattr(ev, "unchecked", ())) | {name}
                ev.elem[name] = ety
                ev.writable[name] = True
                st.arrs[name] = z3.Const(name, ev.arr_sort(name))
                st.types[name] = ty
            elif t == "bool":
                st.types[name] = t
                st.vars[name] = Val(z3.Bool(name), "bool")
            elif t in INT_TYPES:
                st.types[name] = t
                v = z3.Int(name)
                st.vars[name] = Val(v, "int")
                ev.range_fact(v, t, st)
            elif t in ("f32", "f64"):
                st.types[name] = t
                st.vars[name] = Val(z3.Const(name, sym.F), "flt")
            else:
                st.types[name] = "i64"
                st.vars[name] = Val(z3.Int(name), "int")    # enums and other scalars: an integer
        self.init = st.fork()
        for src in self.c.axioms:
            st.assume(self.se.boolean(src, st, init=self.init))
        for src in self.c.requires:
            st.assume(self.se.boolean(src, st, init=self.init))
        for nm, sdef in self.c.sums.items():
            self.declare_sum(nm, sdef[0], sdef[1], sdef[2], st, sdef[3] if len(sdef) > 3 else (), unit=(len(sdef) > 4 and sdef[4] == "unit"))
        for a, src in self.c.extents.items():
            if a in st.arrs and src is not None:
                ev.extents[a] = self.se.term(src, st, init=self.init)
        ev.unchecked = set(getattr(ev, "unchecked", ())) | set(self.c.unchecked)
        for name, bspec in self.buffers.items():
            ety, ext_src = bspec[0], bspec[1]
            key = "%s@g0" % name
            ev.elem[key] = ety
            ev.writable[key] = True
            st.arrs[key] = z3.Const(key, ev.arr_sort(key))
            st.vars[name] = Val(IV(0), "ptr", key)
            ev.extents[key] = self.se.term(ext_src, st, init=st)
        self.init = st.fork()
        return st

    def realloc(self, name, st, pre=None):
        """the buffer behind member `name` is reallocated: contents of the old extent are preserved, every
        pointer obtained earlier dangles"""
        ev = self.ev
        old = st.vars[name]
        oldkey = old.arr
        self.gen += 1
        key = "%s@g%d" % (name, self.gen)
        ev.elem[key] = ev.elem[oldkey]
        ev.writable[key] = True
        new = ev.fresh(key, ev.arr_sort(key))
        q = z3.Int("q?realloc")
        bspec = self.buffers[name]
        oldext = ev.extents.get(oldkey)
        if len(bspec) > 2:
            # only this many leading elements are copied into the new allocation
            oldext = self.se.term(bspec[2], pre if pre is not None else st, init=self.init)
        if oldext is not None:
            st.assume(z3.ForAll([q], z3.Implies(z3.And(0 <= q, q < oldext), z3.Select(new, q) == z3.Select(st.arrs[oldkey], q))))
        st.arrs[key] = new
        del st.arrs[oldkey]
        st.vars[name] = Val(IV(0), "ptr", key)
        ev.extents[key] = self.se.term(bspec[1], st, init=self.init)

    # ---- extra expression kinds
    def ev_enum(self, e, st):
        name = e[1]
        if name not in self.enums:
            raise EvalError("unknown enumerator %s" % name)
        return Val(IV(self.enums[name]), "int")

    def ev_unsupported(self, e, st):
        raise EvalError("untranslated expression (%s)" % e[1])

    def ev_opaque(self, e, st):
        return self.opaque_value(e[-1] if isinstance(e[-1], str) else "i64", st, "obj")

    def ev_member(self, e, st):
        return self.opaque_value(e[-1], st, "member_" + str(e[2]))

    def opaque_value(self, ty, st, hint):
        ty = unconst(ty) if isinstance(ty, str) else "i64"
        self.ext_counter += 1
        if ty.startswith("p:"):
            nm = "ext%d_%s" % (self.ext_counter, hint)
            ety = unconst(ty[2:])
            if ety not in INT_TYPES and ety not in ("bool", "f32", "f64"):
                ety = "i64"
            self.ev.elem[nm] = ety
            self.ev.writable[nm] = True
            self.ev.unchecked = set(getattr(self.ev, "unchecked", ())) | {nm}
            st.arrs[nm] = self.ev.fresh(nm, self.ev.arr_sort(nm))
            return Val(IV(0), "ptr", nm)
        if ty == "bool":
            return Val(self.ev.fresh(hint, z3.BoolSort()), "bool")
        if ty in ("f32", "f64"):
            return Val(self.ev.fresh(hint, sym.F), "flt")
        t = self.ev.fresh(hint)
        if ty in INT_TYPES:
            self.ev.range_fact(t, ty, st)
        return Val(t, "int")

    def external_effects(self, args, st):
        """an external call may write through reference arguments: only current_error_-like scalar members
        passed by reference are modelled (havocked)"""
        for a in args:
            if a[0] == "v" and a[1] in st.vars and a[1] in self.c.inout:
                old = st.vars[a[1]]
                st.vars[a[1]] = Val(self.ev.fresh(a[1] + "_after_call"), old.k) if old.k == "int" else old

    def ev_mcall(self, e, st):
        _, obj, name, args, ty = e
        if name == "get" and obj[0] == "v" and obj[1] in self.buffers and obj[1] in st.vars:
            return st.vars[obj[1]]
        for a in args:
            try:
                self.ev.ev(a, st)          # evaluate arguments for their own obligations
            except EvalError:
                pass
        self.external_effects(args, st)
        return self.opaque_value(ty, st, "ret_" + str(name))

    def ev_opcall(self, e, st):
        _, name, args, ty = e
        if name in ("operator->", "operator*") and args:
            return self.opaque_value(ty, st, "deref")
        return self.opaque_value(ty, st, "op")

    def call(self, ev, e, st):
        name, args, ty = e[1], e[2], e[3]
        if name.startswith("this."):
            ms = self.methods.get(name[5:])
            if name in self.c.calls:
                return self.apply_contract(self.c.calls[name], e, st)
            if ms and len(ms) >= 1:
                m = [x for x in ms if len(x["params"]) == len(args)]
                if m and m[0].get("body") is not None and self.depth < 4 and self.simple_body(m[0]["body"]):
                    return self.inline(m[0], args, st)
            cc = self.c.calls.get(name)
            if cc is not None:
                return self.apply_contract(cc, e, st)
            self.external_effects(args, st)
            return self.opaque_value(ty, st, "ret_" + name[5:])
        if name in ("byteswap16", "byteswap32", "byteswap64") and len(args) == 2:
            # in-place byte swap of a caller-owned buffer: an involution per width.  The unit keeps, per array,
            # which swap is currently pending; every exit must see none pending (the input is restored).
            self.ev.ev(args[0], st)
            v = self.ev.ev(args[1], st)
            if v.k == "ptr" and not str(v.arr).startswith("&"):      # &local: a by-value copy, not the caller's buffer
                own = "@g" in str(v.arr)          # the object's own (reallocatable) buffer: swapping what was just written is intended
                if not own:
                    tag = getattr(st, "swaps", None)
                    tag = dict(tag) if tag else {}
                    cur = tag.get(v.arr)
                    if cur is None:
                        tag[v.arr] = name
                    elif cur == name:
                        tag.pop(v.arr)
                    else:
                        tag[v.arr] = "corrupt(%s then %s)" % (cur, name)
                    st.swaps = tag
                if v.arr in st.arrs:
                    # elements from the pointer's offset on are rewritten; what lies before is untouched
                    old_arr = st.arrs[v.arr]
                    new_arr = self.ev.fresh(str(v.arr).replace("@", "_") + "_swapped", self.ev.arr_sort(v.arr))
                    if not (z3.is_int_value(v.t) and v.t.as_long() <= 0):     # (from offset 0 on: nothing is known to survive)
                        q = z3.Int("q?swap")
                        st.assume(z3.ForAll([q], z3.Implies(q < v.t, z3.Select(new_arr, q) == z3.Select(old_arr, q))))
                    st.arrs[v.arr] = new_arr
            return Val(IV(0), "opaque")
        if name == "memcpy" and len(args) == 3:
            d = self.ev.ev(args[0], st)
            nbytes = None
            for i_, a in enumerate(args[1:]):
                try:
                    v_ = self.ev.ev(a, st)
                    if i_ == 1 and v_.k == "int":
                        nbytes = v_.t
                except EvalError:
                    pass
            if d.k == "ptr" and d.arr in st.arrs:
                ext = self.ev.extents.get(d.arr)
                esz = {"i8": 1, "u8": 1, "bool": 1, "i16": 2, "u16": 2, "i32": 4, "u32": 4, "f32": 4}.get(self.ev.elem.get(d.arr), 8)
                if ext is not None and nbytes is not None and d.arr not in getattr(self.ev, "unchecked", ()):
                    self.ev.oblige("S.memcpy", z3.And(d.t >= 0, nbytes >= 0, d.t * esz + nbytes <= ext * esz), st,
                                   "memcpy destination %s[%s ...] + %s bytes stays inside the buffer" % (d.arr.split("@")[0], d.t, nbytes))
                old_arr = st.arrs[d.arr]
                new_arr = self.ev.fresh(str(d.arr).replace("@", "_") + "_copied", self.ev.arr_sort(d.arr))
                q = z3.Int("q?memcpy")
                st.assume(z3.ForAll([q], z3.Implies(q < d.t, z3.Select(new_arr, q) == z3.Select(old_arr, q))))
                st.arrs[d.arr] = new_arr
            return Val(IV(0), "opaque")
        if name == "handle_error":
            # util::handle_error(failure(...), ...) throws: the path ends here (exit kind "throw")
            self.exits.append(("throw", "throw", st.fork()))
            self.ret_states.append((["throw"], st.fork()))
            for src in self.on_exit.get("throw", []):
                self.ev.loc_label = "exit:throw"
                self.ev.oblige("F.exit", self.se.boolean(src, st, init=self.init), st, "at throw: %s" % src, {"src": src})
            st.assume(z3.BoolVal(False))
            return Val(IV(0), "opaque")
        if name in ("abs", "labs", "llabs") and len(args) == 1:
            v = to_int(self.ev.ev(args[0], st))
            return Val(z3.If(v >= 0, v, -v), "int")
        if name in ("min", "max") and len(args) == 2:
            a, b = to_int(self.ev.ev(args[0], st)), to_int(self.ev.ev(args[1], st))
            return Val(z3.If(a <= b, a, b) if name == "min" else z3.If(a >= b, a, b), "int")
        for a in args:
            try:
                self.ev.ev(a, st)
            except EvalError:
                pass
        self.external_effects(args, st)
        return self.opaque_value(ty, st, "ret_" + name)

    def simple_body(self, body):
        for s in body:
            if s[0] not in ("expr", "decl", "ret"):
                return False
        return True

    def inline(self, m, args, st):
        self.depth += 1
        try:
            vals = [self.ev.ev(a, st) for a in args]
            saved = {}
            for (pn, pt), v in zip(m["params"], vals):
                saved[pn] = (st.vars.get(pn), st.types.get(pn))
                st.types[pn] = unconst(pt)
                st.vars[pn] = v if v.k == "ptr" else self.ev.coerce(v, unconst(pt))
            result = None
            for s in m["body"]:
                if s[0] == "ret":
                    if s[1][0] == "val":
                        result = self.ev.ev(s[1][1], st)
                    break
                self.stmt(s, st)
            for pn, (ov, ot) in saved.items():
                if ov is None:
                    st.vars.pop(pn, None)
                else:
                    st.vars[pn] = ov
                if ot is not None:
                    st.types[pn] = ot
            return result if result is not None else Val(IV(0), "opaque")
        finally:
            self.depth -= 1

    def apply_contract(self, cc, e, st):
        """callee contract given inline in the caller's contract: dict(requires=[...], havoc=[...], ensures=[...], returns=type)"""
        args = [self.ev.ev(a, st) for a in e[2]]
        bound = {}
        for i, v in enumerate(args):
            if v.k in ("int", "bool"):
                bound["arg%d" % i] = v.t
        pre = st.fork()
        for i, src in enumerate(cc.get("requires", [])):
            self.ev.oblige("C.pre", self.se.boolean(src, st, init=self.init, bound=bound), st,
                           "precondition of %s: %s" % (e[1], src))
        for name in cc.get("realloc", []):
            if name in self.buffers:
                pass
        for name in cc.get("havoc", []):
            if name in st.vars:
                old = st.vars[name]
                st.vars[name] = Val(self.ev.fresh(name + "_after_" + e[1].replace(".", "_")), old.k) if old.k == "int" else \
                    Val(self.ev.fresh(name, z3.BoolSort()), "bool")
            elif name in st.arrs:
                st.arrs[name] = self.ev.fresh(name + "_after", self.ev.arr_sort(name))
        res = self.opaque_value(e[3], st, "ret_" + e[1].replace(".", "_"))
        if res.k in ("int", "bool"):
            bound["result"] = res.t
        for src in cc.get("ensures", []):
            st.assume(self.se.boolean(src, st, init=self.init, entry=pre, bound=bound))
        for name in cc.get("realloc", []):
            if name in self.buffers:
                self.realloc(name, st, pre)
        return res

    # ---- statements beyond the kernel subset
    def stmt(self, s, st):
        k = s[0]
        if k == "dowhile":
            # do { body } while (cond)  ==  while (true) { body; if (!cond) break; }
            body = list(s[2]) + [["if", ["un", "!", s[1], "bool"], [["break", s[-1]]], [], s[-1]]]
            return self.loop(self.labels.get(id(s), "Ld"), None, None, body, st, s[-1])
        if k == "goto":
            return [(("goto", s[1]), st)]
        if k == "label":
            return [("fall", st)]
        if k == "unsupported_stmt":
            raise EvalError("untranslated statement (%s)" % s[1])
        if k == "switch":
            raise EvalError("nested switch")
        return super().stmt(s, st)

    def run(self):
        st = self.initial_state()
        try:
            res = self.block(self.f["body"], st)
        except EvalError as ex:
            self.errors.append("untranslatable: %s" % ex)
            return
        except spec.SpecError as ex:
            self.errors.append("contract error: %s" % ex)
            return
        for out, s in res:
            kind = out if isinstance(out, str) else out[0]
            self.exits.append((kind, out, s))
            srcs = list(self.on_exit.get(kind, [])) + list(self.on_exit.get("any", []))
            result = None
            if kind == "ret":
                self.ret_states.append((out[1], s))
                if out[1][0] == "val":
                    try:
                        v = self.ev.ev(out[1][1], s)
                        result = v.t if v.k in ("int", "bool") else None
                    except EvalError as ex:
                        self.errors.append("untranslatable return value: %s" % ex)
            else:
                self.ret_states.append(([kind], s))
            pend = getattr(s, "swaps", None)
            if self.track_swaps:
                self.ev.loc_label = "exit:" + kind
                self.ev.oblige("S.restore", z3.BoolVal(not pend), s,
                               "caller-owned buffers are byte-swapped back before returning (inputs unchanged)%s" % (": pending %r" % pend if pend else ""))
            for i, src in enumerate(srcs):
                self.ev.loc_label = "exit:" + kind
                try:
                    self.ev.oblige("F.exit", self.se.boolean(src, s, init=self.init, result=result), s,
                                   "at %s: %s" % (kind, src), {"src": src})
                except spec.SpecError as ex:
                    self.errors.append("contract error at exit: %s" % ex)
