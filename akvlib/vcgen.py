"""Statement-level symbolic execution with loop invariants (contract-given and
Houdini-inferred), producing named proof obligations for one function unit."""
import time
import z3

from . import sym, spec
from .sym import Val, State, Evaluator, EvalError, to_bool, to_int, merge_states, IV
from .cast import INT_TYPES, unconst


class Contract:
    """sidecar contract of one function (all fields optional)"""

    def __init__(self, name, **kw):
        self.name = name
        self.extents = kw.pop("extents", {})        # array -> spec expr (number of elements)
        self.requires = kw.pop("requires", [])      # spec exprs over the initial state
        self.ghost = kw.pop("ghost", {})            # name -> (params, body|None)
        self.axioms = kw.pop("axioms", [])          # spec exprs (assumed; definitions of ghost functions)
        self.loops = kw.pop("loops", {})            # label -> [spec exprs]
        self.variants = kw.pop("variants", {})      # label -> spec expr (decreasing, >= 0 while the loop runs)
        self.ensures_ok = kw.pop("ensures_ok", [])
        self.ensures_fail = kw.pop("ensures_fail", [])
        self.ensures = kw.pop("ensures", [])        # for any normal return (scalar-returning / void functions)
        self.frame = kw.pop("frame", None)
        self.serves = kw.pop("serves", [])
        self.only = kw.pop("only", None)            # restrict to specializations (list of wrapper-name substrings)
        self.overflow = kw.pop("overflow", [])
        self.notes = kw.pop("notes", "")
        self.trusted = kw.pop("trusted", [])
        self.calls = kw.pop("calls", {})            # callee name -> Contract name (modular call handling)
        self.inout = kw.pop("inout", [])
        self.per_spec = kw.pop("per_spec", {})      # wrapper-name substring -> dict of overrides/additions
        self.auto_inv = kw.pop("auto_inv", True)
        self.nonneg = kw.pop("nonneg", [])
        self.unchecked = kw.pop("unchecked", [])    # arrays whose index obligations are NOT generated (listed as unverified in the evidence)
        self.store_asserts = kw.pop("store_asserts", {})   # array or "array@Lk" -> [spec exprs over the current state, `value` and `at` (alias `index`)]: must hold at every store to that array (inside loop Lk)
        self.sums = kw.pop("sums", {})              # name -> (bound var, n expr, term expr): prefix sums with a proved monotonicity lemma
        self.pure = kw.pop("pure", False)           # as a callee: reads only its scalar arguments, writes nothing; the result is an unknown value of the return type ("uf": the same uninterpreted function of the arguments at every call)
        self.z3_budget_ms = kw.pop("z3_budget_ms", None)   # first z3 attempt per obligation (then cvc5, then z3 again with the long budget)
        self.stdlib = kw.pop("stdlib", False)       # the unit uses std::vector<int64_t> / std::iota / std::next / std::sort / std::stable_sort / std::transform: built-ins with ASSUMED contracts
        if kw:
            raise TypeError("unknown contract fields %s" % list(kw))


def loop_labels(body):
    """assign ordinal labels (L0, L1, L0.0 ...) to loops by syntactic position, ignoring ifs/blocks"""
    labels = {}

    def walk(stmts, prefix, counter):
        for s in stmts:
            k = s[0]
            if k in ("for", "while", "dowhile", "pyfor"):
                lab = "%sL%d" % (prefix, counter[0]) if not prefix else "%s.%d" % (prefix, counter[0])
                counter[0] += 1
                labels[id(s)] = lab
                inner = s[4] if k == "for" else (s[5] if k == "pyfor" else s[2])
                walk(inner, lab, [0])
            elif k == "if":
                walk(s[2], prefix, counter)
                walk(s[3], prefix, counter)
            elif k == "block":
                walk(s[1], prefix, counter)
    walk(body, "", [0])
    return labels


def modified(stmts_and_exprs):
    """syntactic over-approximation of what a loop modifies: (scalar/pointer var names, array-base var names, has_unknown)"""
    mv, ma = set(), set()

    def base_name(e):
        while e[0] in ("cast",):
            e = e[1]
        if e[0] == "v":
            return e[1]
        if e[0] == "bin":
            return base_name(e[2]) or base_name(e[3])
        if e[0] == "ld":
            return base_name(e[1])
        return None

    def lv(e):
        if e[0] == "v":
            mv.add(e[1])
        elif e[0] == "ld":
            b = base_name(e[1])
            ma.add(b if b else "*")
        elif e[0] == "cast":
            lv(e[1])

    def ex(e):
        if not isinstance(e, list) or not e:
            return
        k = e[0]
        if k in ("asg",):
            lv(e[1]); ex(e[1]); ex(e[2])
        elif k == "casg":
            lv(e[2]); ex(e[2]); ex(e[3])
        elif k == "inc":
            lv(e[1]); ex(e[1])
        elif k == "addr":
            lv(e[1])
        elif k == "call":
            if e[1] in ("sort", "stable_sort", "transform", "iota"):
                ma.add("*")        # writes through iterators: every writable array may change
            for a in e[2]:
                ex(a)
                # an array handed to a callee may be written by it
                if a[0] == "v" and isinstance(a[2], str) and a[2].startswith("p:") and not a[2].startswith("p:c:"):
                    ma.add(a[1])
        elif k in ("c", "v", "g", "null", "str", "fn", "enum", "this", "lambda", "unsupported"):
            return
        else:
            for x in e[1:]:
                if isinstance(x, list):
                    if x and isinstance(x[0], str):
                        ex(x)
                    else:
                        for y in x:
                            ex(y)

    def stm(s):
        k = s[0]
        if k == "decl":
            mv.add(s[1])
            if s[3] is not None:
                ex(s[3])
        elif k == "expr":
            ex(s[1])
        elif k == "if":
            ex(s[1]); blk(s[2]); blk(s[3])
        elif k == "for":
            blk(s[1]); ex(s[2]) if s[2] else None; ex(s[3]) if s[3] else None; blk(s[4])
        elif k == "pyfor":
            mv.add(s[1]); ex(s[2]); ex(s[3]); ex(s[4]); blk(s[5])
        elif k in ("while", "dowhile"):
            ex(s[1]); blk(s[2])
        elif k == "block":
            blk(s[1])
        elif k == "ret":
            r = s[1]
            if r[0] == "failure":
                for x in r[2:]:
                    if x:
                        ex(x)
            elif r[0] == "val":
                ex(r[1])

    def blk(b):
        for s in b:
            stm(s)

    for x in stmts_and_exprs:
        if x is None:
            continue
        if x and isinstance(x[0], str):
            if x[0] in ("decl", "expr", "if", "for", "pyfor", "while", "dowhile", "block", "ret", "break", "continue"):
                stm(x)
            else:
                ex(x)
        else:
            blk(x)
    return mv, ma


class Unit:
    """one verification unit = one function body (template instantiation or plain function)"""

    def __init__(self, func, contract=None, consts=None, contracts=None, active=None, mode="S"):
        self.f = func
        self.c = contract or Contract(func["name"])
        self.consts = consts or {}
        self.contracts = contracts or {}
        self.ev = Evaluator(func)
        self.ev.globals = dict(self.consts)
        self.ev.call_handler = self.handle_call
        self.ev.mcall_handler = self.handle_mcall
        self.ev.assume_store_fits = True
        self.ev.unchecked = set(self.c.unchecked)
        if self.c.store_asserts:
            self._orig_store = self.ev.store
            self.ev.store = self._checked_store
        gh = spec.Ghosts()
        for g, (params, body) in self.c.ghost.items():
            gh.declare(g, params, body)
        self.se = spec.SpecEval(gh, self.consts)
        self.labels = loop_labels(func["body"])
        self.cands = {}     # label -> {cid: (desc, fn(st, entry))}
        self.active = active if active is not None else {}    # label -> set(cid)
        self.init = None
        self.errors = []
        self.auto = self.c.auto_inv
        self.ret_states = []

    # ---- setup
    def initial_state(self):
        st = State()
        ev = self.ev
        for name, ty in self.f["params"]:
            ty0 = ty
            if ty.startswith("p:"):
                ety = ty[2:]
                const = ety.startswith("c:")
                ety = unconst(ety)
                ev.elem[name] = ety
                ev.writable[name] = not const
                st.arrs[name] = z3.Const(name, ev.arr_sort(name))
                st.types[name] = ty0
            else:
                t = unconst(ty)
                st.types[name] = t
                if t == "bool":
                    st.vars[name] = Val(z3.Bool(name), "bool")
                elif t in INT_TYPES:
                    v = z3.Int(name)
                    st.vars[name] = Val(v, "int")
                    ev.range_fact(v, t, st)
                elif t in ("f32", "f64"):
                    st.vars[name] = Val(z3.Const(name, sym.F), "flt")
                else:
                    st.vars[name] = Val(z3.Int(name), "opaque")
        self.init = st.fork()
        for src in self.c.axioms:
            st.assume(self.se.boolean(src, st, init=self.init))
        for src in self.c.requires:
            st.assume(self.se.boolean(src, st, init=self.init))
        for name, sdef in self.c.sums.items():
            self.declare_sum(name, sdef[0], sdef[1], sdef[2], st, sdef[3] if len(sdef) > 3 else (), unit=(len(sdef) > 4 and sdef[4] == "unit"))
        for a, src in self.c.extents.items():
            if a not in st.arrs:
                self.errors.append("contract names unknown array %s" % a)
                continue
            if src is None:
                continue
            ev.extents[a] = self.se.term(src, st, init=self.init)
        self.init = st.fork()
        return st

    def declare_sum(self, name, var, n_src, term_src, st, ctx=(), unit=False):
        """ghost prefix sum S(ctx..., 0)=0, S(ctx..., q+1)=S(ctx..., q)+term(q) for 0<=q<n, plus the lemma that S is
        non-decreasing on [0,n] -- the lemma is not assumed but proved here by induction:
        obligations L.nonneg (every term >= 0 under the precondition) and L.step.
        ctx: names of arrays/scalars the sum depends on; they become leading arguments of the ghost, so the
        same ghost applied to the same buffer is the same term in another function's contract (Engine G)."""
        ev = self.ev
        self.se.ghosts.declare(name, list(ctx) + ["x"], None)
        cvals = []
        for cname in ctx:
            if cname in st.arrs:
                cvals.append(st.arrs[cname])
            elif cname in st.vars and st.vars[cname].k in ("int", "bool"):
                cvals.append(st.vars[cname].t)
            else:
                raise spec.SpecError("sum %s: unknown context %s" % (name, cname))
        Sf = sym.uf("ghost_" + name, *([c.sort() for c in cvals] + [sym.I, sym.I]))

        def S(x):
            return Sf(*(cvals + [x]))
        n = self.se.term(n_src, st, init=self.init)
        q = z3.Int("q?%s" % name)
        tq = self.se.term(term_src, st, init=self.init, bound={var: q})
        tq = self.se.int(tq)
        st.assume(S(z3.IntVal(0)) == 0)
        st.assume(z3.ForAll([q], z3.Implies(z3.And(0 <= q, q < n), S(q + 1) == S(q) + tq), patterns=[S(q + 1)]))
        ev.loc_label = "lemma:" + name
        ev.line = None
        ev.oblige("L.nonneg", z3.ForAll([q], z3.Implies(z3.And(0 <= q, q < n), tq >= 0)), st,
                  "every term of the prefix sum %s is non-negative under the precondition" % name)
        a, b = z3.Int("a?%s" % name), z3.Int("b?%s" % name)
        tb = z3.substitute(tq, (q, b))
        step = z3.Implies(z3.And(0 <= a, a <= b, b < n, S(a) <= S(b), tb >= 0, S(b + 1) == S(b) + tb), S(a) <= S(b + 1))
        ev.oblige("L.step", z3.ForAll([a, b], step), st, "induction step of: %s is non-decreasing" % name)
        st.assume(z3.ForAll([a, b], z3.Implies(z3.And(0 <= a, a <= b, b <= n), S(a) <= S(b)), patterns=[z3.MultiPattern(S(a), S(b))]))
        if unit:
            # terms are 0 or 1 (a count): the count over [a,b) is at most b - a; proved by the same induction
            ev.oblige("L.unit", z3.ForAll([q], z3.Implies(z3.And(0 <= q, q < n), tq <= 1)), st,
                      "every term of the prefix count %s is at most 1" % name)
            step2 = z3.Implies(z3.And(0 <= a, a <= b, b < n, S(b) - S(a) <= b - a, tb <= 1, S(b + 1) == S(b) + tb),
                               S(b + 1) - S(a) <= b + 1 - a)
            ev.oblige("L.step", z3.ForAll([a, b], step2), st, "induction step of: %s grows by at most 1 per element" % name)
            st.assume(z3.ForAll([a, b], z3.Implies(z3.And(0 <= a, a <= b, b <= n), S(b) - S(a) <= b - a),
                                patterns=[z3.MultiPattern(S(a), S(b))]))

    def _checked_store(self, arr, idx, v, st, src_ty=None):
        # keys: "arr" (every store to arr) or "arr@L1" (stores to arr inside the loop labelled L1 only)
        srcs = list(self.c.store_asserts.get(arr, [])) + list(self.c.store_asserts.get("%s@%s" % (arr, self.ev.loc_label), []))
        for src in srcs:
            try:
                val = sym.to_int(v) if v.k in ("int", "bool") else (v.t if v.k == "flt" else None)
                if val is None:
                    continue
                bound = {"value": val, "at": idx}
                if "index" not in st.arrs:        # (a kernel parameter may itself be called `index`)
                    bound["index"] = idx
                claim = self.se.boolean(src, st, init=self.init, bound=bound)
                self.ev.oblige("F.store", claim, st, "at every store to %s: %s" % (arr, src), {"src": src})
            except spec.SpecError as ex:
                self.errors.append("contract error in store_asserts: %s" % ex)
        return self._orig_store(arr, idx, v, st, src_ty)

    # ---- calls (modular: the callee's contract, never its body)
    def call_memcpy(self, ev, e, st):
        """memcpy(dst, src, n) over byte arrays (all kernel uses copy uint8_t buffers): both ranges must lie inside the
        extents of their arrays (S.memcpy), the destination range takes the source bytes, everything else is unchanged"""
        d = ev.ev(e[2][0], st)
        s_ = ev.ev(e[2][1], st)
        n = to_int(ev.ev(e[2][2], st))
        if d.k != "ptr" or s_.k != "ptr" or d.arr not in st.arrs or s_.arr not in st.arrs:
            raise EvalError("memcpy on something that is not a parameter array")
        if ev.elem.get(d.arr) not in ("u8", "i8") or ev.elem.get(s_.arr) not in ("u8", "i8"):
            raise EvalError("memcpy on non-byte arrays")
        for role, v in (("destination", d), ("source", s_)):
            ext = ev.extents.get(v.arr)
            if v.arr in ev.unchecked:
                continue
            if ext is None:
                ev.oblige("S.memcpy", z3.And(n >= 0, v.t >= 0), st, "memcpy %s %s[...]: offset and size non-negative (no extent stated)" % (role, v.arr))
            else:
                ev.oblige("S.memcpy", z3.And(n >= 0, v.t >= 0, v.t + n <= ext), st,
                          "memcpy %s %s[off .. off+n) stays inside the array" % (role, v.arr))
        old, src = st.arrs[d.arr], st.arrs[s_.arr]
        new = ev.fresh(d.arr + "_memcpy", ev.arr_sort(d.arr))
        q = z3.Int("q?memcpy")
        st.assume(z3.ForAll([q], z3.Select(new, q) == z3.If(z3.And(d.t <= q, q < d.t + n),
                                                             z3.Select(src, s_.t + q - d.t), z3.Select(old, q))))
        st.arrs[d.arr] = new
        return Val(IV(0), "opaque")

    def handle_call(self, ev, e, st):
        name = e[1]
        if name == "memcpy" and len(e[2]) == 3 and "memcpy" not in self.contracts:
            return self.call_memcpy(ev, e, st)
        if self.c.stdlib and name in ("iota", "next", "sort", "stable_sort", "transform"):
            return self.call_std(ev, e, st)
        ent = self.contracts.get(self.c.calls.get(name, name))
        if ent is None:
            raise EvalError("call to %s without a contract" % name)
        cc, cfunc = ent
        args = e[2]
        if len(args) != len(cfunc["params"]):
            raise EvalError("call to %s: arity mismatch" % name)
        rty = unconst(cfunc.get("ret") or "void")

        def result_val():
            if rty == "bool":
                return Val(ev.fresh("ret_" + name, z3.BoolSort()), "bool")
            if rty in INT_TYPES:
                t = ev.fresh("ret_" + name)
                ev.range_fact(t, rty, st)
                return Val(t, "int")
            if rty in ("f32", "f64"):
                return Val(ev.fresh("ret_" + name, sym.F), "flt")
            return Val(IV(0), "opaque")

        if cc.pure:
            # the arguments are evaluated (their own safety obligations are generated); nothing is written
            vals = []
            for (pn, pt), a in zip(cfunc["params"], args):
                if pt.startswith("p:") and not pt.startswith("p:c:"):
                    raise EvalError("call to %s: a pure callee cannot take a writable pointer" % name)
                if pt.startswith("x:") or pt.startswith("r:x:"):
                    continue        # a function reference / opaque object handed through
                vals.append(ev.ev(a, st))      # (a template callee: the argument already has the instantiation's type)
                if cc.pure == "uf":
                    # a comparator must see the elements themselves: a conversion that can merge distinct values
                    # (64-bit integers to double, 32/64-bit integers to float) is refused
                    x = a
                    while x[0] == "cast" and len(x) > 3 and x[3] in ("NoOp", "noop"):
                        x = x[1]
                    if x[0] == "cast" and len(x) > 3 and x[3] == "IntegralToFloating":
                        src = sym.expr_type(x[1])
                        bits = INT_TYPES.get(unconst(src or ""), (0, True))[0]
                        lossy = bits > (53 if x[2] == "f64" else 24)
                        ev.oblige("C.lossless", z3.BoolVal(not lossy), st,
                                  "comparator %s is called on the %s elements themselves, not on a lossy conversion to %s" % (name, src, x[2]))
            if cc.pure == "uf" and rty == "bool":
                # a deterministic function of its arguments: the same uninterpreted predicate at every call (and in
                # contracts, where it is written P_<name>(...))
                def raw(v):
                    # an element of a bool array is loaded as `x != 0`: hand the stored integer x itself to the predicate
                    # (the form a contract writes: P_name(a[i], a[j]))
                    if v.k == "bool" and z3.is_distinct(v.t) and v.t.num_args() == 2 and z3.is_int_value(v.t.arg(1)) and v.t.arg(1).as_long() == 0:
                        return v.t.arg(0)
                    return v.t if v.k == "flt" else to_int(v)
                ts = [raw(v) for v in vals]
                return Val(sym.uf("call_%s_%s" % (name, "".join("F" if t.sort() == sym.F else "I" for t in ts)),
                                  *([t.sort() for t in ts] + [sym.B]))(*ts), "bool")
            return result_val()
        cst = State()          # callee's view, before the call
        post_updates = []
        views = []             # (callee param, caller array, offset term)
        for (pn, pt), a in zip(cfunc["params"], args):
            if pt.startswith("p:"):
                if a[0] == "addr" and a[1][0] == "v" and a[1][1] in st.vars:
                    x = a[1][1]
                    ety = unconst(pt[2:])
                    arr0 = z3.K(z3.IntSort(), z3.IntVal(0))
                    cst.arrs[pn] = z3.Store(arr0, 0, to_int(st.vars[x]))
                    post_updates.append(("local", pn, x, None))
                else:
                    v = ev.ev(a, st)
                    if v.k != "ptr" or v.arr not in st.arrs:
                        raise EvalError("call to %s: unsupported pointer argument" % name)
                    zero = z3.is_int_value(v.t) and v.t.as_long() == 0
                    if zero:
                        cst.arrs[pn] = st.arrs[v.arr]
                    else:
                        # a pointer into the middle of a caller array: the callee sees the view q -> a[off + q]
                        q = z3.Int("q?view")
                        cst.arrs[pn] = z3.Lambda([q], z3.Select(st.arrs[v.arr], q + v.t))
                    views.append((pn, v.arr, v.t))
                    if not pt.startswith("p:c:"):
                        post_updates.append(("array", pn, v.arr, None if zero else v.t))
            elif pt.startswith("x:") or pt.startswith("r:x:"):
                cst.vars[pn] = Val(IV(0), "opaque")     # function reference / object: opaque to the contract
                cst.types[pn] = pt
            else:
                v = ev.ev(a, st)
                cst.vars[pn] = ev.coerce(v, unconst(pt)) if v.k != "ptr" else v
                cst.types[pn] = unconst(pt)
        cinit = cst.fork()
        cse = spec.SpecEval(spec.Ghosts(), self.consts)
        for g, (params, body) in cc.ghost.items():
            cse.ghosts.declare(g, params, body)
        # the extents the callee's contract states for its pointer parameters must fit into the caller's arrays
        cext = {}
        for pn, arr, off in views:
            src = cc.extents.get(pn)
            if src is None:
                continue
            ext_c = cse.term(src, cinit, init=cinit)
            cext[pn] = ext_c
            if arr in getattr(ev, "unchecked", ()):
                continue
            ext = ev.extents.get(arr)
            if ext is None:
                ev.oblige("C.extent", off >= 0, st, "callee %s: %s starts at a non-negative position of %s (extent unspecified)" % (name, pn, arr))
            else:
                ev.oblige("C.extent", z3.And(off >= 0, ext_c >= 0, off + ext_c <= ext), st,
                          "callee %s: the %s elements it may touch through %s lie inside %s" % (name, src, pn, arr))
        for src in cc.requires:
            ev.oblige("C.pre", cse.boolean(src, cinit, init=cinit), st, "precondition of callee %s: %s" % (name, src))
        # havoc what the callee may write, then assume its postcondition
        news = {}
        for kind, pn, target, off in post_updates:
            if kind == "local":
                fresh = ev.fresh("%s_after_%s" % (target, name))
                cst.arrs[pn] = z3.Store(cst.arrs[pn], 0, fresh)
            else:
                old = news.get(target, st.arrs[target])
                new = ev.fresh("%s_after_%s" % (target, name), ev.arr_sort(target))
                news[target] = new
                q = z3.Int("q?frame")
                if pn in cext:
                    lo = off if off is not None else IV(0)
                    st.assume(z3.ForAll([q], z3.Implies(z3.Or(q < lo, q >= lo + cext[pn]), z3.Select(new, q) == z3.Select(old, q))))
                if off is None:
                    cst.arrs[pn] = new
                else:
                    cst.arrs[pn] = z3.Lambda([q], z3.Select(new, q + off))
        res = result_val()
        rt = res.t if res.k in ("int", "bool", "flt") else None
        for src in list(cc.ensures) + list(cc.ensures_ok):
            st.assume(cse.boolean(src, cst, init=cinit, result=rt))
        for kind, pn, target, off in post_updates:
            if kind == "local":
                t = z3.Select(cst.arrs[pn], 0)
                st.vars[target] = Val(t, "int")
                ty = st.types.get(target)
                if ty:
                    ev.range_fact(t, ty, st)
            else:
                st.arrs[target] = news[target]
        return res

    # ---- std::vector / <algorithm> built-ins (contract option stdlib=True); their contracts are ASSUMED
    def handle_mcall(self, ev, e, st):
        _, obj, meth, args, ty = e
        if self.c.stdlib and obj[0] == "v" and obj[1] in st.arrs and obj[1] in ev.extents and not args:
            if meth == "begin":
                return Val(IV(0), "ptr", obj[1])
            if meth == "end":
                return Val(ev.extents[obj[1]], "ptr", obj[1])
        raise EvalError("member call %s" % meth)

    def _iter_range(self, ev, a, b, st, what):
        lo, hi = ev.ev(a, st), ev.ev(b, st)
        if lo.k != "ptr" or hi.k != "ptr" or lo.arr != hi.arr or lo.arr not in st.arrs:
            raise EvalError("%s: iterators into different or unknown containers" % what)
        ext = ev.extents.get(lo.arr)
        if ext is None:
            raise EvalError("%s: container without extent" % what)
        ev.oblige("S.iter", z3.And(0 <= lo.t, lo.t <= hi.t, hi.t <= ext), st,
                  "%s: [first, last) is a valid range of %s (0 <= first <= last <= size)" % (what, lo.arr))
        return lo.arr, lo.t, hi.t

    def _lambda_term(self, ev, lam, argvals, st, safety):
        """the value returned by a lambda (single `return expr;` body) for the given parameter values"""
        if lam[0] != "lambda" or len(lam[2]) != 1 or lam[2][0][0] != "ret" or lam[2][0][1][0] != "val" or len(lam[1]) != len(argvals):
            raise EvalError("lambda body is not a single return")
        s2 = st.fork()
        for (pn, pt), v in zip(lam[1], argvals):
            s2.vars[pn] = Val(v, "int")
            s2.types[pn] = unconst(pt)
        old = ev.emit_safety
        ev.emit_safety = safety
        try:
            return ev.ev(lam[2][0][1][1], s2), s2
        finally:
            ev.emit_safety = old

    def call_std(self, ev, e, st):
        name, args = e[1], e[2]
        if name == "next" and len(args) == 2:
            it = ev.ev(args[0], st)
            n = to_int(ev.ev(args[1], st))
            if it.k != "ptr" or it.arr not in st.arrs or ev.extents.get(it.arr) is None:
                raise EvalError("std::next on something that is not an iterator into a local vector")
            ev.oblige("S.iter", z3.And(0 <= it.t + n, it.t + n <= ev.extents[it.arr]), st,
                      "std::next stays inside [begin, end] of %s" % it.arr)
            return Val(it.t + n, "ptr", it.arr)
        if name == "iota" and len(args) == 3:
            arr, lo, hi = self._iter_range(ev, args[0], args[1], st, "std::iota")
            v0 = to_int(ev.ev(args[2], st))
            new = ev.fresh(arr + "_iota", ev.arr_sort(arr))
            q = z3.Int("q?iota")
            st.assume(z3.ForAll([q], z3.Select(new, q) == z3.If(z3.And(lo <= q, q < hi), v0 + (q - lo), z3.Select(st.arrs[arr], q))))
            st.arrs[arr] = new
            return Val(IV(0), "opaque")
        if name == "transform" and len(args) == 4:
            arr, lo, hi = self._iter_range(ev, args[0], args[1], st, "std::transform")
            out = ev.ev(args[2], st)
            if out.k != "ptr" or out.arr != arr or not z3.eq(z3.simplify(out.t - lo), IV(0)):
                raise EvalError("std::transform that is not in place")
            old = st.arrs[arr]
            q = z3.Int("q?transform")
            fv, _ = self._lambda_term(ev, args[3], [z3.Select(old, q)], st, False)
            # safety of the function on every element of the range
            q1 = ev.fresh("q_elem")
            s2 = st.fork()
            s2.assume(z3.And(lo <= q1, q1 < hi))
            self._lambda_term(ev, args[3], [z3.Select(old, q1)], s2, True)
            new = ev.fresh(arr + "_transform", ev.arr_sort(arr))
            st.assume(z3.ForAll([q], z3.Select(new, q) == z3.If(z3.And(lo <= q, q < hi), to_int(fv), z3.Select(old, q))))
            st.arrs[arr] = new
            return Val(IV(0), "opaque")
        if name in ("sort", "stable_sort") and len(args) == 3:
            arr, lo, hi = self._iter_range(ev, args[0], args[1], st, "std::" + name)
            sv = st.vars.get("stable")
            if sv is not None and sv.k == "bool":
                # a request for a stable order must be served by the stable library sort: std::sort gives no such
                # guarantee (libstdc++'s happens to be stable up to 16 elements, which hides it from small tests).
                # Decided over the branch conditions alone (the quantifier-free part of the path condition), so that a
                # violated obligation comes with the flag values that reach the call.
                qf = [h for h in st.pc if "forall" not in h.sexpr() and "exists" not in h.sexpr()]
                claim = z3.BoolVal(True) if name == "stable_sort" else z3.Not(sv.t)
                ev.obls.append(sym.Obligation("C.stable", ev.loc_label, ev.line,
                                              "a call of std::%s is only reached when `stable` is false" % name if name == "sort"
                                              else "a stable order is requested from std::stable_sort", list(ev.facts) + qf, claim, {}))
            old = st.arrs[arr]
            lam = args[2]
            # the comparator is called on pairs of ELEMENTS of the range: whatever it reads must be in bounds
            q1, q2 = ev.fresh("q_elem"), ev.fresh("q_elem")
            s2 = st.fork()
            s2.assume(z3.And(lo <= q1, q1 < hi, lo <= q2, q2 < hi))
            self._lambda_term(ev, lam, [z3.Select(old, q1), z3.Select(old, q2)], s2, True)
            # ASSUMED contract of std::sort / std::stable_sort (the comparator must be a strict weak order: proved for the
            # sort_order_* / argsort_order_* templates by the comparator obligations): the range becomes a permutation
            # of itself, ordered by the comparator (stable_sort: equivalent elements keep their order); nothing else changes
            new = ev.fresh(arr + "_sorted", ev.arr_sort(arr))
            k = next(ev.counter)
            perm = z3.Function("perm!%d" % k, z3.IntSort(), z3.IntSort())
            inv = z3.Function("perminv!%d" % k, z3.IntSort(), z3.IntSort())
            q, a, b = z3.Int("q?sort"), z3.Int("a?sort"), z3.Int("b?sort")
            st.assume(z3.ForAll([q], z3.Implies(z3.And(lo <= q, q < hi),
                                                z3.And(lo <= perm(q), perm(q) < hi, z3.Select(new, q) == z3.Select(old, perm(q)), inv(perm(q)) == q)),
                                patterns=[z3.Select(new, q)]))
            st.assume(z3.ForAll([q], z3.Implies(z3.Or(q < lo, q >= hi), z3.Select(new, q) == z3.Select(old, q)), patterns=[z3.Select(new, q)]))
            cab, _ = self._lambda_term(ev, lam, [z3.Select(new, a), z3.Select(new, b)], st, False)
            cba, _ = self._lambda_term(ev, lam, [z3.Select(new, b), z3.Select(new, a)], st, False)
            st.assume(z3.ForAll([a, b], z3.Implies(z3.And(lo <= a, a < b, b < hi), z3.Not(to_bool(cba)))))
            if name == "stable_sort":
                st.assume(z3.ForAll([a, b], z3.Implies(z3.And(lo <= a, a < b, b < hi, z3.Not(to_bool(cab)), z3.Not(to_bool(cba))), perm(a) < perm(b))))
            st.arrs[arr] = new
            return Val(IV(0), "opaque")
        raise EvalError("std::%s with %d arguments" % (name, len(args)))

    # ---- statements
    def run(self):
        st = self.initial_state()
        try:
            res = self.block(self.f["body"], st)
        except EvalError as ex:
            self.errors.append("untranslatable: %s" % ex)
            return
        except spec.SpecError as ex:
            self.errors.append("contract error: %s" % ex)
            return
        for out, s in res:
            if out == "fall":
                if self.f["ret"] == "void":
                    self.at_return(["void"], s)
                else:
                    self.errors.append("control reaches end of non-void function")
            elif out[0] == "ret":
                self.at_return(out[1], s)
            else:
                self.errors.append("stray %s" % (out,))

    def at_return(self, kind, st):
        ev = self.ev
        self.ret_states.append((kind, st))
        try:
            if kind[0] == "success":
                for i, src in enumerate(self.c.ensures_ok + self.c.ensures):
                    ev.loc_label = "post"
                    ev.oblige("F.ensures_ok", self.se.boolean(src, st, init=self.init), st,
                              "ensures(ok)[%d]: %s" % (i, src), {"src": src})
            elif kind[0] == "failure":
                idv = ev.ev(kind[2], st) if kind[2] is not None else None
                atv = ev.ev(kind[3], st) if kind[3] is not None else None
                s2 = st.fork()
                if idv is not None:
                    s2.vars["err_identity"] = Val(to_int(idv), "int")
                if atv is not None:
                    s2.vars["err_attempt"] = Val(to_int(atv), "int")
                for i, src in enumerate(self.c.ensures_fail):
                    ev.loc_label = "post"
                    ev.oblige("F.ensures_fail", self.se.boolean(src, s2, init=self.init), s2,
                              "ensures(fail)[%d]: %s" % (i, src), {"src": src})
            elif kind[0] == "val":
                v = ev.ev(kind[1], st)
                res = v.t if v.k in ("int", "bool", "flt") else None
                for i, src in enumerate(self.c.ensures):
                    ev.loc_label = "post"
                    ev.oblige("F.ensures", self.se.boolean(src, st, init=self.init, result=res), st,
                              "ensures[%d]: %s" % (i, src), {"src": src})
            elif kind[0] == "void":
                for i, src in enumerate(self.c.ensures):
                    ev.loc_label = "post"
                    ev.oblige("F.ensures", self.se.boolean(src, st, init=self.init), st,
                              "ensures[%d]: %s" % (i, src), {"src": src})
            elif kind[0] == "fwd":
                pass
        except spec.SpecError as ex:
            self.errors.append("contract error in ensures: %s" % ex)

    def block(self, stmts, st):
        """returns list of (outcome, state); outcome 'fall' | 'break' | 'continue' | ('ret', kind)"""
        cur = [st]
        done = []
        for s in stmts:
            nxt = []
            for c in cur:
                for out, s2 in self.stmt(s, c):
                    if out == "fall":
                        nxt.append(s2)
                    else:
                        done.append((out, s2))
            if not nxt:
                cur = []
                break
            if len(nxt) > 1:
                try:
                    cur = [merge_states(nxt)]
                except EvalError:
                    cur = nxt        # states that cannot be joined (e.g. a buffer reallocated on one path) stay separate
            else:
                cur = nxt
        return [("fall", c) for c in cur] + done

    def stmt(self, s, st):
        k = s[0]
        ev = self.ev
        ev.line = s[-1] if isinstance(s[-1], int) else ev.line
        if k == "decl":
            _, name, ty, init, ln = s
            ty = unconst(ty)
            if self.c.stdlib and ty.startswith("x:std::vector<") and init is not None and init[0] == "construct" and len(init[2]) >= 1:
                # std::vector<int64_t> v(n): a local array of n zero-initialised elements (a negative n would be an
                # enormous allocation: S.alloc)
                if ty not in ("x:std::vector<long>", "x:std::vector<int64_t>"):
                    raise EvalError("vector element type %s" % ty)
                nexpr = init[2][0]
                while nexpr[0] == "cast":
                    nexpr = nexpr[1]
                n = to_int(ev.ev(nexpr, st))
                ev.oblige("S.alloc", n >= 0, st, "std::vector %s is created with a non-negative size" % name)
                ev.elem[name] = "i64"
                ev.writable[name] = True
                ev.extents[name] = n
                st.arrs[name] = z3.K(z3.IntSort(), z3.IntVal(0))
                st.vars[name] = Val(IV(0), "ptr", name)
                st.types[name] = "p:i64"
                return [("fall", st)]
            st.types[name] = ty
            if init is not None:
                v = ev.ev(init, st)
                if v.k == "ptr":
                    st.vars[name] = v
                elif sym.expr_type(init) == ty and ty != "bool":
                    st.vars[name] = v
                else:
                    st.vars[name] = ev.coerce(v, ty)
            else:
                if ty.startswith("p:"):
                    st.vars[name] = Val(IV(0), "ptr", "<null>")
                elif ty == "bool":
                    st.vars[name] = Val(ev.fresh(name + "_uninit", z3.BoolSort()), "bool")
                elif ty in ("f32", "f64"):
                    st.vars[name] = Val(ev.fresh(name + "_uninit", sym.F), "flt")
                else:
                    t = ev.fresh(name + "_uninit")
                    st.vars[name] = Val(t, "int")
                    ev.range_fact(t, ty, st)
            return [("fall", st)]
        if k == "expr":
            ev.ev(s[1], st)
            return [("fall", st)]
        if k == "block":
            return self.block(s[1], st)
        if k == "if":
            c = to_bool(ev.ev(s[1], st))
            a, b = st.fork(), st.fork()
            a.assume(c)
            b.assume(z3.Not(c))
            return self.block(s[2], a) + self.block(s[3], b)
        if k == "ret":
            return [(("ret", s[1]), st)]
        if k == "break":
            return [("break", st)]
        if k == "continue":
            return [("continue", st)]
        if k == "for":
            _, init, cond, inc, body, ln = s
            res = self.block(init, st)
            st = res[0][1]
            return self.loop(self.labels[id(s)], cond, inc, body, st, ln)
        if k == "while":
            return self.loop(self.labels[id(s)], s[1], None, s[2], st, s[3])
        if k == "pyfor":
            _, var, lo, hi, step, body, ln = s
            # CPython: range bounds are evaluated once
            lov, hiv, stv = ev.ev(lo, st), ev.ev(hi, st), ev.ev(step, st)
            st.vars[var] = Val(to_int(lov), "int")
            hname, sname = "%s$hi" % var, "%s$step" % var
            st.vars[hname] = Val(to_int(hiv), "int")
            st.vars[sname] = Val(to_int(stv), "int")
            cond = ["pycond", var, hname, sname]
            inc = ["casg", "+", ["v", var, "py"], ["v", sname, "py"], "py", "py"]
            return self.loop(self.labels[id(s)], cond, inc, body, st, ln)
        raise EvalError("statement %s" % k)

    # ---- loops
    def candidates(self, label, st, mod_vars):
        """auto candidate invariants (Houdini): simple order relations among integer scalars"""
        cands = {}
        ints = [n for n, v in st.vars.items() if v.k == "int" and "$" not in n]
        M = sorted(n for n in ints if n in mod_vars)
        T = sorted(n for n in ints if n not in mod_vars)

        def add(cid, fn):
            cands[cid] = fn

        for v in M:
            add("%s>=0" % v, lambda s, en, v=v: s.vars[v].t >= 0)
            add("%s>=entry" % v, lambda s, en, v=v: s.vars[v].t >= en.vars[v].t)
            add("%s<=entry" % v, lambda s, en, v=v: s.vars[v].t <= en.vars[v].t)
            for p in T:
                add("%s<=%s" % (v, p), lambda s, en, v=v, p=p: s.vars[v].t <= s.vars[p].t)
                add("%s>=%s" % (v, p), lambda s, en, v=v, p=p: s.vars[v].t >= s.vars[p].t)
                add("%s<=max(%s,entry)" % (v, p), lambda s, en, v=v, p=p: z3.Or(s.vars[v].t <= s.vars[p].t, s.vars[v].t <= en.vars[v].t))
            for w in M:
                if w == v:
                    continue
                add("%s<=%s" % (v, w), lambda s, en, v=v, w=w: s.vars[v].t <= s.vars[w].t)
                add("d%s<=d%s" % (v, w), lambda s, en, v=v, w=w:
                    s.vars[v].t - en.vars[v].t <= s.vars[w].t - en.vars[w].t)
        return cands

    def loop(self, label, cond, inc, body, st, ln):
        ev = self.ev
        entry = st.fork()
        mv, ma = modified([cond, inc, body])
        # resolve pointer-valued locals used as store bases to their arrays
        arrs_mod = set()
        unknown = False
        for b in ma:
            if b in st.arrs:
                arrs_mod.add(b)
            elif b in st.vars and st.vars[b].k == "ptr" and st.vars[b].arr in st.arrs:
                arrs_mod.add(st.vars[b].arr)
            else:
                unknown = True
        if unknown:
            arrs_mod = set(a for a in st.arrs if ev.writable.get(a, True))
        # invariants
        given = list(self.c.loops.get(label, []))
        if label not in self.cands:
            self.cands[label] = self.candidates(label, st, mv) if self.auto else {}
            if label not in self.active:
                self.active[label] = set(self.cands[label])
        act = [cid for cid in sorted(self.active.get(label, ())) if cid in self.cands[label]]

        def inv_terms(s):
            out = []
            for i, src in enumerate(given):
                out.append(("given", i, src, self.se.boolean(src, s, init=self.init, entry=entry)))
            for cid in act:
                try:
                    out.append(("auto", cid, cid, self.cands[label][cid](s, entry)))
                except KeyError:
                    pass
            return out

        ev.loc_label = label
        ev.line = ln
        for kind, i, src, t in inv_terms(st):
            ev.oblige("I.entry", t, st, "invariant holds on entry: %s" % src,
                      {"auto": kind == "auto", "cand": [label, i], "src": src})
        h = st.fork()
        for v in mv:
            if v in h.vars:
                old = h.vars[v]
                if old.k == "ptr":
                    h.vars[v] = Val(ev.fresh(v + "@" + label), "ptr", old.arr)
                elif old.k == "bool":
                    h.vars[v] = Val(ev.fresh(v + "@" + label, z3.BoolSort()), "bool")
                elif old.k == "flt":
                    h.vars[v] = Val(ev.fresh(v + "@" + label, sym.F), "flt")
                else:
                    t = ev.fresh(v + "@" + label)
                    h.vars[v] = Val(t, old.k)
                    ty = h.types.get(v)
                    if ty:
                        ev.range_fact(t, ty, h)
        for a in arrs_mod:
            h.arrs[a] = ev.fresh(a + "@" + label, ev.arr_sort(a))
        for kind, i, src, t in inv_terms(h):
            h.assume(t)
        if cond is None:
            g = z3.BoolVal(True)
        elif cond[0] == "pycond":
            _, var, hname, sname = cond
            i_, hi_, s_ = h.vars[var].t, h.vars[hname].t, h.vars[sname].t
            g = z3.If(s_ > 0, i_ < hi_, i_ > hi_)
        else:
            g = to_bool(ev.ev(cond, h))
        inside = h.fork()
        inside.assume(g)
        outside = h.fork()
        outside.assume(z3.Not(g))
        vsrc = self.c.variants.get(label)
        v0 = None
        if vsrc is not None:
            v0 = self.se.term(vsrc, inside, init=self.init, entry=entry)
            ev.loc_label = label
            ev.oblige("T.bounded", v0 >= 0, inside, "variant %s >= 0 while the loop runs" % vsrc, {"src": vsrc})
        res = self.block(body, inside)
        exits = [outside]
        rets = []
        conts = []
        for out, s in res:
            if out in ("fall", "continue"):
                conts.append(s)
            elif out == "break":
                exits.append(s)
            else:
                rets.append((out, s))
        if conts:
            s = merge_states(conts)
            if inc is not None:
                ev.line = ln
                ev.ev(inc, s)
            ev.loc_label = label
            ev.line = ln
            for kind, i, src, t in inv_terms(s):
                ev.oblige("I.preserve", t, s, "invariant preserved: %s" % src,
                          {"auto": kind == "auto", "cand": [label, i], "src": src})
            if vsrc is not None:
                v1 = self.se.term(vsrc, s, init=self.init, entry=entry)
                ev.oblige("T.decreases", v1 < v0, s, "variant %s decreases" % vsrc, {"src": vsrc})
        return [("fall", e) for e in exits] + rets


# --------------------------------------------------------------------------
def solve(ob, timeout_ms=10000):
    t0 = time.time()
    s = z3.Solver()
    s.set("timeout", timeout_ms)
    for h in ob.hyps:
        s.add(h)
    s.add(z3.Not(ob.claim))
    r = s.check()
    ob.time = time.time() - t0
    ob.backend = "z3"
    if r == z3.unsat:
        ob.status = "proved"
    elif r == z3.sat:
        ob.status = "refuted"
        try:
            ob.model = s.model()
        except Exception:
            ob.model = None
    else:
        ob.status = "unknown"
        ob.meta["smt2"] = s.to_smt2()
    return ob.status


def houdini(make_unit, timeout_ms=3000, max_iter=40):
    """iterate: drop auto candidates that are not inductive; returns the final Unit
    (already run; every remaining auto-invariant obligation is proved)"""
    active = {}
    it = 0
    while True:
        it += 1
        u = make_unit(active)
        u.run()
        if u.errors:
            return u, it
        dropped = False
        for ob in u.ev.obls:
            if ob.kind in ("I.entry", "I.preserve") and ob.meta.get("auto"):
                if solve(ob, timeout_ms) != "proved":
                    lab, cid = ob.meta["cand"]
                    if cid in active.get(lab, ()):
                        active[lab].discard(cid)
                        dropped = True
        if not dropped:
            return u, it
        if it >= max_iter:
            for k in active:
                active[k] = set()
