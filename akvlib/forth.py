"""Engine M units for the AwkwardForth virtual machine (C19): every `case CODE_*` block of
ForthMachineOf<int64_t,int32_t>::internal_run is a verification unit of its own, extracted from
the clang AST of the working tree, plus ForthInputBuffer / reset() units."""
import copy, os, re, time

import z3

from . import cast, vcgen, munit, sym, spec

FM = os.path.join(cast.REPO, "src", "libawkward", "forth", "ForthMachine.cpp")
FI = os.path.join(cast.REPO, "src", "libawkward", "forth", "ForthInputBuffer.cpp")
FO = os.path.join(cast.REPO, "src", "libawkward", "forth", "ForthOutputBuffer.cpp")

# machine state (data members of ForthMachineOf) used by the interpreter loop, with their C types
STATE = [
    ("stack_buffer_", "p:i64"), ("stack_depth_", "i64"), ("stack_max_depth_", "i64"),
    ("variables_", "x:std::vector<long>"), ("bytecodes_", "x:std::vector<int>"),
    ("bytecodes_offsets_", "x:std::vector<long>"),
    ("current_which_", "p:i64"), ("current_where_", "p:i64"),
    ("recursion_current_depth_", "i64"), ("recursion_max_depth_", "i64"),
    ("do_recursion_depth_", "p:i64"), ("do_stop_", "p:i64"), ("do_i_", "p:i64"), ("do_current_depth_", "i64"),
    ("current_error_", "enum"), ("is_ready_", "bool"),
    ("count_instructions_", "i64"), ("count_reads_", "i64"), ("count_writes_", "i64"), ("count_nanoseconds_", "i64"),
    ("output_initial_size_", "i64"),
]
LOCALS = [("bytecode", "i32"), ("single_step", "bool"), ("recursion_target_depth_top", "i64")]

# machine invariant: what every instruction may assume and must re-establish
INV = [
    "0 <= stack_depth_ <= stack_max_depth_",
    "0 <= recursion_current_depth_ <= recursion_max_depth_",
    "0 <= do_current_depth_ <= recursion_max_depth_",
]
EXTENTS = {"stack_buffer_": "stack_max_depth_", "current_which_": "recursion_max_depth_",
           "current_where_": "recursion_max_depth_", "do_recursion_depth_": "recursion_max_depth_",
           "do_stop_": "recursion_max_depth_", "do_i_": "recursion_max_depth_"}
UNCHECKED = ["variables_", "bytecodes_", "bytecodes_offsets_"]


def parse_defines():
    txt = open(FM).read()
    env = {}
    for m in re.finditer(r"^\s*#define\s+(CODE_\w+|READ_\w+|BOUND_DICTIONARY)\s+(.+?)\s*$", txt, re.M):
        try:
            env[m.group(1)] = int(eval(m.group(2), {"__builtins__": {}}, dict(env)))
        except Exception:
            pass
    return env


def parse_enum(header, name):
    txt = open(header).read()
    m = re.search(r"enum\s+class\s+%s\s*\{(.*?)\}" % name, txt, re.S)
    out = {}
    if not m:
        return out
    body = re.sub(r"//[^\n]*", "", m.group(1))
    i = 0
    for tok in body.split(","):
        tok = tok.strip()
        if not tok:
            continue
        if "=" in tok:
            nm, val = tok.split("=")
            i = int(val.strip(), 0)
            tok = nm.strip()
        out[tok] = i
        i += 1
    return out


# documented meaning of the stack words: (number of cells consumed, results in terms of the consumed
# cells a (deepest) .. c (top), optional error condition).  Spec functions: Python floor division/modulo.
T = "-1"   # Forth true
WORDS = {
    "CODE_DUP":    (1, ["a", "a"]),
    "CODE_DROP":   (1, []),
    "CODE_SWAP":   (2, ["b", "a"]),
    "CODE_OVER":   (2, ["a", "b", "a"]),
    "CODE_ROT":    (3, ["b", "c", "a"]),
    "CODE_NIP":    (2, ["b"]),
    "CODE_TUCK":   (2, ["b", "a", "b"]),
    "CODE_ADD":    (2, ["a + b"]),
    "CODE_SUB":    (2, ["a - b"]),
    "CODE_MUL":    (2, ["a * b"]),
    "CODE_DIV":    (2, ["a // b"], "b == 0"),
    "CODE_MOD":    (2, ["a % b"], "b == 0"),
    "CODE_DIVMOD": (2, ["a % b", "a // b"], "b == 0"),
    "CODE_NEGATE": (1, ["-a"]),
    "CODE_ADD1":   (1, ["a + 1"]),
    "CODE_SUB1":   (1, ["a - 1"]),
    "CODE_ABS":    (1, ["abs(a)"]),
    "CODE_MIN":    (2, ["min(a, b)"]),
    "CODE_MAX":    (2, ["max(a, b)"]),
    "CODE_EQ":     (2, ["ite(a == b, -1, 0)"]),
    "CODE_NE":     (2, ["ite(a != b, -1, 0)"]),
    "CODE_GT":     (2, ["ite(a > b, -1, 0)"]),
    "CODE_GE":     (2, ["ite(a >= b, -1, 0)"]),
    "CODE_LT":     (2, ["ite(a < b, -1, 0)"]),
    "CODE_LE":     (2, ["ite(a <= b, -1, 0)"]),
    "CODE_EQ0":    (1, ["ite(a == 0, -1, 0)"]),
    "CODE_INVERT": (1, ["-a - 1"]),
    "CODE_I":      (0, ["old(do_i_[do_current_depth_ - 1])"]),
    "CODE_J":      (0, ["old(do_i_[do_current_depth_ - 2])"]),
    "CODE_K":      (0, ["old(do_i_[do_current_depth_ - 3])"]),
    "CODE_FALSE":  (0, ["0"]),
    "CODE_TRUE":   (0, ["-1"]),
}


def word_contract(code):
    """exit obligations for a documented stack word"""
    if code not in WORDS:
        return [], []
    w = WORDS[code]
    n, outs = w[0], w[1]
    err = w[2] if len(w) > 2 else None
    names = ["a", "b", "c"][:n]
    # cells consumed, in the initial state
    sub = {nm: "old(stack_buffer_[old(stack_depth_) - %d])" % (n - i) for i, nm in enumerate(names)}

    def inst(e):
        return re.sub(r"\b([abc])\b", lambda m: sub[m.group(1)], e)
    ok = ["stack_depth_ == old(stack_depth_) - %d + %d" % (n, len(outs))]
    for i, e in enumerate(outs):
        ok.append("stack_buffer_[old(stack_depth_) - %d + %d] == %s" % (n, i, inst(e)))
    # frame: cells below the consumed ones are untouched
    ok.append("forall(q, 0, old(stack_depth_) - %d, stack_buffer_[q] == old(stack_buffer_[q]))" % n)
    ok.append("current_error_ == ERR_none")
    pre_ok = ["old(stack_depth_) >= %d" % n, "old(stack_depth_) - %d + %d <= stack_max_depth_" % (n, len(outs))]
    if err:
        pre_ok.append("not (%s)" % inst(err))
    brk = ["implies(True, %s)" % " and ".join("(%s)" % x for x in pre_ok)] + ok
    ret = ["current_error_ != ERR_none",
           "implies(old(stack_depth_) < %d, current_error_ == ERR_stack_underflow)" % n,
           "implies(old(stack_depth_) >= %d and old(stack_depth_) - %d + %d > stack_max_depth_, current_error_ == ERR_stack_overflow)" % (n, n, len(outs)),
           "stack_depth_ <= old(stack_depth_) or current_error_ == ERR_stack_overflow"]
    if err:
        ret.append("implies(old(stack_depth_) >= %d and (%s), current_error_ == ERR_division_by_zero)" % (n, inst(err)))
        ret.append("old(stack_depth_) < %d or (%s)" % (n, inst(err)))
    else:
        ret.append("old(stack_depth_) < %d or old(stack_depth_) - %d + %d > stack_max_depth_" % (n, n, len(outs)))
    return brk, ret


def find_switch(stmts, best=None):
    for s in stmts:
        if not isinstance(s, list) or not s:
            continue
        if s[0] == "switch":
            if best is None or len(s[2]) > len(best[2]):
                best = s
        for x in s:
            if isinstance(x, list) and x and isinstance(x[0], list):
                best = find_switch(x, best)
    return best


def load():
    r = cast.extract_class_methods(FM, "ForthMachineOf", ["i64", "i32"])
    return r


def run_units(selected=None, timeout_ms=10000):
    """returns list of unit result dicts"""
    from . import check as check_mod
    r = load()
    methods = r["methods"]
    defines = parse_defines()
    enums = parse_enum(os.path.join(cast.REPO, "include", "awkward", "util.h"), "ForthError")
    consts = dict(cast.global_constants())
    for k, v in enums.items():
        consts["ERR_" + k] = v
    consts.update(defines)
    code_names = {v: k for k, v in defines.items() if k.startswith("CODE_")}
    results = []
    if "internal_run" not in methods or methods["internal_run"][0].get("body") is None:
        return [{"unit": "ForthMachineOf::internal_run", "errors": ["internal_run not found / not translatable"], "obligations": []}]
    helpers = munit.pure_helpers(methods)
    body = munit.subst_helpers(methods["internal_run"][0]["body"], helpers)
    sw = find_switch(body)
    if sw is None:
        return [{"unit": "ForthMachineOf::internal_run", "errors": ["instruction switch not found"], "obligations": []}]
    variables = STATE + LOCALS
    units = []
    for val, label, stmts, line in sw[2]:
        try:
            num = int(label)
        except Exception:
            num = None
        cname = code_names.get(num, "case_%s" % label)
        if selected and cname not in selected:
            continue
        brk, ret = word_contract(cname)
        pre = list(INV) + ["recursion_current_depth_ >= 1", "current_error_ == ERR_none", "stack_max_depth_ >= 0",
                           "bytecode == %s" % (num if num is not None else 0)]
        # `i`, `j`, `k` are only compiled inside that many nested do-loops (compile-time property of the bytecode, assumed)
        pre += {"CODE_I": ["do_current_depth_ >= 1"], "CODE_J": ["do_current_depth_ >= 2"], "CODE_K": ["do_current_depth_ >= 3"]}.get(cname, [])
        unchecked = list(UNCHECKED)
        inv_exit = list(INV)
        if cname == "CODE_EXIT":
            # the operand of `exit` (how many levels to leave) is produced by the compiler; its range is a
            # compile-time property of the bytecode and is not under contract here
            unchecked += ["current_which_", "current_where_"]
            inv_exit = [INV[0], INV[2]]
        c = vcgen.Contract(cname, extents=dict(EXTENTS), requires=pre,
                           unchecked=unchecked, nonneg=[], inout=["current_error_"])
        on_exit = {"break": list(INV) + ["recursion_current_depth_ >= 1"] + brk, "ret": inv_exit + ret if ret else inv_exit,
                   "fall": inv_exit, "goto": inv_exit, "continue": list(INV) + ["recursion_current_depth_ >= 1"]}
        units.append((cname, stmts, c, on_exit, line))
    for cname, stmts, c, on_exit, line in units:
        t0 = time.time()
        res = {"unit": "ForthMachineOf<int64_t,int32_t>::internal_run/" + cname, "obligations": [], "errors": [], "line": line}
        try:
            u, iters = vcgen.houdini(lambda act: munit.MUnit(cname, copy.deepcopy(stmts), variables, c, consts, methods, enums,
                                                              on_exit=on_exit, active=act), timeout_ms=3000)
            if u.errors:
                res["errors"] = list(u.errors)
            else:
                # vacuity: at least one exit reachable
                reach = False
                for kind, st in u.ret_states:
                    s = z3.Solver()
                    s.set("timeout", 3000)
                    for h in st.pc:
                        s.add(h)
                    if s.check() != z3.unsat:
                        reach = True
                        break
                if not reach:
                    res["errors"].append("vacuous: no exit of %s reachable under the machine invariant" % cname)
                res["exits"] = sorted({k for k, _, _ in u.exits})
                n = 0
                for ob in u.ev.obls:
                    if ob.status is None:
                        check_mod.discharge(ob)
                    if ob.meta.get("auto"):
                        continue
                    rec = check_mod.ob_record(res["unit"], n, ob)
                    rec["unit"] = res["unit"]
                    res["obligations"].append(rec)
                    n += 1
        except Exception:
            import traceback
            res["errors"].append("crash: " + traceback.format_exc()[-1200:])
        res["time"] = time.time() - t0
        results.append(res)
    return results


def _finish(res, u, t0):
    from . import check as check_mod
    if u.errors:
        res["errors"] = list(u.errors)
    else:
        reach = False
        for kind, st in u.ret_states:
            s_ = z3.Solver()
            s_.set("timeout", 3000)
            for h in st.pc:
                s_.add(h)
            if s_.check() != z3.unsat:
                reach = True
                break
        if not reach:
            res["errors"].append("vacuous: no exit of %s reachable" % res["unit"])
        res["exits"] = sorted({k for k, _, _ in u.exits})
        n = 0
        for ob in u.ev.obls:
            if ob.status is None:
                check_mod.discharge(ob)
            if ob.meta.get("auto"):
                continue
            rec = check_mod.ob_record(res["unit"], n, ob)
            rec["unit"] = res["unit"]
            res["obligations"].append(rec)
            n += 1
    res["time"] = time.time() - t0
    return res


def run_buffer_units():
    """ForthInputBuffer::read/seek/skip (position stays inside the buffer) and ForthMachineOf::reset"""
    out = []
    enums = parse_enum(os.path.join(cast.REPO, "include", "awkward", "util.h"), "ForthError")
    consts = dict(cast.global_constants())
    for k, v in enums.items():
        consts["ERR_" + k] = v
    r = cast.extract_file(FI, filt="ForthInputBuffer", tolerant=True)
    byname = {}
    for f in r["functions"]:
        byname.setdefault(f["name"], f)
    INVB = ["0 <= pos_ <= length_"]
    specs = {
        "read": (["num_bytes"], INVB + ["err == ERR_read_beyond or (num_bytes >= 0 and pos_ == old(pos_) + num_bytes and err == old(err))",
                                         "implies(old(num_bytes < 0 or pos_ + num_bytes > length_), err == ERR_read_beyond and pos_ == old(pos_))"]),
        "seek": (["to"], INVB + ["implies(old(0 <= to and to <= length_), pos_ == to and err == old(err))",
                                  "implies(old(to < 0 or to > length_), err == ERR_seek_beyond and pos_ == old(pos_))"]),
        "skip": (["num_bytes"], INVB + ["implies(old(0 <= pos_ + num_bytes and pos_ + num_bytes <= length_), pos_ == old(pos_) + num_bytes and err == old(err))",
                                         "implies(old(pos_ + num_bytes < 0 or pos_ + num_bytes > length_), err == ERR_skip_beyond and pos_ == old(pos_))"]),
    }
    for name, (params, post) in specs.items():
        t0 = time.time()
        res = {"unit": "ForthInputBuffer::" + name, "obligations": [], "errors": []}
        f = byname.get(name)
        if f is None or f.get("body") is None:
            res["errors"].append("method not found / not translatable")
            out.append(res)
            continue
        variables = [("pos_", "i64"), ("length_", "i64"), ("offset_", "i64"), ("ptr_", "x:shared_ptr")] + \
                    [(pn, "i64") for pn, pt in f["params"]]
        c = vcgen.Contract(name, requires=list(INVB) + ["offset_ >= 0"], nonneg=[])
        try:
            u, _ = vcgen.houdini(lambda act: munit.MUnit(name, copy.deepcopy(f["body"]), variables, c, consts, {}, enums,
                                                          on_exit={"ret": post, "fall": post}, active=act), timeout_ms=3000)
            _finish(res, u, t0)
        except Exception:
            import traceback
            res["errors"].append("crash: " + traceback.format_exc()[-1200:])
        out.append(res)
    # reset(): every piece of run state is cleared (a run is a function of source and inputs only)
    t0 = time.time()
    res = {"unit": "ForthMachineOf<int64_t,int32_t>::reset", "obligations": [], "errors": []}
    fm = load()
    ms = fm["methods"].get("reset")
    if not ms or ms[0].get("body") is None:
        res["errors"].append("reset not found / not translatable")
    else:
        variables = STATE + [("recursion_target_depth_", "x:stack"), ("current_inputs_", "x:vec"), ("current_outputs_", "x:vec")]
        post = ["stack_depth_ == 0", "recursion_current_depth_ == 0", "do_current_depth_ == 0",
                "current_error_ == ERR_none", "not is_ready_"]
        c = vcgen.Contract("reset", requires=[], nonneg=[], unchecked=list(UNCHECKED))
        try:
            u, _ = vcgen.houdini(lambda act: munit.MUnit("reset", copy.deepcopy(ms[0]["body"]), variables, c, consts,
                                                          fm["methods"], enums, on_exit={"ret": post, "fall": post}, active=act),
                                 timeout_ms=3000)
            _finish(res, u, t0)
        except Exception:
            import traceback
            res["errors"].append("crash: " + traceback.format_exc()[-1200:])
    out.append(res)
    return out


def run_output_units():
    """ForthOutputBufferOf<int64_t>: every write keeps 0 <= length_ <= reserved_, writes only inside the
    (possibly reallocated) buffer, never through a pointer taken before a reallocation, and preserves the
    prefix already written (so results do not depend on the growth settings)"""
    out = []
    enums = parse_enum(os.path.join(cast.REPO, "include", "awkward", "util.h"), "ForthError")
    consts = dict(cast.global_constants())
    for k, v in enums.items():
        consts["ERR_" + k] = v
    r = cast.extract_class_methods(FO, "ForthOutputBufferOf", ["i64"])
    methods = r["methods"]
    INVO = ["0 <= length_ <= reserved_"]
    resize = {"this.maybe_resize": {"requires": [], "havoc": ["reserved_"],
                                    "ensures": ["reserved_ >= arg0", "reserved_ >= entry(reserved_)"],
                                    "realloc": ["ptr_"]}}
    PREFIX = "forall(q, 0, old(length_), ptr_[q] == old(ptr_[q]))"
    # the non-template write_<type> wrappers call the write_copy<IN> member template: modular, by its contract
    # (proved for every instantiation as its own unit below)
    resize = dict(resize)
    resize["this.write_copy"] = {"requires": ["arg0 >= 0"], "havoc": ["length_", "reserved_"],
                                 "ensures": ["length_ == entry(length_) + arg0", "0 <= length_ <= reserved_"],
                                 "realloc": ["ptr_"]}
    targets = []
    for name, fs in sorted(methods.items()):
        if name in ("write_one", "write_copy"):
            for f in fs:
                targets.append((name + "<" + ",".join(f["targs"]) + ">", f, "int64_t", "i64"))
        elif name == "dup" or name.startswith("write_"):
            targets.append((name, fs[0], "int64_t", "i64"))
    # the explicit specializations ForthOutputBufferOf<T>::write_<T> (same-type fast path: memcpy + in-place byte swap
    # of the appended items) of every other instantiation: same contract -- in particular the prefix already written
    # is untouched, so the swap must hit the appended region only
    FAST = [("bool", "bool", "write_bool"), ("int8_t", "i8", "write_int8"), ("int16_t", "i16", "write_int16"),
            ("int32_t", "i32", "write_int32"), ("uint8_t", "u8", "write_uint8"), ("uint16_t", "u16", "write_uint16"),
            ("uint32_t", "u32", "write_uint32"), ("uint64_t", "u64", "write_uint64"),
            ("float", "f32", "write_float32"), ("double", "f64", "write_float64")]
    for cname, ty, mname in FAST:
        try:
            r2 = cast.extract_class_methods(FO, "ForthOutputBufferOf", [ty])
        except Exception as ex:
            out.append({"unit": "ForthOutputBufferOf<%s>::%s" % (cname, mname), "obligations": [], "errors": ["extraction failed: %s" % ex]})
            continue
        fs = r2["methods"].get(mname)
        if not fs:
            out.append({"unit": "ForthOutputBufferOf<%s>::%s" % (cname, mname), "obligations": [], "errors": ["method not found"]})
            continue
        targets.append((mname, fs[0], cname, ty))
    for uname, f, cname, elty in targets:
        t0 = time.time()
        res = {"unit": "ForthOutputBufferOf<%s>::%s" % (cname, uname), "obligations": [], "errors": []}
        if f.get("body") is None:
            res["errors"].append("not translatable: %s" % f.get("unsupported"))
            out.append(res)
            continue
        variables = [("length_", "i64"), ("reserved_", "i64"), ("resize_", "f64")]
        pre = list(INVO)
        post = list(INVO) + [PREFIX]
        for pn, pt in f["params"]:
            variables.append((pn, "i64" if pt.startswith("r:") or pt.startswith("x:") else pt))
        if uname.startswith("write_copy") or (uname.startswith("write_") and not uname.startswith("write_one") and not uname.startswith("write_add")):
            pre += ["num_items >= 0"]
            post += ["length_ == old(length_) + num_items"]
        if uname.startswith("write_one"):
            post += ["length_ == old(length_) + 1"]
        if uname == "dup":
            post = list(INVO) + [PREFIX, "implies(old(length_ > 0 and num_times > 0), length_ == old(length_) + num_times)",
                                 "implies(old(length_ > 0 and num_times > 0), forall(q, old(length_), length_, ptr_[q] == old(ptr_[length_ - 1])))"]
        ext = {}
        for pn, pt in f["params"]:
            if pt.startswith("p:"):
                ext[pn] = "num_items"
        loops = {"L0": ["0 <= i", PREFIX]} if (uname.startswith("write_copy") or uname == "dup") else {}
        if uname == "dup":
            loops["L0"].append("forall(q, old(length_), old(length_) + i, ptr_[q] == old(ptr_[length_ - 1]))")
        c = vcgen.Contract(uname, requires=pre, nonneg=[], extents=ext, calls=resize, inout=["err"], loops=loops)
        try:
            def mk(act):
                u = munit.MUnit(uname, copy.deepcopy(f["body"]), variables, c, consts, methods, enums,
                                on_exit={"ret": post, "fall": post}, active=act)
                u.buffers = {"ptr_": (elty, "reserved_")}
                u.track_swaps = True
                return u
            u, _ = vcgen.houdini(mk, timeout_ms=3000)
            _finish(res, u, t0)
        except Exception:
            import traceback
            res["errors"].append("crash: " + traceback.format_exc()[-1200:])
        out.append(res)
    return out


def _strip_lines(n):
    """IR without line numbers (structural comparison)"""
    if isinstance(n, list):
        if n and isinstance(n[0], str) and (isinstance(n[-1], int) or n[-1] is None) and n[0] in (
                "decl", "expr", "if", "for", "while", "dowhile", "ret", "break", "continue", "block", "goto", "label", "switch"):
            n = n[:-1]
        return [_strip_lines(x) for x in n]
    return n


def _find_single_step_ifs(stmts, out):
    for s in stmts:
        if not isinstance(s, list) or not s:
            continue
        if s[0] == "if" and s[1] == ["v", "single_step", "bool"]:
            out.append(s)
        for x in s:
            if isinstance(x, list) and x and isinstance(x[0], list):
                _find_single_step_ifs(x, out)
        if s[0] == "switch":
            for c in s[2]:
                _find_single_step_ifs(c[2], out)


def run_step_units():
    """step-independence at segment boundaries: when single-stepping finishes the last instruction of a
    segment, it must do exactly the bookkeeping that run() does after `after_end_of_segment`
    (pop the segment, advance an enclosing do-loop).  Structural comparison of the two statement lists."""
    res = {"unit": "ForthMachineOf<int64_t,int32_t>::internal_run/segment-end", "obligations": [], "errors": []}
    fm = load()
    ms = fm["methods"].get("internal_run")
    if not ms or ms[0].get("body") is None:
        res["errors"].append("internal_run not found")
        return [res]
    body = ms[0]["body"]
    outer = [s for s in body if s[0] == "while"]
    if not outer:
        res["errors"].append("outer interpreter loop not found")
        return [res]
    ob = outer[0][2]
    idx = [i for i, s in enumerate(ob) if s[0] == "label"]
    if not idx:
        res["errors"].append("label after_end_of_segment not found")
        return [res]
    epilogue = _strip_lines(ob[idx[0] + 1:])
    ifs = []
    _find_single_step_ifs(body, ifs)
    if not ifs:
        res["errors"].append("no single-step return found")
        return [res]
    uniq = []
    for s in ifs:
        if not any(s is u for u in uniq):
            uniq.append(s)
    for n, s in enumerate(uniq):
        then = s[2]
        seg = None
        for t in then:
            if t[0] == "if" and "is_segment_done" in str(t[1]):
                seg = t[2]
        where = "after the instruction switch" if n == len(uniq) - 1 else "inside an instruction case (#%d)" % n
        ok = seg is not None and _strip_lines(seg) == epilogue
        res["obligations"].append({"id": "%s:F.step_equiv#%d" % (res["unit"], n), "unit": res["unit"], "kind": "F.step_equiv",
                                   "label": "step", "line": s[-1],
                                   "desc": "single-step return at %s: finishing a segment does the same bookkeeping as run() after after_end_of_segment" % where,
                                   "status": "proved" if ok else "refuted", "time": 0.0, "backend": "syntactic",
                                   "model": None if ok else "statements executed when the segment is done differ from the statements after the label",
                                   "auto": False})
    return [res]


TRUSTED = [
    "ForthOutputBufferOf::maybe_resize is assumed to satisfy its contract (reserved_ >= requested, old contents copied, buffer possibly reallocated); its body (float growth factor, new[], memcpy) is outside the translator",
    "Forth units: bytecode operands (variable/input/output numbers, jump targets, the depth operand of `exit`, `i/j/k` only inside enough nested do-loops) are well-formed because the compiler produced them; indexes derived from operands (variables_, bytecodes_, current_inputs_/outputs_) are not under contract",
    "Forth units: calls on ForthInputBuffer/ForthOutputBuffer objects inside internal_run are external (their own units carry their contracts); only current_error_ is assumed to be written by them",
    "Forth units: signed overflow of + - * negate is treated as mathematical (documented behaviour is wraparound; C++ leaves it undefined)",
    "Forth units are extracted for ForthMachineOf<int64_t,int32_t> (the ForthMachine64 the Python layer uses)",
]


def engine(pid, tier, seed, known):
    """entry point used by `akv check C19`"""
    res = run_units() + run_buffer_units() + run_output_units() + run_step_units()
    out = {"obligations": [], "functions": {}, "errors": [], "notes": [], "bounded": [], "coverage": {}}
    for r in res:
        out["functions"][r["unit"]] = {"obligations": len(r["obligations"]), "exits": r.get("exits")}
        for e in r["errors"]:
            out["errors"].append("%s: %s" % (r["unit"], e))
        out["obligations"].extend(r["obligations"])
    out["coverage"]["forth_units"] = len(res)
    return out


if __name__ == "__main__":
    import sys
    sel = set(a for a in sys.argv[1:] if not a.startswith("-")) or None
    for r in (run_units(sel) if sel != {"out"} else []) + (run_buffer_units() + run_output_units() if (not sel or sel == {"out"}) else []):
        bad = [o for o in r["obligations"] if o["status"] != "proved"]
        print(r["unit"], len(r["obligations"]), "obligations", len(bad), "not proved", r.get("exits"), r["errors"][:2], round(r.get("time", 0), 1))
        for o in bad:
            print("   ", o["status"], o["kind"], o["line"], o["desc"][:200])
            if "-v" in sys.argv and o["model"]:
                print("      ", o["model"][:1500].replace("\n", "\n       "))
