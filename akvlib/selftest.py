"""setup self-test: tools present, AST extraction works, one obligation proves and one canary is refuted"""
import sys, subprocess, shutil
import z3
from . import cast, vcgen, kernels


def main():
    for tool in ("clang++", "g++", "/usr/bin/cvc5", "/venv/bin/python"):
        if shutil.which(tool) is None:
            print("missing tool", tool)
            return 3
    r = cast.extract_file(cast.REPO + "/src/cpu-kernels/awkward_ListArray_num.cpp", use_cache=False)
    fs = [f for f in r["functions"] if f["template"]]
    if not fs:
        print("AST extraction produced no template instantiation")
        return 3
    c = vcgen.Contract(fs[0]["name"], extents={"tonum": "length", "fromstarts": "length", "fromstops": "length"}, requires=["length >= 0"])
    u, _ = vcgen.houdini(lambda act: vcgen.Unit(fs[0], c, cast.global_constants(), {}, act))
    ok = all(vcgen.solve(o) == "proved" for o in u.ev.obls)
    c2 = vcgen.Contract(fs[0]["name"], extents={"tonum": "length - 1", "fromstarts": "length", "fromstops": "length"}, requires=["length >= 0"])
    u2, _ = vcgen.houdini(lambda act: vcgen.Unit(fs[0], c2, cast.global_constants(), {}, act))
    canary = any(vcgen.solve(o) == "refuted" for o in u2.ev.obls)
    print("selftest: proves=%s canary_refuted=%s" % (ok, canary))
    return 0 if ok and canary else 3
