"""setup self-test: tools present, AST extraction works, one obligation proves and one canary is refuted"""
import sys, subprocess, shutil
import z3
from . import cast, vcgen, kernels


def main():
    for tool in ("clang++", "g++", "/usr/bin/cvc5", "/venv/bin/python"):
        if shutil.which(tool) is None:
            print("missing tool", tool)
            return 3
    r = cast.extract_file(cast.REPO + "/src/cpu-kernels/awkward_ListArray_num.cpp", use_cache=False)
    fs = [f for f in r["functions"] if f["template"]]
    if not fs:
        print("AST extraction produced no template instantiation")
        return 3
    c = vcgen.Contract(fs[0]["name"], extents={"tonum": "length", "fromstarts": "length", "fromstops": "length"}, requires=["length >= 0"])
    u, _ = vcgen.houdini(lambda act: vcgen.Unit(fs[0], c, cast.global_constants(), {}, act))
    ok = all(vcgen.solve(o) == "proved" for o in u.ev.obls)
    c2 = vcgen.Contract(fs[0]["name"], extents={"tonum": "length - 1", "fromstarts": "length", "fromstops": "length"}, requires=["length >= 0"])
    u2, _ = vcgen.houdini(lambda act: vcgen.Unit(fs[0], c2, cast.global_constants(), {}, act))
    canary = any(vcgen.solve(o) == "refuted" for o in u2.ev.obls)
    print("selftest: proves=%s canary_refuted=%s" % (ok, canary))
    if not (ok and canary):
        return 3
    if "--quick" in sys.argv:
        # Engine N: the native driver builds from the working tree, answers, and a wrong expectation is reported
        from .nat import run as nrun, engine as neng
        res = nrun.run_cases(["a reduce sum 0 0 0 np int64 3 1 2 3", "b tolist lo 64 3 0 2 2 np int64 2 5 6"])
        good = res["a"].status == "OK" and res["a"].value == 6 and res["b"].value == [[5, 6], []]
        bad = neng.expect_value(7, "canary")(res["a"])
        print("selftest: native driver answers=%s wrong-expectation-reported=%s" % (good, bad is not None))
        if not (good and bad is not None):
            return 3
    return 0
