"""One-time helper (not part of any check): propose `extents` for kernel array
parameters by trying simple candidate expressions against the bounds
obligations of the unchanged tree.  The proposals are reviewed by hand and
committed in contracts/; the checks then verify the working tree against the
committed contracts."""
import sys, itertools, json
import z3
from . import kernels, vcgen, sym
from .cast import INT_TYPES, unconst
from concurrent.futures import ProcessPoolExecutor

KI = None


def infer_unit(f, consts, requires=()):
    c = vcgen.Contract(f["name"], requires=list(requires))
    u, it = vcgen.houdini(lambda act: vcgen.Unit(f, c, consts, {}, act))
    if u.errors:
        return None, u.errors
    scal = [n for n, t in f["params"] if unconst(t) in INT_TYPES]
    arrs = [n for n, t in f["params"] if t.startswith("p:")]
    byarr = {}
    for ob in u.ev.obls:
        if ob.kind == "S.lower":
            byarr.setdefault(ob.meta["arr"], []).append(ob)
    out = {}
    for a in arrs:
        obs = byarr.get(a, [])
        if not obs:
            out[a] = None
            continue
        cands = []
        for p in scal:
            cands.append((p, z3.Int(p)))
        for p in scal:
            cands.append(("%s + 1" % p, z3.Int(p) + 1))
        for p in scal:
            cands.append(("%s * 2" % p, z3.Int(p) * 2))
            cands.append(("%s * 8" % p, z3.Int(p) * 8))
        for p, q in itertools.combinations(scal, 2):
            cands.append(("%s * %s" % (p, q), z3.Int(p) * z3.Int(q)))
        for p, q in itertools.permutations(scal, 2):
            cands.append(("%s + %s" % (p, q), z3.Int(p) + z3.Int(q))) if p < q else None
        for p, q in itertools.permutations(scal, 2):
            cands.append(("%s * %s + 1" % (p, q), z3.Int(p) * z3.Int(q) + 1)) if p < q else None
        cands.append(("1", z3.IntVal(1)))
        found = None
        for txt, term in cands:
            ok = True
            for ob in obs:
                # the access index is the lhs of the recorded claim idx >= 0
                idx = ob.claim.arg(0)
                o2 = sym.Obligation("S.bounds", ob.label, ob.line, "", ob.hyps, z3.And(idx >= 0, idx < term))
                if vcgen.solve(o2, 2000) != "proved":
                    ok = False
                    break
            if ok:
                found = txt
                break
        out[a] = found if found else "?"
    return out, None


SIGNED_OK = {"at", "start", "stop", "step", "regular_start", "regular_stop", "identity", "which", "base",
             "fromwhich", "towhich", "regular_at", "low", "high"}


def nonneg_requires(f):
    return ["%s >= 0" % n for n, t in f["params"] if unconst(t) in INT_TYPES and n not in SIGNED_OK]


def work(name):
    fs = [f for f in KI.by_name.get(name, []) if f["body"] is not None]
    # prefer an instantiation with signed 64-bit types
    fs.sort(key=lambda f: sum(1 for t in f["targs"] if t != "i64"))
    if not fs:
        return name, None, "no body"
    return (name,) + infer_unit(fs[0], KI.consts, nonneg_requires(fs[0]))


def main():
    global KI
    KI = kernels.KernelIndex()
    impl_names = sorted({info["impl"]["name"] for info in KI.symbols.values() if info["impl"] is not None})
    res = {}
    with ProcessPoolExecutor(16) as ex:
        for name, out, err in ex.map(work, impl_names):
            res[name] = out if out is not None else {"_error": str(err)}
    json.dump(res, open(sys.argv[1], "w"), indent=1, sort_keys=True)
    n_unres = sum(1 for v in res.values() for x in v.values() if x == "?")
    print("functions", len(res), "unresolved arrays", n_unres)


if __name__ == "__main__":
    main()
