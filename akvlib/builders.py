"""Engine M units for the builder layer (C14): GrowableBuffer<int64_t>."""
import copy, os, time

from . import cast, vcgen, munit, forth

GB = os.path.join(cast.REPO, "src", "libawkward", "builder", "GrowableBuffer.cpp")

TRUSTED = [
    "GrowableBuffer units: set_reserved's memcpy/malloc are external (its contract -- reserved_ >= requested, the first length_ items preserved, buffer possibly reallocated -- is assumed at call sites; its scalar postconditions are proved on its own body)",
    "GrowableBuffer units are extracted for GrowableBuffer<int64_t>; the other element types instantiate the same template text",
    "builder tree rewriting (Unknown->Int64->Float64, Option, Union, Record), builder_fromiter and LayoutBuilder are object graphs with virtual dispatch: not covered",
]


def run_units():
    out = []
    consts = dict(cast.global_constants())
    r = cast.extract_class_methods(GB, "GrowableBuffer", ["i64"])
    methods = r["methods"]
    INV = ["0 <= length_ <= reserved_"]
    PREFIX = "forall(q, 0, old(length_), ptr_[q] == old(ptr_[q]))"
    calls = {"this.set_reserved": {"requires": [], "havoc": ["reserved_"],
                                   "ensures": ["reserved_ >= arg0", "reserved_ >= entry(reserved_)"], "realloc": ["ptr_"]}}
    specs = {
        "append": (INV, INV + ["length_ == old(length_) + 1", "ptr_[old(length_)] == datum", PREFIX]),
        "set_length": (INV + ["newlength >= 0"], INV + ["length_ == newlength"]),
        "set_reserved": (INV, INV + ["reserved_ >= minreserved", "reserved_ >= old(reserved_)", "length_ == old(length_)"]),
        "clear": (INV, ["length_ == 0"]),
        "getitem_at_nowrap": (INV + ["0 <= at < length_"], ["result == old(ptr_[at])"]),
    }
    for name, (pre, post) in specs.items():
        t0 = time.time()
        res = {"unit": "GrowableBuffer<int64_t>::" + name, "obligations": [], "errors": []}
        ms = methods.get(name)
        if not ms or ms[0].get("body") is None:
            res["errors"].append("method not found / not translatable")
            out.append(res)
            continue
        f = ms[0]
        variables = [("length_", "i64"), ("reserved_", "i64"), ("options_", "x:opts")] + \
                    [(pn, "i64" if (pt.startswith("r:") or pt.startswith("x:")) else pt) for pn, pt in f["params"]]
        c = vcgen.Contract(name, requires=list(pre), nonneg=[], calls=(calls if name != "set_reserved" else {}))
        try:
            def mk(act):
                u = munit.MUnit(name, copy.deepcopy(f["body"]), variables, c, consts, methods, {},
                                ret=f.get("ret", "void"), on_exit={"ret": post, "fall": post}, active=act)
                u.buffers = {"ptr_": ("i64", "reserved_", "length_")}
                return u
            u, _ = vcgen.houdini(mk, timeout_ms=3000)
            forth._finish(res, u, t0)
        except Exception:
            import traceback
            res["errors"].append("crash: " + traceback.format_exc()[-1200:])
        out.append(res)
    return out


def run_discipline_units():
    """snapshot sharing relies on an append-only discipline: a GrowableBuffer that is a data member of a builder
    (and may therefore be shared with earlier snapshots) is only ever modified through append() and clear()
    (clear allocates a fresh buffer); set_length()/set_reserved() are applied to freshly created locals only.
    Checked on the AST of every method of src/libawkward/builder/*.cpp."""
    import glob
    out = []
    files = sorted(glob.glob(os.path.join(cast.REPO, "src", "libawkward", "builder", "*.cpp")))
    for path in files:
        base = os.path.basename(path)
        if base in ("GrowableBuffer.cpp", "ArrayBuilderOptions.cpp"):
            continue
        cls = base[:-4]
        res = {"unit": "builder/%s (append-only discipline)" % base, "obligations": [], "errors": []}
        try:
            r = cast.extract_file(path, filt=cls, tolerant=True)
        except Exception as ex:
            res["errors"].append("extraction failed: %r" % (ex,))
            out.append(res)
            continue
        n = 0
        for f in r["functions"]:
            if f.get("body") is None:
                continue
            bad = []

            def walk(x):
                if isinstance(x, list):
                    if x and x[0] == "mcall" and x[2] in ("set_length", "set_reserved"):
                        obj = x[1]
                        while isinstance(obj, list) and obj and obj[0] in ("cast", "member"):
                            obj = obj[1]
                        if isinstance(obj, list) and obj and obj[0] == "v" and obj[1].endswith("_"):
                            bad.append("%s.%s(...)" % (obj[1], x[2]))
                    for y in x:
                        walk(y)
            walk(f["body"])
            res["obligations"].append({"id": "%s:%s:B.appendonly#%d" % (base, f["name"], n), "unit": res["unit"], "kind": "B.appendonly",
                                       "label": f["name"], "line": f.get("line"),
                                       "desc": "%s::%s never shrinks or re-reserves a member GrowableBuffer in place" % (cls, f["name"]),
                                       "status": "refuted" if bad else "proved", "time": 0.0, "backend": "syntactic",
                                       "model": ", ".join(bad) if bad else None, "auto": False})
            n += 1
        out.append(res)
    return out


def engine(pid, tier, seed, known):
    res = run_units() + run_discipline_units()
    out = {"obligations": [], "functions": {}, "errors": [], "notes": [], "bounded": [], "coverage": {"builder_units": len(res)}}
    for r in res:
        out["functions"][r["unit"]] = {"obligations": len(r["obligations"]), "exits": r.get("exits")}
        for e in r["errors"]:
            out["errors"].append("%s: %s" % (r["unit"], e))
        out["obligations"].extend(r["obligations"])
    return out


if __name__ == "__main__":
    import sys
    for r in run_units():
        bad = [o for o in r["obligations"] if o["status"] != "proved"]
        print(r["unit"], len(r["obligations"]), "obligations", len(bad), "not proved", r.get("exits"), r["errors"][:2])
        for o in bad:
            print("   ", o["status"], o["kind"], o["line"], o["desc"][:200])
            if "-v" in sys.argv and o["model"]:
                print("      ", o["model"][:1200].replace("\n", "\n       "))
