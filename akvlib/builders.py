"""Engine M units for the builder layer (C14): GrowableBuffer<int64_t>."""
import copy, os, time

from . import cast, vcgen, munit, forth

GB = os.path.join(cast.REPO, "src", "libawkward", "builder", "GrowableBuffer.cpp")

TRUSTED = [
    "GrowableBuffer units: set_reserved's memcpy/malloc are external (its contract -- reserved_ >= requested, the first length_ items preserved, buffer possibly reallocated -- is assumed at call sites; its scalar postconditions are proved on its own body)",
    "GrowableBuffer units are extracted for GrowableBuffer<int64_t>; the other element types instantiate the same template text",
    "builder tree rewriting (Unknown->Int64->Float64, Union, Record), builder_fromiter and LayoutBuilder are object graphs with virtual dispatch: not covered",
]


def run_units():
    out = []
    consts = dict(cast.global_constants())
    r = cast.extract_class_methods(GB, "GrowableBuffer", ["i64"])
    methods = r["methods"]
    INV = ["0 <= length_ <= reserved_"]
    PREFIX = "forall(q, 0, old(length_), ptr_[q] == old(ptr_[q]))"
    calls = {"this.set_reserved": {"requires": [], "havoc": ["reserved_"],
                                   "ensures": ["reserved_ >= arg0", "reserved_ >= entry(reserved_)"], "realloc": ["ptr_"]}}
    specs = {
        "append": (INV, INV + ["length_ == old(length_) + 1", "ptr_[old(length_)] == datum", PREFIX]),
        "set_length": (INV + ["newlength >= 0"], INV + ["length_ == newlength"]),
        "set_reserved": (INV, INV + ["reserved_ >= minreserved", "reserved_ >= old(reserved_)", "length_ == old(length_)"]),
        "clear": (INV, ["length_ == 0"]),
        "getitem_at_nowrap": (INV + ["0 <= at < length_"], ["result == old(ptr_[at])"]),
    }
    for name, (pre, post) in specs.items():
        t0 = time.time()
        res = {"unit": "GrowableBuffer<int64_t>::" + name, "obligations": [], "errors": []}
        ms = methods.get(name)
        if not ms or ms[0].get("body") is None:
            res["errors"].append("method not found / not translatable")
            out.append(res)
            continue
        f = ms[0]
        variables = [("length_", "i64"), ("reserved_", "i64"), ("options_", "x:opts")] + \
                    [(pn, "i64" if (pt.startswith("r:") or pt.startswith("x:")) else pt) for pn, pt in f["params"]]
        c = vcgen.Contract(name, requires=list(pre), nonneg=[], calls=(calls if name != "set_reserved" else {}))
        try:
            def mk(act):
                u = munit.MUnit(name, copy.deepcopy(f["body"]), variables, c, consts, methods, {},
                                ret=f.get("ret", "void"), on_exit={"ret": post, "fall": post}, active=act)
                u.buffers = {"ptr_": ("i64", "reserved_", "length_")}
                return u
            u, _ = vcgen.houdini(mk, timeout_ms=3000)
            forth._finish(res, u, t0)
        except Exception:
            import traceback
            res["errors"].append("crash: " + traceback.format_exc()[-1200:])
        out.append(res)
    return out


def run_freshbuffer_unit():
    """snapshots share the builder's buffer: clear() must leave the old buffer to them and continue in a FRESH one, on
    every path (an unconditional top-level `ptr_ = kernel::malloc<T>(...)` in GrowableBuffer<T>::clear).  Syntactic."""
    res = {"unit": "GrowableBuffer<int64_t>::clear (fresh buffer)", "obligations": [], "errors": []}
    try:
        r = cast.extract_class_methods(GB, "GrowableBuffer", ["i64"])
        ms = r["methods"].get("clear")
        if not ms or ms[0].get("body") is None:
            res["errors"].append("GrowableBuffer::clear not found / not translatable")
            return [res]
        body = ms[0]["body"]

        def has_malloc(e):
            if isinstance(e, list):
                if e and e[0] == "call" and e[1] == "malloc":
                    return True
                return any(has_malloc(x) for x in e)
            return False
        fresh_locals = {st[1] for st in body if st[0] == "decl" and st[3] is not None and has_malloc(st[3])}
        ok = False
        for st in body:          # top-level statements only: not under an `if`, not in a loop
            if st[0] != "expr":
                continue
            e = st[1]
            if e[0] == "opcall" and e[1] == "operator=" and e[2] and e[2][0][:2] == ["v", "ptr_"]:
                rhs = e[2][1]
                if has_malloc(rhs) or (rhs[0] == "v" and rhs[1] in fresh_locals):
                    ok = True
        res["obligations"].append({"id": "GrowableBuffer.cpp:clear:B.freshbuffer#0", "unit": res["unit"], "kind": "B.freshbuffer",
                                   "label": "clear", "line": ms[0].get("line"),
                                   "desc": "GrowableBuffer::clear continues in a freshly allocated buffer on every path (earlier snapshots keep the old one)",
                                   "status": "proved" if ok else "refuted", "time": 0.0, "backend": "syntactic",
                                   "model": None if ok else "no unconditional `ptr_ = kernel::malloc<T>(...)` at the top level of clear()", "auto": False})
    except Exception:
        import traceback
        res["errors"].append("crash: " + traceback.format_exc()[-1200:])
    return [res]


def run_discipline_units():
    """snapshot sharing relies on an append-only discipline: a GrowableBuffer that is a data member of a builder
    (and may therefore be shared with earlier snapshots) is only ever modified through append() and clear()
    (clear allocates a fresh buffer); set_length()/set_reserved() are applied to freshly created locals only.
    Checked on the AST of every method of src/libawkward/builder/*.cpp."""
    import glob
    out = []
    files = sorted(glob.glob(os.path.join(cast.REPO, "src", "libawkward", "builder", "*.cpp")))
    for path in files:
        base = os.path.basename(path)
        if base in ("GrowableBuffer.cpp", "ArrayBuilderOptions.cpp"):
            continue
        cls = base[:-4]
        res = {"unit": "builder/%s (append-only discipline)" % base, "obligations": [], "errors": []}
        try:
            r = cast.extract_file(path, filt=cls, tolerant=True)
        except Exception as ex:
            res["errors"].append("extraction failed: %r" % (ex,))
            out.append(res)
            continue
        n = 0
        for f in r["functions"]:
            if f.get("body") is None:
                continue
            bad = []

            def walk(x):
                if isinstance(x, list):
                    if x and x[0] == "mcall" and x[2] in ("set_length", "set_reserved"):
                        obj = x[1]
                        while isinstance(obj, list) and obj and obj[0] in ("cast", "member"):
                            obj = obj[1]
                        if isinstance(obj, list) and obj and obj[0] == "v" and obj[1].endswith("_"):
                            bad.append("%s.%s(...)" % (obj[1], x[2]))
                    for y in x:
                        walk(y)
            walk(f["body"])
            res["obligations"].append({"id": "%s:%s:B.appendonly#%d" % (base, f["name"], n), "unit": res["unit"], "kind": "B.appendonly",
                                       "label": f["name"], "line": f.get("line"),
                                       "desc": "%s::%s never shrinks or re-reserves a member GrowableBuffer in place" % (cls, f["name"]),
                                       "status": "refuted" if bad else "proved", "time": 0.0, "backend": "syntactic",
                                       "model": ", ".join(bad) if bad else None, "auto": False})
            n += 1
        out.append(res)
    return out


# --------------------------------------------------------------------------------------------- OptionBuilder
LEAF_OPS = ("boolean", "integer", "real", "complex", "datetime", "timedelta", "string")
BEGIN_OPS = ("beginlist", "begintuple", "beginrecord")
END_OPS = ("endlist", "endtuple", "endrecord")
OPTION_TRUSTED = [
    "OptionBuilder units: the nested builder is seen through the Builder interface only -- assumed contract: a call "
    "changes length() by 0 or +1; a leaf value given to an inactive builder completes exactly one element and leaves it "
    "inactive; begin_* on an inactive builder completes nothing and makes it active; on an active builder only end_* can "
    "complete an element; maybeupdate() keeps length() and "
    "active() (it swaps in the rewritten builder the call returned)",
]


TRUSTED = TRUSTED + OPTION_TRUSTED


class _OptionUnit(munit.MUnit):
    """OptionBuilder method over ghost state: clen / cactive (the nested builder's length() and active()),
    ilen / ilast (length of index_ and the value appended last)"""

    def __init__(self, *a, **kw):
        super().__init__(*a, **kw)
        self.ev.ev_throw = self.ev_throw

    def ev_throw(self, e, st):
        # a malformed call sequence raises: the path ends here, nothing is required of index_
        import z3
        from .sym import Val, IV
        self.exits.append(("throw", "throw", st.fork()))
        self.ret_states.append((["throw"], st.fork()))
        st.assume(z3.BoolVal(False))
        return Val(IV(0), "opaque")

    def ev_mcall(self, e, st):
        _, obj, name, args, ty = e
        from .sym import Val, IV, to_int
        import z3
        inner = obj
        if inner and inner[0] == "mcall" and inner[2] == "get":
            inner = inner[1]
        target = inner[1] if inner and inner[0] == "v" else None
        if target in ("index_", "offsets_") and name == "append":
            v = self.ev.ev(args[0], st)
            st.vars["ilast"] = Val(to_int(v), "int")
            st.vars["ilen"] = Val(to_int(st.vars["ilen"]) + 1, "int")
            return Val(IV(0), "opaque")
        if target == "content_":
            if name == "get":
                return Val(IV(0), "opaque")
            if name == "length":
                return st.vars["clen"]
            if name == "active":
                return st.vars["cactive"]
            for a in args:
                try:
                    self.ev.ev(a, st)
                except Exception:
                    pass
            old_len, old_act = to_int(st.vars["clen"]), st.vars["cactive"].t
            self.ext_counter += 1
            new_len = z3.Int("clen!%d" % self.ext_counter)
            new_act = z3.Bool("cactive!%d" % self.ext_counter)
            st.assume(z3.Or(new_len == old_len, new_len == old_len + 1))
            if name in LEAF_OPS or name == "null":
                st.assume(z3.Implies(z3.Not(old_act), z3.And(new_len == old_len + 1, z3.Not(new_act))))
            if name in BEGIN_OPS:
                st.assume(z3.Implies(z3.Not(old_act), z3.And(new_len == old_len, new_act)))
            if name not in END_OPS:
                # inside an open list / tuple / record nothing is completed at this level except by its end_*
                st.assume(z3.Implies(old_act, z3.And(new_len == old_len, new_act)))
            st.vars["clen"] = Val(new_len, "int")
            st.vars["cactive"] = Val(new_act, "bool")
            return Val(IV(0), "opaque")
        return super().ev_mcall(e, st)


def run_option_units():
    """C14: OptionBuilder keeps one index entry per element completed at its level: a call appends exactly as many
    entries as the nested builder's length grew by (its previous length as the entry), null() on an inactive content
    appends one -1 and leaves the content alone; nothing else touches index_"""
    out = []
    path = os.path.join(cast.REPO, "src", "libawkward", "builder", "OptionBuilder.cpp")
    consts = dict(cast.global_constants())
    try:
        r = cast.extract_file(path, filt="OptionBuilder", tolerant=True)
    except Exception as ex:
        return [{"unit": "OptionBuilder", "obligations": [], "errors": ["extraction failed: %r" % (ex,)]}]
    fs = {}
    for f in r["functions"]:
        fs.setdefault(f["name"], []).append(f)
    for name in ("null",) + LEAF_OPS + BEGIN_OPS + END_OPS + ("field", "index"):
        t0 = time.time()
        res = {"unit": "OptionBuilder::" + name, "obligations": [], "errors": []}
        ms = [f for f in fs.get(name, []) if f.get("body") is not None]
        if not ms:
            res["errors"].append("method not found / not translatable")
            out.append(res)
            continue
        f = ms[0]
        variables = [("clen", "i64"), ("cactive", "bool"), ("ilen", "i64"), ("ilast", "i64")] + \
                    [(pn, "i64" if (pt.startswith("r:") or pt.startswith("x:") or pt.startswith("p:")) else pt) for pn, pt in f["params"]]
        pre = ["clen >= 0", "ilen >= 0"]
        if name == "null":
            post = ["implies(not old(cactive), ilen == old(ilen) + 1 and ilast == 0 - 1 and clen == old(clen))",
                    "implies(old(cactive), ilen - old(ilen) == clen - old(clen))"]
        else:
            post = ["ilen - old(ilen) == clen - old(clen)", "implies(ilen > old(ilen), ilast == old(clen))"]
        calls = {"this.maybeupdate": {"requires": [], "havoc": [], "ensures": []},
                 "this.shared_from_this": {"requires": [], "havoc": [], "ensures": []}}
        c = vcgen.Contract(name, requires=pre, nonneg=[], calls=calls)
        try:
            def mk(act):
                return _OptionUnit(name, copy.deepcopy(f["body"]), variables, c, consts, {}, {},
                                   ret="i64", on_exit={"ret": post, "fall": post, "throw": []}, active=act)
            u, _ = vcgen.houdini(mk, timeout_ms=3000)
            forth._finish(res, u, t0)
        except Exception:
            import traceback
            res["errors"].append("crash: " + traceback.format_exc()[-1200:])
        out.append(res)
    return out


def run_list_units():
    """C14: ListBuilder appends to offsets_ exactly when a list opened at its own level is closed -- end_list while the
    content is inactive -- and the entry is the content's length at that moment; every other call leaves offsets_ and
    begun_ alone (begin_list on a builder that is not begun sets begun_)"""
    out = []
    path = os.path.join(cast.REPO, "src", "libawkward", "builder", "ListBuilder.cpp")
    consts = dict(cast.global_constants())
    try:
        r = cast.extract_file(path, filt="ListBuilder", tolerant=True)
    except Exception as ex:
        return [{"unit": "ListBuilder", "obligations": [], "errors": ["extraction failed: %r" % (ex,)]}]
    fs = {}
    for f in r["functions"]:
        fs.setdefault(f["name"], []).append(f)
    for name in ("null",) + LEAF_OPS + BEGIN_OPS + END_OPS + ("field", "index"):
        t0 = time.time()
        res = {"unit": "ListBuilder::" + name, "obligations": [], "errors": []}
        ms = [f for f in fs.get(name, []) if f.get("body") is not None]
        if not ms:
            res["errors"].append("method not found / not translatable")
            out.append(res)
            continue
        f = ms[0]
        variables = [("clen", "i64"), ("cactive", "bool"), ("ilen", "i64"), ("ilast", "i64"), ("begun_", "bool")] + \
                    [(pn, "i64" if (pt.startswith("r:") or pt.startswith("x:") or pt.startswith("p:")) else pt) for pn, pt in f["params"]]
        pre = ["clen >= 0", "ilen >= 1"]
        if name == "endlist":
            post = ["implies(old(begun_) and not old(cactive), ilen == old(ilen) + 1 and ilast == old(clen) and not begun_ and clen == old(clen))",
                    "implies(old(begun_) and old(cactive), ilen == old(ilen) and begun_)"]
        elif name == "beginlist":
            post = ["ilen == old(ilen)", "implies(not old(begun_), begun_ and clen == old(clen))", "implies(old(begun_), begun_)"]
        else:
            post = ["ilen == old(ilen)", "begun_ == old(begun_)"]
        calls = {"this.maybeupdate": {"requires": [], "havoc": [], "ensures": []},
                 "this.shared_from_this": {"requires": [], "havoc": [], "ensures": []}}
        c = vcgen.Contract(name, requires=pre, nonneg=[], calls=calls)
        try:
            def mk(act):
                return _OptionUnit(name, copy.deepcopy(f["body"]), variables, c, consts, {}, {},
                                   ret="i64", on_exit={"ret": post, "fall": post, "throw": []}, active=act)
            u, _ = vcgen.houdini(mk, timeout_ms=3000)
            forth._finish(res, u, t0)
        except Exception:
            import traceback
            res["errors"].append("crash: " + traceback.format_exc()[-1200:])
        out.append(res)
    return out


def engine(pid, tier, seed, known):
    res = run_units() + run_freshbuffer_unit() + run_discipline_units() + run_option_units() + run_list_units()
    out = {"obligations": [], "functions": {}, "errors": [], "notes": [], "bounded": [], "coverage": {"builder_units": len(res)}}
    for r in res:
        out["functions"][r["unit"]] = {"obligations": len(r["obligations"]), "exits": r.get("exits")}
        for e in r["errors"]:
            out["errors"].append("%s: %s" % (r["unit"], e))
        out["obligations"].extend(r["obligations"])
    return out


if __name__ == "__main__":
    import sys
    for r in run_units():
        bad = [o for o in r["obligations"] if o["status"] != "proved"]
        print(r["unit"], len(r["obligations"]), "obligations", len(bad), "not proved", r.get("exits"), r["errors"][:2])
        for o in bad:
            print("   ", o["status"], o["kind"], o["line"], o["desc"][:200])
            if "-v" in sys.argv and o["model"]:
                print("      ", o["model"][:1200].replace("\n", "\n       "))
