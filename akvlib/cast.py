"""clang JSON AST -> small typed IR (mechanical extraction of the real C/C++ text).

Every run re-reads the source under /repo; the result is cached under
/verif/.cache keyed by the sha1 of the source file, the headers it includes
from the repository and the clang command line, so an edit to /repo always
invalidates the entry.

What the extraction drops (also reported in the evidence): source locations
other than the line number of each statement, the FILENAME(__LINE__) string of
failure(), visibility attributes, and the Error copy-constructor /
ExprWithCleanups / MaterializeTemporaryExpr wrappers clang puts around
`return success()`.
"""
import hashlib, json, os, re, subprocess, sys

REPO = os.environ.get("AKV_REPO", "/repo")
VERIF = os.path.dirname(os.path.dirname(os.path.abspath(__file__)))
CACHE = os.path.join(VERIF, ".cache")
CLANG = "clang++"
BASE_ARGS = ["-std=c++11", "-fsyntax-only", '-DVERSION_INFO="1.4.0"',
             "-I" + os.path.join(REPO, "include"), "-ferror-limit=0", "-w"]

TYPEDEFS = {
    "int64_t": "i64", "uint64_t": "u64", "int32_t": "i32", "uint32_t": "u32",
    "int16_t": "i16", "uint16_t": "u16", "int8_t": "i8", "uint8_t": "u8",
    "size_t": "u64", "std::size_t": "u64", "ssize_t": "i64",
    "long": "i64", "unsigned long": "u64", "int": "i32", "unsigned int": "u32",
    "short": "i16", "unsigned short": "u16", "signed char": "i8",
    "unsigned char": "u8", "char": "i8", "bool": "bool", "float": "f32",
    "double": "f64", "void": "void", "long long": "i64",
    "unsigned long long": "u64", "_Bool": "bool",
}

INT_TYPES = {"i8": (8, True), "u8": (8, False), "i16": (16, True), "u16": (16, False),
             "i32": (32, True), "u32": (32, False), "i64": (64, True), "u64": (64, False)}


class Unsupported(Exception):
    pass


def map_type(t):
    """clang type dict or string -> IR type string"""
    if isinstance(t, dict):
        q = t.get("desugaredQualType") or t.get("qualType")
        q2 = t.get("qualType")
    else:
        q = q2 = t
    r = _map_type_str(q)
    if r.startswith("x:") and q2 and q2 != q:
        r2 = _map_type_str(q2)
        if not r2.startswith("x:"):
            return r2
    return r


def _map_type_str(q):
    q = q.strip()
    if q.endswith("&&"):
        return _map_type_str(q[:-2])
    if q.endswith("&"):
        return "r:" + _map_type_str(q[:-1])
    if q.endswith("*const"):
        q = q[:-5].strip()
    if q.endswith("* const"):
        q = q[:-7].strip() + "*"
    if q.endswith("*"):
        inner = q[:-1].strip()
        return "p:" + _map_type_str(inner)
    const = False
    if q.startswith("const "):
        const = True
        q = q[6:].strip()
    if q.endswith(" const"):
        const = True
        q = q[:-6].strip()
    if q.startswith("struct "):
        q = q[7:]
    if q in TYPEDEFS:
        return ("c:" if const else "") + TYPEDEFS[q]
    return "x:" + q


def unconst(t):
    return t[2:] if t.startswith("c:") else t


def elem_type(pt):
    assert pt.startswith("p:"), pt
    return pt[2:]


# --------------------------------------------------------------------------
def read_docs(text):
    dec = json.JSONDecoder()
    i, n, out = 0, len(text), []
    while i < n:
        while i < n and text[i] in " \n\r\t":
            i += 1
        if i >= n:
            break
        if text.startswith("Dumping", i):
            j = text.find("\n", i)
            i = n if j < 0 else j
            continue
        d, i = dec.raw_decode(text, i)
        out.append(d)
    return out


def clang_ast(path, filt, extra=()):
    cmd = [CLANG] + BASE_ARGS + list(extra) + ["-Xclang", "-ast-dump=json"]
    if filt:
        cmd += ["-Xclang", "-ast-dump-filter=" + filt]
    cmd.append(path)
    p = subprocess.run(cmd, stdout=subprocess.PIPE, stderr=subprocess.PIPE)
    return read_docs(p.stdout.decode("utf-8", "replace")), p.stderr.decode("utf-8", "replace")


# --------------------------------------------------------------------------
class Conv:
    """converts one FunctionDecl (with body) to IR"""

    def __init__(self, srcfile, tolerant=False):
        self.srcfile = srcfile
        self.line = None
        self.tolerant = tolerant

    # ---- helpers
    def _line(self, n):
        r = n.get("range", {}).get("begin", {})
        for key in ("expansionLoc", "spellingLoc"):
            if key in r and "line" in r[key]:
                return r[key]["line"]
        if "line" in r:
            return r["line"]
        return None

    def func(self, d):
        params, body, targs = [], None, []
        for c in d.get("inner", []):
            k = c.get("kind")
            if k == "ParmVarDecl":
                params.append([c.get("name", "_anon%d" % len(params)), map_type(c["type"])])
            elif k == "CompoundStmt":
                body = c
            elif k == "TemplateArgument":
                if "type" in c:
                    targs.append(map_type(c["type"]))
                elif "value" in c:
                    targs.append(c["value"])
                else:
                    targs.append("?")
        if body is None:
            return None
        rett = d["type"]["qualType"].split("(")[0].strip()
        f = {"name": d["name"], "id": d.get("id"), "params": params,
             "ret": map_type(rett), "targs": targs,
             "line": self._line(d), "sig": d["type"]["qualType"]}
        try:
            f["body"] = self.block(body)
        except Unsupported as e:
            f["body"] = None
            f["unsupported"] = str(e)
        return f

    def block(self, n):
        out = []
        for c in n.get("inner", []):
            out.extend(self.stmt(c))
        return out

    def body_of(self, n):
        if n.get("kind") == "CompoundStmt":
            return self.block(n)
        return self.stmt(n)

    def stmt(self, n):
        k = n.get("kind")
        ln = self._line(n)
        if k is None:
            return []
        if k == "CompoundStmt":
            return [["block", self.block(n), ln]]
        if k == "NullStmt":
            return []
        if k == "DeclStmt":
            out = []
            for v in n.get("inner", []):
                if v.get("kind") != "VarDecl":
                    raise Unsupported("decl kind %s" % v.get("kind"))
                init = None
                inner = [x for x in v.get("inner", []) if x.get("kind")]
                if inner:
                    init = self.expr(inner[0])
                out.append(["decl", v["name"], map_type(v["type"]), init, ln])
            return out
        if k == "IfStmt":
            inner = n["inner"]
            cond = self.expr(inner[0])
            th = self.body_of(inner[1])
            el = self.body_of(inner[2]) if len(inner) > 2 else []
            return [["if", cond, th, el, ln]]
        if k == "ForStmt":
            init, _cv, cond, inc, body = n["inner"]
            i_s = self.stmt(init) if init.get("kind") else []
            if init.get("kind") and init.get("kind") != "DeclStmt":
                i_s = [["expr", self.expr(init), ln]]
            c_e = self.expr(cond) if cond.get("kind") else None
            n_e = self.expr(inc) if inc.get("kind") else None
            return [["for", i_s, c_e, n_e, self.body_of(body), ln]]
        if k == "WhileStmt":
            inner = [x for x in n["inner"]]
            cond, body = inner[-2], inner[-1]
            return [["while", self.expr(cond), self.body_of(body), ln]]
        if k == "DoStmt":
            body, cond = n["inner"]
            return [["dowhile", self.expr(cond), self.body_of(body), ln]]
        if k == "BreakStmt":
            return [["break", ln]]
        if k == "ContinueStmt":
            return [["continue", ln]]
        if k == "ReturnStmt":
            inner = n.get("inner", [])
            if not inner:
                return [["ret", ["void"], ln]]
            call = self._find_call(inner[0])
            if call is not None:
                name, cid, args = call
                if name == "success":
                    return [["ret", ["success"], ln]]
                if name == "failure":
                    a = args
                    msg = self._strlit(a[0])
                    return [["ret", ["failure", msg, self.expr(a[1]), self.expr(a[2])], ln]]
                if self._is_error_type(inner[0]):
                    return [["ret", ["fwd", name, cid, [self.expr(x) for x in args]], ln]]
            return [["ret", ["val", self.expr(inner[0])], ln]]
        if k == "SwitchStmt":
            inner = [x for x in n["inner"] if x.get("kind")]
            cond, body = inner[-2], inner[-1]
            cases = []
            for c in body.get("inner", []):
                self._collect_cases(c, cases)
            return [["switch", self.expr(cond), cases, ln]]
        if k == "GotoStmt":
            return [["goto", n.get("targetLabelDeclId"), ln]]
        if k == "LabelStmt":
            inner = [x for x in n.get("inner", []) if x.get("kind")]
            out = [["label", n.get("name"), n.get("declId"), ln]]
            for x in inner:
                out.extend(self.stmt(x))
            return out
        if k in ("CXXForRangeStmt", "CXXTryStmt"):
            if self.tolerant:
                return [["unsupported_stmt", k, ln]]
            raise Unsupported("stmt kind %s" % k)
        # expression statement
        m = n
        while m.get("kind") in ("ParenExpr", "ExprWithCleanups") or \
                (m.get("kind") == "ImplicitCastExpr" and m.get("castKind") == "ToVoid"):
            m = [x for x in m["inner"] if x.get("kind")][0]
        if m.get("kind") == "ConditionalOperator":
            # `c ? a : b;` whose value is discarded is `if (c) a; else b;`
            c, a, b = m["inner"]
            arms = [self.stmt(a), self.stmt(b)]
            for arm in arms:
                for x in arm:
                    if x[-1] is None:
                        x[-1] = ln
            return [["if", self.expr(c), arms[0], arms[1], ln]]
        return [["expr", self.expr(n), ln]]

    def _collect_cases(self, c, cases):
        k = c.get("kind")
        if k == "CaseStmt":
            inner = [x for x in c["inner"] if x.get("kind")]
            val = self.expr(inner[0])
            sub = inner[-1]
            label = self._case_label(inner[0])
            if sub.get("kind") in ("CaseStmt", "DefaultStmt"):
                cases.append([val, label, [], self._line(c)])      # falls through to the next label
                self._collect_cases(sub, cases)
            else:
                cases.append([val, label, self.stmt(sub), self._line(c)])
        elif k == "DefaultStmt":
            inner = [x for x in c["inner"] if x.get("kind")]
            cases.append([None, "default", self.stmt(inner[-1]) if inner else [], self._line(c)])
        else:
            # a statement between labels belongs to the preceding case
            if cases:
                cases[-1][2].extend(self.stmt(c))

    def _case_label(self, n):
        while n.get("kind") in ("ConstantExpr", "ImplicitCastExpr", "ParenExpr"):
            n = n["inner"][0]
        if n.get("kind") == "DeclRefExpr":
            return n["referencedDecl"].get("name")
        if n.get("kind") == "IntegerLiteral":
            return n.get("value")
        return "?"

    def _is_error_type(self, n):
        t = n.get("type", {})
        q = t.get("desugaredQualType") or t.get("qualType") or ""
        return "Error" in q

    def _find_call(self, n):
        """peel construct/temporary wrappers around a CallExpr returning Error"""
        while True:
            k = n.get("kind")
            if k == "CallExpr":
                callee = self._callee(n["inner"][0])
                if callee is None:
                    return None
                return callee[0], callee[1], n["inner"][1:]
            if k in ("ExprWithCleanups", "CXXConstructExpr", "MaterializeTemporaryExpr",
                     "ImplicitCastExpr", "CXXBindTemporaryExpr", "ParenExpr",
                     "CXXFunctionalCastExpr"):
                inner = [x for x in n.get("inner", []) if x.get("kind")]
                if len(inner) != 1:
                    return None
                n = inner[0]
                continue
            return None

    def _callee(self, n):
        while n.get("kind") in ("ImplicitCastExpr", "ParenExpr"):
            n = n["inner"][0]
        if n.get("kind") == "DeclRefExpr":
            rd = n["referencedDecl"]
            return rd.get("name"), rd.get("id")
        return None

    def _strlit(self, n):
        while n.get("kind") in ("ImplicitCastExpr", "ParenExpr"):
            n = n["inner"][0]
        if n.get("kind") == "StringLiteral":
            try:
                return json.loads(n["value"])
            except Exception:
                return n["value"]
        return "?"

    # ---- expressions
    def expr(self, n):
        """never raises for C++ units: an untranslatable sub-expression becomes an explicit node that the
        evaluator refuses, so only the paths that reach it are lost"""
        if not self.tolerant:
            return self.expr0(n)
        try:
            return self.expr0(n)
        except Unsupported as ex:
            ty = unconst(map_type(n["type"])) if "type" in n else "void"
            return ["unsupported", str(ex), ty]

    def expr0(self, n):
        k = n.get("kind")
        ty = map_type(n["type"]) if "type" in n else "void"
        ty = unconst(ty)
        if k in ("ParenExpr", "ExprWithCleanups", "MaterializeTemporaryExpr",
                 "CXXBindTemporaryExpr", "ConstantExpr", "SubstNonTypeTemplateParmExpr"):
            inner = [x for x in n["inner"] if x.get("kind")]
            return self.expr(inner[-1] if k == "SubstNonTypeTemplateParmExpr" else inner[0])
        if k == "IntegerLiteral":
            return ["c", int(n["value"]), ty]
        if k == "CXXBoolLiteralExpr":
            return ["c", 1 if n["value"] else 0, "bool"]
        if k == "FloatingLiteral":
            return ["c", float(n["value"]), ty]
        if k == "CharacterLiteral":
            return ["c", int(n["value"]), ty]
        if k == "CXXNullPtrLiteralExpr" or k == "GNUNullExpr":
            return ["null", ty]
        if k == "StringLiteral":
            return ["str", n.get("value"), ty]
        if k == "DeclRefExpr":
            rd = n["referencedDecl"]
            if rd["kind"] in ("VarDecl", "ParmVarDecl"):
                return ["v", rd["name"], ty]
            if rd["kind"] == "FunctionDecl" or rd["kind"] == "CXXMethodDecl":
                return ["fn", rd["name"], rd.get("id"), ty]
            if rd["kind"] == "EnumConstantDecl":
                return ["enum", rd["name"], ty]
            if rd["kind"] == "FieldDecl":
                return ["v", rd["name"], ty]
            if rd["kind"] == "NonTypeTemplateParmDecl":
                return ["v", rd["name"], ty]
            raise Unsupported("declref kind %s" % rd["kind"])
        if k in ("ImplicitCastExpr", "CStyleCastExpr", "CXXStaticCastExpr",
                 "CXXFunctionalCastExpr", "CXXReinterpretCastExpr", "CXXConstCastExpr"):
            ck = n.get("castKind")
            inner = [x for x in n["inner"] if x.get("kind")]
            e = self.expr(inner[0])
            if ck in ("LValueToRValue", "NoOp", "ArrayToPointerDecay", "FunctionToPointerDecay",
                      "ConstructorConversion", "UserDefinedConversion", "UncheckedDerivedToBase", "DerivedToBase"):
                if ck == "NoOp" and k != "ImplicitCastExpr" and ty.startswith("p:"):
                    # e.g. (T*)ptr adding/dropping const
                    return ["cast", e, ty, "noop"]
                return e
            if ck in ("IntegralCast", "IntegralToBoolean", "IntegralToFloating", "FloatingToIntegral",
                      "FloatingCast", "FloatingToBoolean", "BooleanToSignedIntegral",
                      "PointerToBoolean", "NullToPointer", "BitCast", "PointerToIntegral", "IntegralToPointer"):
                return ["cast", e, ty, ck]
            if ck == "ToVoid":
                return e
            raise Unsupported("castKind %s" % ck)
        if k == "BinaryOperator":
            op = n["opcode"]
            l, r = n["inner"]
            if op == "=":
                return ["asg", self.expr(l), self.expr(r), ty]
            if op == ",":
                return ["comma", self.expr(l), self.expr(r), ty]
            return ["bin", op, self.expr(l), self.expr(r), ty]
        if k == "CompoundAssignOperator":
            op = n["opcode"][:-1]
            l, r = n["inner"]
            cty = unconst(map_type(n["computeResultType"])) if "computeResultType" in n else ty
            return ["casg", op, self.expr(l), self.expr(r), cty, ty]
        if k == "UnaryOperator":
            op = n["opcode"]
            e = self.expr(n["inner"][0])
            if op in ("++", "--"):
                return ["inc", e, 1 if op == "++" else -1, 0 if n.get("isPostfix") else 1, ty]
            if op == "*":
                return ["ld", e, ["c", 0, "i64"], ty]
            if op == "&":
                return ["addr", e, ty]
            if op == "+":
                return e
            return ["un", op, e, ty]
        if k == "ConditionalOperator":
            c, a, b = n["inner"]
            return ["cond", self.expr(c), self.expr(a), self.expr(b), ty]
        if k == "ArraySubscriptExpr":
            b, i = n["inner"]
            return ["ld", self.expr(b), self.expr(i), ty]
        if k == "CallExpr":
            callee = self._callee(n["inner"][0])
            if callee is None:
                # a call through a function pointer: kept as an explicit node (no evaluator: a unit that reaches it is
                # untranslatable) so that syntactic checks can still see which pointer is called on which arguments
                try:
                    fexpr = self.expr0(n["inner"][0])
                except Unsupported:
                    raise Unsupported("indirect call")
                return ["icall", fexpr, [self.expr(x) for x in n["inner"][1:]], ty]
            return ["call", callee[0], [self.expr(x) for x in n["inner"][1:]], ty]
        if k == "CXXDefaultArgExpr":
            inner = [x for x in n.get("inner", []) if x.get("kind")]
            if inner and self.tolerant:
                return self.expr(inner[0])
            raise Unsupported("default arg")
        if k == "LambdaExpr":
            # the closure's call operator: parameters and body (captures are by name: the body refers to the enclosing
            # function's variables directly)
            for rec in n.get("inner", []):
                if rec.get("kind") != "CXXRecordDecl":
                    continue
                for m in rec.get("inner", []):
                    if m.get("kind") == "CXXMethodDecl" and m.get("name") == "operator()":
                        params, body = [], None
                        for c in m.get("inner", []):
                            if c.get("kind") == "ParmVarDecl":
                                params.append([c.get("name", "_p%d" % len(params)), map_type(c["type"])])
                            elif c.get("kind") == "CompoundStmt":
                                body = c
                        if body is not None:
                            return ["lambda", params, self.block(body), ty]
            raise Unsupported("lambda without a call operator body")
        if k == "UnaryExprOrTypeTraitExpr":
            if n.get("name") == "sizeof":
                at = n.get("argType")
                if at:
                    t = unconst(map_type(at))
                    if t in INT_TYPES:
                        return ["c", INT_TYPES[t][0] // 8, ty]
                    if t in ("f32",):
                        return ["c", 4, ty]
                    if t in ("f64",):
                        return ["c", 8, ty]
                    if t == "bool":
                        return ["c", 1, ty]
            raise Unsupported("sizeof")
        if k == "MemberExpr":
            b = n["inner"][0]
            while b.get("kind") in ("ImplicitCastExpr", "ParenExpr") and b.get("castKind") in (None, "NoOp", "UncheckedDerivedToBase", "DerivedToBase"):
                b = b["inner"][0]
            if b.get("kind") == "CXXThisExpr":
                return ["v", n.get("name"), ty]         # a data member of *this: treated as a variable of the unit
            base = self.expr(n["inner"][0])
            return ["member", base, n.get("name"), 1 if n.get("isArrow") else 0, ty]
        if k == "CXXThisExpr":
            return ["this", ty]
        if k == "CXXMemberCallExpr":
            callee = n["inner"][0]
            if callee.get("kind") == "MemberExpr":
                b = callee["inner"][0]
                while b.get("kind") in ("ImplicitCastExpr", "ParenExpr"):
                    b = b["inner"][0]
                if b.get("kind") == "CXXThisExpr":
                    return ["call", "this." + callee.get("name"), [self.expr(x) for x in n["inner"][1:]], ty]
                obj = self.expr(callee["inner"][0])
                return ["mcall", obj, callee.get("name"), [self.expr(x) for x in n["inner"][1:]], ty]
            raise Unsupported("member call")
        if k == "CXXOperatorCallExpr":
            callee = self._callee(n["inner"][0])
            args = [self.expr(x) for x in n["inner"][1:]]
            if callee and callee[0] == "operator[]" and len(args) == 2:
                return ["ld", args[0], args[1], ty]     # std::vector / array-like subscript
            return ["opcall", callee[0] if callee else "?", args, ty]
        if k in ("CXXConstructExpr", "CXXTemporaryObjectExpr"):
            args = [self.expr(x) for x in n.get("inner", []) if x.get("kind")]
            if len(args) == 1 and k == "CXXConstructExpr" and n.get("elidable"):
                return args[0]
            return ["construct", ty, args, ty]
        if k == "InitListExpr":
            return ["initlist", [self.expr(x) for x in n.get("inner", []) if x.get("kind")], ty]
        if k == "CXXThrowExpr":
            inner = [x for x in n.get("inner", []) if x.get("kind")]
            return ["throw", self.expr(inner[0]) if inner else None, ty]
        if k == "ImplicitValueInitExpr":
            return ["c", 0, ty]
        raise Unsupported("expr kind %s" % k)


# --------------------------------------------------------------------------
def _hash_inputs(path, extra):
    h = hashlib.sha1()
    h.update(" ".join(BASE_ARGS + list(extra)).encode())
    h.update(open(path, "rb").read())
    # the repository headers a kernel/translation unit can see
    inc = os.path.join(REPO, "include", "awkward")
    for root, _d, files in os.walk(inc):
        for fn in sorted(files):
            if fn.endswith(".h"):
                h.update(fn.encode())
                h.update(open(os.path.join(root, fn), "rb").read())
    h.update(open(os.path.abspath(__file__), "rb").read())
    return h.hexdigest()


_hdr_hash = None


def header_hash():
    global _hdr_hash
    if _hdr_hash is None:
        h = hashlib.sha1()
        inc = os.path.join(REPO, "include", "awkward")
        for root, _d, files in sorted(os.walk(inc)):
            for fn in sorted(files):
                if fn.endswith(".h"):
                    h.update(os.path.join(root, fn).encode())
                    h.update(open(os.path.join(root, fn), "rb").read())
        h.update(open(os.path.abspath(__file__), "rb").read())
        _hdr_hash = h.hexdigest()
    return _hdr_hash


def extract_file(path, filt="awkward_", extra=(), only_main_file=True, use_cache=True, tolerant=False):
    """returns {'functions': [...], 'templates': {...}, 'errors': str}

    functions: every FunctionDecl with a body (non-template), and every
    instantiation of a function template, converted to IR."""
    h = hashlib.sha1()
    h.update(header_hash().encode())
    h.update(repr((filt, tuple(extra), only_main_file, tolerant)).encode())
    h.update(open(path, "rb").read())
    key = h.hexdigest()
    cpath = os.path.join(CACHE, "ir", key + ".json")
    if use_cache and os.path.exists(cpath):
        try:
            return json.load(open(cpath))
        except Exception:
            pass
    docs, err = clang_ast(path, filt, extra)
    conv = Conv(path, tolerant=tolerant)
    funcs = []
    seen = set()

    def add(d, template=None):
        if d.get("kind") not in ("FunctionDecl", "CXXMethodDecl"):
            return
        if not any(c.get("kind") == "CompoundStmt" for c in d.get("inner", [])):
            return
        if d.get("id") in seen:
            return
        seen.add(d.get("id"))
        f = conv.func(d)
        if f is None:
            return
        f["template"] = template
        f["file"] = os.path.relpath(path, REPO)
        funcs.append(f)

    for d in docs:
        if d.get("kind") == "FunctionTemplateDecl":
            for x in d.get("inner", []):
                if x.get("kind") == "FunctionDecl":
                    # the first FunctionDecl child is the dependent pattern: skip it
                    if any(c.get("kind") == "TemplateArgument" for c in x.get("inner", [])):
                        add(x, template=d.get("name"))
        else:
            add(d)
    res = {"functions": funcs, "errors": err[-2000:], "file": os.path.relpath(path, REPO)}
    os.makedirs(os.path.dirname(cpath), exist_ok=True)
    tmp = cpath + ".%d.tmp" % os.getpid()
    json.dump(res, open(tmp, "w"))
    os.replace(tmp, cpath)
    return res


def global_constants():
    """integer constants declared in include/awkward/common.h (kSliceNone, kMaxInt64, ...)"""
    txt = open(os.path.join(REPO, "include", "awkward", "common.h")).read()
    env = {}
    for m in re.finditer(r"const\s+(u?int\d+_t)\s+(k\w+)\s*=\s*([^;]+);", txt):
        ty, name, rhs = m.groups()
        rhs = rhs.strip()
        try:
            val = eval(rhs, {"__builtins__": {}}, dict(env))
        except Exception:
            continue
        env[name] = val
    return env


if __name__ == "__main__":
    r = extract_file(sys.argv[1], use_cache=False)
    for f in r["functions"]:
        print(f["name"], f["targs"], f["params"], f.get("unsupported"))
        if len(sys.argv) > 2:
            print(json.dumps(f["body"], indent=1))


def extract_class_methods(path, classname, targs, extra=(), use_cache=True):
    """methods (with bodies) of the ClassTemplateSpecializationDecl classname<targs...> in the given file,
    converted to IR: {method name: [func, ...]} plus the field list"""
    h = hashlib.sha1()
    h.update(header_hash().encode())
    h.update(repr((classname, tuple(targs), tuple(extra))).encode())
    h.update(open(path, "rb").read())
    cpath = os.path.join(CACHE, "ir", "class_" + h.hexdigest() + ".json")
    if use_cache and os.path.exists(cpath):
        try:
            return json.load(open(cpath))
        except Exception:
            pass
    docs, err = clang_ast(path, classname, extra)
    conv = Conv(path, tolerant=True)
    out = {"methods": {}, "fields": [], "errors": err[-2000:], "file": os.path.relpath(path, REPO)}

    def targs_of(d):
        r = []
        for x in d.get("inner", []):
            if x.get("kind") == "TemplateArgument":
                r.append(_map_type_str(x.get("type", {}).get("qualType", "?")) if "type" in x else str(x.get("value")))
        return r

    def visit(d):
        if d.get("kind") == "ClassTemplateSpecializationDecl" and d.get("name") == classname:
            if [t for t in targs_of(d)] == list(targs):
                for x in d.get("inner", []):
                    if x.get("kind") == "FieldDecl":
                        out["fields"].append([x.get("name"), map_type(x["type"])])
                    elif x.get("kind") in ("CXXMethodDecl", "CXXConstructorDecl"):
                        f = conv.func(x)
                        if f is not None:
                            f["file"] = out["file"]
                            f["template"] = classname
                            out["methods"].setdefault(x.get("name"), []).append(f)
                    elif x.get("kind") == "FunctionTemplateDecl":
                        for y in x.get("inner", []):
                            if y.get("kind") == "CXXMethodDecl" and any(z.get("kind") == "TemplateArgument" for z in y.get("inner", [])):
                                f = conv.func(y)
                                if f is not None:
                                    f["file"] = out["file"]
                                    f["template"] = classname
                                    out["methods"].setdefault(y.get("name"), []).append(f)
        for x in d.get("inner", []) if d.get("kind") in ("ClassTemplateDecl", "NamespaceDecl") else []:
            visit(x)

    spec_ids = set()

    def find_ids(d):
        if d.get("kind") == "ClassTemplateSpecializationDecl" and d.get("name") == classname and targs_of(d) == list(targs):
            spec_ids.add(d.get("id"))
        for x in d.get("inner", []) if d.get("kind") in ("ClassTemplateDecl", "NamespaceDecl") else []:
            find_ids(x)

    for d in docs:
        find_ids(d)
    for d in docs:
        visit(d)
    # explicit specializations of single members (template <> ... Class<int64_t>::method(...)) are separate
    # top-level declarations whose parent context is the class specialization
    for d in docs:
        if d.get("kind") == "CXXMethodDecl" and d.get("parentDeclContextId") in spec_ids:
            f = conv.func(d)
            if f is not None:
                f["file"] = out["file"]
                f["template"] = classname
                out["methods"].setdefault(d.get("name"), []).append(f)
    os.makedirs(os.path.dirname(cpath), exist_ok=True)
    tmp = cpath + ".%d.tmp" % os.getpid()
    json.dump(out, open(tmp, "w"))
    os.replace(tmp, cpath)
    return out
