"""akv: entry point.  akv check <property> [--tier quick|thorough] | akv replay <file> | akv selftest"""
import argparse, collections, json, os, random, re, sys, time

from . import cast, check, native, difftest, sym, plan as plan_mod

VERIF = cast.VERIF


def load_known():
    p = os.path.join(VERIF, "known_findings.json")
    if not os.path.exists(p):
        return {"findings": [], "fixed": []}
    return json.load(open(p))


def match_known(known, pid, symbol, kind, desc):
    for f in known.get("findings", []):
        if f.get("property") != pid and pid not in f.get("also_properties", []):
            continue
        m = f.get("match", {})
        if "symbol" in m and m["symbol"] != symbol:
            continue
        if "symbol_re" in m and not re.search(m["symbol_re"], symbol or ""):
            continue
        if "kind" in m and not (kind or "").startswith(m["kind"]):
            continue
        if "desc" in m and m["desc"] not in (desc or ""):
            continue
        return f
    return None


def write_replay(pid, name, payload):
    d = os.path.join(VERIF, "replays", pid)
    os.makedirs(d, exist_ok=True)
    path = os.path.join(d, re.sub(r"[^A-Za-z0-9_.-]", "_", name)[:150] + ".json")
    json.dump(payload, open(path, "w"), indent=1, default=str)
    return path


def cmd_check(a):
    t0 = time.time()
    pid = a.property
    tier = a.tier or os.environ.get("VERIF_TIER") or "quick"
    seed = int(os.environ.get("VERIF_SEED", "1"))
    P = plan_mod.PLAN.get(pid)
    if P is None:
        print("property %s is not claimed by this framework" % pid)
        return 3
    check.init()
    KI = check.KI
    known = load_known()
    violations, known_hits, undecided, errors = [], [], [], []
    all_obs = []
    funcs = collections.OrderedDict()
    bounded = []
    notes = []
    samples = []
    solver_time = collections.Counter()
    backends = collections.Counter()
    extra_cov = {}

    # ---------------- kernel engine
    symbols = plan_mod.symbols_for(P, KI)
    results = check.run_symbols(symbols, P["kinds"], functions=P.get("functions", ())) if (symbols or P.get("functions")) else []
    so = None
    runner = None
    need_native = bool(symbols)
    plain_functions = set(P.get("functions", ()))
    nt_path = os.path.join(VERIF, "contracts", "not_translated.json")
    expected_untranslated = set(json.load(open(nt_path))) if os.path.exists(nt_path) else set()
    if need_native:
        so = native.build_kernels()
        runner = native.KernelRunner(so)
    e_stat = collections.Counter()
    try:
        for r in results:
            sym_ = r["symbol"]
            for e in r["errors"]:
                errors.append("%s: %s" % (sym_, e))
            fu = funcs.setdefault(r.get("impl") or sym_, {"symbols": [], "contract": r.get("contract"),
                                                         "extents": r.get("extents", [])})
            fu["symbols"].append(sym_)
            if not r["unit_ok"]:
                notes.append("%s: %s" % (sym_, "; ".join(r["notes"])))
                if sym_ not in expected_untranslated:
                    # a unit that was under contract on the unchanged tree can no longer be translated or its
                    # contract no longer binds to the code: coverage is lost, which is undecided, not a pass
                    undecided.append("%s: unit no longer translatable (%s)" % (sym_, "; ".join(r["notes"])[:200]))
            refuted = []
            for o in r["obligations"]:
                all_obs.append(o)
                backends[o["backend"]] += 1
                solver_time[o["backend"]] += o["time"]
                if o["status"] == "refuted":
                    refuted.append(o)
                elif o["status"] != "proved":
                    undecided.append(o["id"])
            # E bookkeeping / bounded stand-in
            e = r.get("e")
            do_diff = False
            want = 25 if tier == "quick" else 400
            if "E" in P["kinds"]:
                if e == "aligned":
                    e_stat["lockstep"] += 1
                    do_diff = tier == "thorough" or bool(refuted)
                elif e and e.startswith("exempt"):
                    e_stat["bounded"] += 1
                    do_diff = True
                elif e and e.startswith("spec_"):
                    e_stat[e.split(":")[0]] += 1
                elif e and e.startswith("unaligned"):
                    e_stat["alignment_lost"] += 1
                    do_diff = True
                    want = 400
                    undecided.append("%s:E.alignment (%s)" % (sym_, e))
                elif e:
                    errors.append("%s: %s" % (sym_, e))
            if refuted:
                do_diff = True
                want = max(want, 400)
            witness = None
            if do_diff and sym_ in KI.symbols and sym_ not in plain_functions and (e is None or not e.startswith("spec_")):
                witness, cases, why = check.find_witness(sym_, seed, want=want, runner=runner,
                                                         candidates=[o.get("model_input") for o in refuted])
                if why is None:
                    bounded.append({"function": sym_, "bound": "admissible generated inputs, arrays <= %d elements" % difftest.IN_SIZE,
                                    "cases": cases, "mismatch": bool(witness)})
            if witness and not refuted:
                # the bounded stand-in itself found a disagreement
                kf = match_known(known, pid, sym_, "difftest", witness["why"])
                if kf:
                    known_hits.append((kf, sym_, witness["why"]))
                else:
                    path = write_replay(pid, sym_ + ".difftest", {"property": pid, "symbol": sym_, "obligation": "bounded differential check (kernel vs definition)",
                                                                 "input": witness["input"], "why": witness["why"],
                                                                 "args": KI.symbols[sym_]["args"]})
                    violations.append((sym_, "difftest", path, True))
            for o in refuted:
                kf = match_known(known, pid, sym_, o["kind"], o["desc"])
                if kf:
                    known_hits.append((kf, sym_, o["id"]))
                    continue
                payload = {"property": pid, "symbol": sym_, "obligation": o["id"], "description": o["desc"],
                           "line": o["line"], "solver": o["backend"], "solver_model": o["model"],
                           "args": KI.symbols[sym_]["args"] if sym_ in KI.symbols else None}
                if witness:
                    payload["input"] = witness["input"]
                    payload["why"] = witness["why"]
                path = write_replay(pid, o["id"], payload)
                violations.append((sym_, o["id"], path, bool(witness)))
    finally:
        if runner is not None:
            runner.close()

    # ---------------- other engines registered for this property
    for extra in P.get("extra", []):
        try:
            out = extra(pid, tier, seed, known)
        except Exception:
            import traceback
            errors.append("engine %s crashed: %s" % (getattr(extra, "__name__", extra), traceback.format_exc()[-1500:]))
            continue
        for o in out.get("obligations", []):
            all_obs.append(o)
            backends[o["backend"]] += 1
            solver_time[o["backend"]] += o.get("time", 0)
            if o["status"] == "refuted":
                kf = match_known(known, pid, o.get("unit"), o["kind"], o["desc"])
                if kf:
                    known_hits.append((kf, o.get("unit"), o["id"]))
                else:
                    path = write_replay(pid, o["id"], dict(o, property=pid, **out.get("replay", {}).get(o["id"], {})))
                    violations.append((o.get("unit"), o["id"], path, bool(out.get("replay", {}).get(o["id"], {}).get("input"))))
            elif o["status"] != "proved":
                undecided.append(o["id"])
        for k_, v_ in out.get("functions", {}).items():
            funcs[k_] = v_
        bounded.extend(out.get("bounded", []))
        errors.extend(out.get("errors", []))
        notes.extend(out.get("notes", []))
        for k_, v_ in out.get("coverage", {}).items():
            extra_cov[k_] = v_

    # ---------------- verdict + evidence
    # obligations matched by a recorded known finding are reported separately (KNOWN-FINDING lines, evidence key
    # known_findings) and are not part of the proof-level claim
    known_ids = {what for _kf, _w, what in known_hits}
    claimed = [o for o in all_obs if o["id"] not in known_ids]
    n_ob = len(claimed)
    n_ok = sum(1 for o in claimed if o["status"] == "proved")
    level = P.get("level", "proof")
    n_cases = int(extra_cov.get("engine_N_cases", 0))
    if level == "proof" and n_ob == 0:
        errors.append("vacuous: zero obligations generated for %s" % pid)
    if level == "exploration" and n_cases == 0:
        errors.append("vacuous: no case was run for %s" % pid)
    for o in all_obs[:: max(1, len(all_obs) // 6)][:6]:
        samples.append({"id": o["id"], "claim": o["desc"], "status": o["status"], "backend": o["backend"]})
    seen_kf = set()
    for kf, where, what in known_hits:
        key = (kf.get("id"), where)
        if key in seen_kf:
            continue
        seen_kf.add(key)
        print("KNOWN-FINDING: property=%s %s [%s] %s" % (pid, kf.get("id", ""), where, kf.get("what", "")))
    for sym_, oid, path, has_input in violations:
        print("VIOLATION property=%s replay=%s%s" % (pid, path, "" if has_input else " no-failing-input-found"))
    ev = {
        "property_id": pid, "tier": tier, "seed": seed, "level": level,
        "coverage": {
            "obligations": n_ob, "discharged": n_ok,
            "checker_cmd": "cd /verif && ./akv check %s --tier %s" % (pid, tier),
            "trusted_base": sym.ASSUMPTIONS + P.get("trusted", []),
            "functions_under_contract": len(funcs),
            "functions": {k: v for k, v in list(funcs.items())[:400]},
            "backends": dict(backends),
            "solver_seconds": {k: round(v, 2) for k, v in solver_time.items()},
            "equivalence": dict(e_stat),
            "bounded": bounded[:400],
            "bounded_count": len(bounded),
            "undecided": undecided[:200],
            "known_findings": sorted({"%s @ %s" % (kf.get("id"), w) for kf, w, _ in known_hits}),
            "known_finding_obligations": len(all_obs) - len(claimed),
            "not_translated": notes[:200],
            "samples": samples,
            "extraction_drops": "source locations other than line numbers, failure() file/line strings, visibility attributes, Error copy-construction wrappers around return",
        },
        "assumptions": sym.ASSUMPTIONS + P.get("trusted", []),
        "wall_s": round(time.time() - t0, 2),
        "violations": len(violations),
    }
    ev["coverage"].update(extra_cov)
    if n_cases:
        # exploration-style counts of the bounded Engine N part (required keys when the level is exploration)
        ev["coverage"]["evaluations"] = n_cases
        ev["coverage"]["distinct_nontrivial"] = int(extra_cov.get("engine_N_distinct", 0))
        ev["coverage"]["rule"] = ("Engine N: seeded random cases per family (akvlib/nat/engine.py); a case is one call of a real libawkward "
                                  "method on a generated layout; counted as distinct and non-trivial when its driver line is unique and the "
                                  "generated top-level value has at least one element")
        if level == "exploration":
            ev["coverage"]["samples"] = list(extra_cov.get("engine_N_samples", []))[:6] or samples
    os.makedirs(os.path.join(VERIF, "evidence"), exist_ok=True)
    json.dump(ev, open(os.path.join(VERIF, "evidence", pid + ".json"), "w"), indent=1)
    print("%s tier=%s obligations=%d discharged=%d undecided=%d violations=%d known=%d bounded=%d errors=%d wall=%.1fs"
          % (pid, tier, n_ob, n_ok, len(undecided), len(violations), len(seen_kf), len(bounded), len(errors), time.time() - t0))
    for e in errors[:20]:
        print("ERROR:", e)
    for u in undecided[:20]:
        print("UNDECIDED:", u)
    if violations:
        return 1
    if errors:
        return 3
    if undecided:
        return 2
    return 0


def cmd_replay(a):
    d = json.load(open(a.file))
    print("obligation:", d.get("obligation"))
    print("description:", d.get("description") or d.get("why"))
    if d.get("engine") == "N":
        # replay on the real layout classes of the working tree through the native driver
        from .nat import run as nrun
        res = nrun.run_cases([d["driver_line"]])
        r = list(res.values())[0]
        print("driver line:", d["driver_line"])
        print("library on the working tree:", r, "| validity of result:", r.validity, "| purity flag:", r.pure)
        print("contract:", d.get("why") or d.get("desc"))
        return 1
    if "input" not in d or "symbol" not in d:
        print("no concrete input recorded (no-failing-input-found); solver output follows")
        print(d.get("solver_model"))
        return 0
    check.init()
    KI = check.KI
    info = KI.symbols[d["symbol"]]
    runner = native.KernelRunner(native.build_kernels())
    res = runner.call(d["symbol"], info["args"], d["input"])
    runner.close()
    print("kernel result on the recorded input:", json.dumps(res, default=str)[:3000])
    k = KI.kernel(info["kernel"])
    if k.get("definition") and "Insert Python" not in k["definition"]:
        fn = difftest.compile_definition(k["definition"], k["name"])
        vals = {}
        for arg in info["args"]:
            depth, base = native.parse_type(arg["type"])
            v = d["input"][arg["name"]]
            vals[arg["name"]] = None if (depth == 1 and arg["dir"] == "out") else v
        try:
            status, gl = difftest.run_definition(fn, info["args"], vals)
            why = difftest.compare(info["args"], vals, status, gl, res)
            print("definition:", status, "| comparison:", why or "agree")
            return 1 if why else 0
        except difftest.Inadmissible as ex:
            print("input inadmissible for the definition:", ex)
    return 0


def main():
    ap = argparse.ArgumentParser(prog="akv")
    sp = ap.add_subparsers(dest="cmd")
    c = sp.add_parser("check")
    c.add_argument("property")
    c.add_argument("--tier", default=None)
    r = sp.add_parser("replay")
    r.add_argument("file")
    stp = sp.add_parser("selftest")
    stp.add_argument("--quick", action="store_true")
    a = ap.parse_args()
    if a.cmd == "check":
        sys.exit(cmd_check(a))
    if a.cmd == "replay":
        sys.exit(cmd_replay(a))
    if a.cmd == "selftest":
        from . import selftest
        sys.exit(selftest.main())
    ap.print_help()
    sys.exit(3)


if __name__ == "__main__":
    main()
