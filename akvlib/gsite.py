"""Engine G (call sites): the C++ code of src/libawkward that sizes buffers and calls kernels is checked
against the kernels' contracts -- modular verification of the caller against the callee's precondition.

(1) dispatch forwarding: every kernel::NAME<...> specialization of kernel-dispatch.cpp forwards its own
    parameters, in order, to one awkward_* symbol in its cpu branch (syntactic, complete).
(2) buffer extents: for every `kernel::NAME<...>(kernel::lib::cpu, args...)` call in src/libawkward whose
    pointer argument is `x.data()` of a local `Index..(EXPR)` / `IndexOf<T> x(EXPR)` declared in the same
    function, the obligation EXPR >= extent required by the kernel contract (instantiated with the call's
    scalar arguments) is discharged by z3 over integer atoms (`offsets_.length()` etc. are opaque
    non-negative integers; no path conditions are used).

The sites whose obligation holds on the unchanged tree are listed in contracts/g_sites.json (derived once,
committed): each must still be found and proved; a listed site that is now refuted is a violation.  Sites
that cannot be decided without path conditions are reported as `undecided_sites` and never as violations."""
import ast, glob, json, os, re

import z3

from . import cast, contracts as contracts_mod, pyspec

LIB = os.path.join(cast.REPO, "src", "libawkward")
DISPATCH = os.path.join(LIB, "kernel-dispatch.cpp")
BASELINE = os.path.join(cast.VERIF, "contracts", "g_sites.json")


def parse_dispatch():
    txt = open(DISPATCH).read()
    out = {}
    problems = []
    pat = re.compile(r"ERROR\s+(\w+)\s*(<[^>(]*>)?\s*\(\s*kernel::lib\s+ptr_lib\s*,([^)]*)\)\s*\{\s*if\s*\(ptr_lib\s*==\s*kernel::lib::cpu\)\s*\{\s*return\s+(awkward_\w+)\s*\(([^;]*?)\)\s*;", re.S)
    for m in pat.finditer(txt):
        name, targs, params, symbol, fargs = m.groups()
        pnames = []
        for p in params.split(","):
            p = p.strip()
            if not p:
                continue
            pnames.append(re.split(r"[\s\*&]+", p)[-1])
        fwd = []
        for a in split_top(fargs, ","):
            a = a[0].strip()
            if not a:
                continue
            m2 = re.fullmatch(r"reinterpret_cast<[^>]*>\((\w+)\)", a)     # complex -> pairs of reals: same buffer
            if m2:
                a = m2.group(1)
            m2 = re.fullmatch(r"(\w+)\.real\(\)", a)
            if m2:
                a = m2.group(1)
            fwd.append(a)
        key = (name, (targs or "").replace(" ", ""))
        out[key] = {"symbol": symbol, "params": pnames, "forward": fwd, "ok": fwd == pnames,
                    "line": txt.count("\n", 0, m.start()) + 1}
    return out


# ---------------------------------------------------------------- tiny C++ expression -> SMT integer term
TOK = re.compile(r"\s*(->|::|[A-Za-z_]\w*|\d+|[()+\-*/<>,.\[\]&])")


class Atoms:
    def __init__(self):
        self.m = {}

    def get(self, text):
        text = re.sub(r"\s+", "", text)
        text = re.sub(r"^\((?:int64_t|size_t|IndexTypeOf<[^>]*>)\)", "", text)
        if text not in self.m:
            self.m[text] = z3.Int("atom_%d" % len(self.m))
        return self.m[text]


def split_top(s, seps):
    """split s at top-level occurrences of single-char separators; returns [(piece, sep_before)]"""
    out, depth, cur, last = [], 0, "", None
    i = 0
    while i < len(s):
        ch = s[i]
        if ch in "([<" and not (ch == "<" and (i == 0 or not (s[i - 1].isalnum() or s[i - 1] == "_"))):
            depth += 1
        elif ch in ")]>" and depth > 0 and not (ch == ">" and s[i - 1] == "-"):
            depth -= 1
        if depth == 0 and ch in seps and cur.strip() != "" and not (ch == "-" and i + 1 < len(s) and s[i + 1] == ">"):
            out.append((cur, last))
            cur, last = "", ch
        else:
            cur += ch
        i += 1
    out.append((cur, last))
    return out


def cxx_term(text, atoms):
    text = text.strip()
    while text.startswith("(") and _matching(text, 0) == len(text) - 1:
        text = text[1:-1].strip()
    m = re.match(r"^\((?:int64_t|size_t|int)\)\s*(.*)$", text, re.S)
    if m and _balanced(m.group(1)):
        return cxx_term(m.group(1), atoms)
    parts = split_top(text, "+-")
    if len(parts) > 1:
        t = cxx_term(parts[0][0], atoms)
        for piece, sep in parts[1:]:
            u = cxx_term(piece, atoms)
            t = t + u if sep == "+" else t - u
        return t
    parts = split_top(text, "*")
    if len(parts) > 1:
        t = cxx_term(parts[0][0], atoms)
        for piece, sep in parts[1:]:
            t = t * cxx_term(piece, atoms)
        return t
    if re.fullmatch(r"\d+", text):
        return z3.IntVal(int(text))
    if re.fullmatch(r"sizeof\([^)]*\)", text):
        return atoms.get(text)
    return atoms.get(text)


def _matching(s, i):
    d = 0
    for j in range(i, len(s)):
        if s[j] == "(":
            d += 1
        elif s[j] == ")":
            d -= 1
            if d == 0:
                return j
    return -1


def _balanced(s):
    d = 0
    for ch in s:
        if ch == "(":
            d += 1
        elif ch == ")":
            d -= 1
            if d < 0:
                return False
    return d == 0


def spec_term(src, env):
    """contract extent expression (Python syntax over kernel parameter names) -> SMT term, or None"""
    try:
        node = ast.parse(src, mode="eval").body
    except SyntaxError:
        return None

    def ev(n):
        if isinstance(n, ast.Constant) and isinstance(n.value, int):
            return z3.IntVal(n.value)
        if isinstance(n, ast.Name):
            return env.get(n.id)
        if isinstance(n, ast.BinOp) and isinstance(n.op, (ast.Add, ast.Sub, ast.Mult)):
            a, b = ev(n.left), ev(n.right)
            if a is None or b is None:
                return None
            return a + b if isinstance(n.op, ast.Add) else (a - b if isinstance(n.op, ast.Sub) else a * b)
        return None
    return ev(node)


CALL = re.compile(r"kernel::(\w+)\s*(<[^>(]*>)?\s*\(")


def find_calls(txt):
    """yields (name, targs, [arg texts], pos) for every kernel::NAME<...>(...) call"""
    for m in CALL.finditer(txt):
        name = m.group(1)
        if name in ("malloc", "lib", "array_deleter", "cuda_array_deleter", "regularize_rangeslice", "fully_qualified_cache_key",
                    "lib_tostring", "copy_to", "Index_getitem_at_nowrap"):
            continue
        start = m.end() - 1
        end = _matching(txt, start)
        if end < 0:
            continue
        args = [a for a, _ in split_top(txt[start + 1:end], ",")]
        args = [a.strip() for a in args]
        if not args or "kernel::lib" not in args[0] and "ptr_lib" not in args[0]:
            continue
        yield name, (m.group(2) or "").replace(" ", ""), args[1:], m.start()


def enclosing_function(txt, pos):
    """(start offset of the enclosing function body, a label) by scanning back for a line that starts a definition"""
    head = txt.rfind("\n  template <", 0, pos)
    cands = [m for m in re.finditer(r"\n  ([A-Za-z_]\w*(?:<[^>\n]*>)?::~?\w+)\s*\(", txt[:pos])]
    if cands:
        m = cands[-1]
        return m.start(), m.group(1)
    return max(head, 0), "?"


DECL = r"(?:Index64|Index32|IndexU32|Index8|IndexU8|IndexOf<[^>]+>)\s+%s\s*\(([^;]*)\)\s*;"


def run(update_baseline=False):
    reg = contracts_mod.Registry()
    spec = pyspec.load_spec()
    sym2kernel = {}
    for k in spec["kernels"]:
        for s in k["specializations"]:
            sym2kernel[s["name"]] = (k["name"], [a["name"] for a in s["args"]], s["args"])
    disp = parse_dispatch()
    obligations = []
    n = 0
    for (name, targs), d in sorted(disp.items()):
        obligations.append({"id": "dispatch:%s%s#%d" % (name, targs, n), "unit": "kernel-dispatch.cpp", "kind": "G.forward", "label": "dispatch",
                            "line": d["line"], "desc": "kernel::%s%s forwards its parameters in order to %s" % (name, targs, d["symbol"]),
                            "status": "proved" if d["ok"] and d["symbol"] in sym2kernel else "refuted",
                            "time": 0.0, "backend": "syntactic",
                            "model": None if d["ok"] else "forwards %r, parameters %r" % (d["forward"], d["params"]), "auto": False})
        n += 1
    # impl contracts by symbol need the kernel index (template names): reuse check.init lazily
    from . import check as check_mod
    check_mod.init()
    KI = check_mod.KI
    by_name = {}
    for key, d in disp.items():
        by_name.setdefault(key[0], []).append((key[1], d))
    sites = []
    files = sorted(glob.glob(os.path.join(LIB, "array", "*.cpp")) + [os.path.join(LIB, x) for x in ("Content.cpp", "Index.cpp", "Identities.cpp", "Slice.cpp", "Reducer.cpp")])
    for path in files:
        txt = open(path).read()
        rel = os.path.relpath(path, cast.REPO)
        for name, targs, args, pos in find_calls(txt):
            cands = by_name.get(name)
            if not cands:
                continue
            # any specialization has the same parameter names / contract shape: take the 64-bit one if present
            pick = None
            for t, d in cands:
                if pick is None or "int64_t" in t:
                    pick = d
            info = KI.symbols.get(pick["symbol"])
            if info is None or info.get("impl") is None:
                continue
            c = reg.contract_for(info["impl"], pick["symbol"])
            params = pick["params"]
            if len(params) != len(args):
                continue
            fstart, flabel = enclosing_function(txt, pos)
            ftxt = txt[fstart:pos]
            atoms = Atoms()
            env = {}
            argkinds = {a["name"]: a for a in info["args"]}
            for p, a in zip(params, args):
                ak = argkinds.get(p)
                if ak is not None and "List" not in ak["type"]:
                    try:
                        env[p] = cxx_term(a, atoms)
                    except Exception:
                        pass
            line = txt.count("\n", 0, pos) + 1
            for p, a in zip(params, args):
                ak = argkinds.get(p)
                if ak is None or "List" not in ak["type"] or p not in c.extents:
                    continue
                m = re.fullmatch(r"(\w+)\.data\(\)", a.strip())
                if not m:
                    continue
                local = m.group(1)
                decls = list(re.finditer(DECL % re.escape(local), ftxt))
                if not decls:
                    continue
                alloc = split_top(decls[-1].group(1), ",")[0][0]
                req = spec_term(c.extents[p], env)
                if req is None:
                    continue
                try:
                    have = cxx_term(alloc, atoms)
                except Exception:
                    continue
                s = z3.Solver()
                s.set("timeout", 5000)
                for t in atoms.m.values():
                    s.add(t >= 0)
                s.add(z3.Not(have >= req))
                r = s.check()
                key = "%s|%s|%s|%s" % (rel, flabel, name, p)
                sites.append({"key": key, "line": line, "status": "proved" if r == z3.unsat else ("refuted" if r == z3.sat else "unknown"),
                              "desc": "%s:%d %s: buffer %s(%s) passed as %s of kernel::%s holds at least %s elements"
                                      % (rel, line, flabel, local, re.sub(r"\s+", " ", alloc), p, name, c.extents[p]),
                              "model": None if r != z3.sat else "allocated %s, required %s with %s" % (re.sub(r"\s+", " ", alloc), c.extents[p],
                                                                                                     {pp: re.sub(r"\s+", " ", aa) for pp, aa in zip(params, args) if pp in env})})
    base = json.load(open(BASELINE)) if os.path.exists(BASELINE) else {"sites": []}
    if update_baseline:
        keys = sorted({s["key"] for s in sites if s["status"] == "proved"} - {s["key"] for s in sites if s["status"] != "proved"})
        json.dump({"sites": keys}, open(BASELINE, "w"), indent=1)
        base = {"sites": keys}
    expected = set(base["sites"])
    seen = {}
    for s in sites:
        seen.setdefault(s["key"], []).append(s)
    undecided_sites, errors = [], []
    for key in sorted(expected):
        group = seen.get(key)
        if not group:
            obligations.append({"id": "site:%s#%d" % (key, n), "unit": key, "kind": "G.extent", "label": "callsite", "line": None,
                                "desc": "call site %s still present in a form the extractor recognises" % key, "status": "unknown",
                                "time": 0.0, "backend": "syntactic", "model": None, "auto": False})
            n += 1
            continue
        for s in group:
            obligations.append({"id": "site:%s@%d#%d" % (key, s["line"], n), "unit": key, "kind": "G.extent", "label": "callsite", "line": s["line"],
                                "desc": s["desc"], "status": s["status"], "time": 0.0, "backend": "z3", "model": s["model"], "auto": False})
            n += 1
    for key, group in seen.items():
        if key not in expected:
            for s in group:
                if s["status"] == "proved":
                    obligations.append({"id": "site:%s@%d#%d" % (key, s["line"], n), "unit": key, "kind": "G.extent", "label": "callsite", "line": s["line"],
                                        "desc": s["desc"], "status": "proved", "time": 0.0, "backend": "z3", "model": None, "auto": False})
                    n += 1
                else:
                    undecided_sites.append(s["desc"])
    return {"obligations": obligations, "functions": {"kernel-dispatch.cpp specializations": {"obligations": len(disp)},
                                                      "call sites with a sized local buffer": {"obligations": len(sites)}},
            "errors": errors, "notes": [], "bounded": [],
            "coverage": {"g_sites_checked": len(sites), "g_sites_expected": len(expected), "g_undecided_sites": undecided_sites[:100]}}


def engine(pid, tier, seed, known):
    return run()


if __name__ == "__main__":
    import sys, collections
    r = run(update_baseline="--update-baseline" in sys.argv)
    c = collections.Counter((o["kind"], o["status"]) for o in r["obligations"])
    print(c)
    print("sites", r["coverage"]["g_sites_checked"], "expected", r["coverage"]["g_sites_expected"], "undecided", len(r["coverage"]["g_undecided_sites"]))
    for o in r["obligations"]:
        if o["status"] != "proved":
            print(o["status"], o["desc"], o["model"])
    if "-v" in sys.argv:
        for u in r["coverage"]["g_undecided_sites"]:
            print("UNDECIDED", u)
