"""Symbolic evaluator / verification-condition generator over the IR.

One evaluator serves the C side (typed nodes) and the Python-definition side
('py' nodes).  Integers are z3 Int (mathematical); see ASSUMPTIONS for what
that means for machine arithmetic.  Floats are an uninterpreted sort with one
uninterpreted function per operator (operands and evaluation order are compared
exactly, IEEE rounding is not modelled).
"""
import itertools
import z3

from .cast import INT_TYPES, unconst

ASSUMPTIONS = [
    "int64_t/int arithmetic (+,-,*) is treated as mathematical: signed overflow is not modelled unless a contract marks a formula overflow-checked",
    "unsigned arithmetic and every narrowing conversion wrap exactly (mod 2^w) as on the machine",
    "float/double/complex arithmetic is abstract: one uninterpreted function per operator over an uninterpreted sort; rounding is not modelled; float<->double casts are the identity",
    "distinct pointer parameters do not alias unless a contract says so",
    "values loaded from an array lie in the range of the array's element type",
    "S/F obligations of 8/16/32-bit specializations: a value stored into a narrower output slot is assumed to be representable there (the property's own 'inputs representable in each'); E obligations do not use this assumption",
]

F = z3.DeclareSort("F")
_ufs = {}


def uf(name, *sorts):
    key = (name,) + tuple(str(s) for s in sorts)
    if key not in _ufs:
        _ufs[key] = z3.Function(name, *sorts)
    return _ufs[key]


I = z3.IntSort()
B = z3.BoolSort()


class Val:
    __slots__ = ("t", "k", "arr")

    def __init__(self, t, k, arr=None):
        self.t = t      # z3 term (for ptr: offset term)
        self.k = k      # 'int' | 'bool' | 'flt' | 'ptr' | 'opaque'
        self.arr = arr  # for ptr: array name

    def __repr__(self):
        return "Val(%s,%s%s)" % (self.t, self.k, "," + self.arr if self.arr else "")


def IV(n):
    return z3.IntVal(n)


def to_int(v):
    if v.k == "int":
        return v.t
    if v.k == "bool":
        return z3.If(v.t, IV(1), IV(0))
    if v.k == "flt":
        return uf("f2i", F, I)(v.t)
    raise EvalError("to_int of %s" % v.k)


def to_bool(v):
    if v.k == "bool":
        return v.t
    if v.k == "int":
        return v.t != 0
    if v.k == "flt":
        return uf("f_nonzero", F, B)(v.t)
    if v.k == "ptr":
        return z3.BoolVal(True)
    raise EvalError("to_bool of %s" % v.k)


def to_flt(v):
    if v.k == "flt":
        return v.t
    return uf("i2f", I, F)(to_int(v))


def type_range(ty):
    ty = unconst(ty)
    if ty in INT_TYPES:
        bits, signed = INT_TYPES[ty]
        if signed:
            return -(1 << (bits - 1)), (1 << (bits - 1)) - 1
        return 0, (1 << bits) - 1
    if ty == "bool":
        return 0, 1
    return None


def wrap_int(t, ty):
    """exact conversion of a mathematical integer to machine type ty"""
    ty = unconst(ty)
    if ty not in INT_TYPES:
        return t
    if ty == "i64":
        return t        # stated assumption: 64-bit signed values are mathematical integers
    bits, signed = INT_TYPES[ty]
    if z3.is_int_value(t):
        lo, hi = type_range(ty)
        if lo <= t.as_long() <= hi:
            return t
    m = 1 << bits
    if signed:
        h = 1 << (bits - 1)
        return ((t + h) % m) - h
    return t % m


def cdiv(a, b):
    """C truncating division on mathematical integers (b != 0)"""
    q = z3.If(a >= 0, a, -a) / z3.If(b >= 0, b, -b)
    return z3.If((a >= 0) == (b >= 0), q, -q)


def cmod(a, b):
    return a - b * cdiv(a, b)


def pyfloordiv(a, b):
    return z3.If(b > 0, a / b, (-a) / (-b))


def pymod(a, b):
    return a - b * pyfloordiv(a, b)


class EvalError(Exception):
    pass


def expr_type(e):
    """static C type of an IR expression (None if unknown)"""
    k = e[0]
    if k == "cast":
        return e[2]
    if k in ("c", "v", "g", "ld", "bin", "un", "cond", "call", "addr", "asg", "inc", "casg", "comma", "null"):
        t = e[-1]
        return t if isinstance(t, str) else None
    return None


class State:
    def __init__(self):
        self.vars = {}     # name -> Val
        self.types = {}    # name -> C type (declared)
        self.arrs = {}     # array name -> z3 array term
        self.pc = []       # path condition
        self.known = set()

    def fork(self):
        s = State()
        s.vars = dict(self.vars)
        s.types = dict(self.types)
        s.arrs = dict(self.arrs)
        s.pc = list(self.pc)
        s.known = set(self.known)
        if getattr(self, "swaps", None):
            s.swaps = dict(self.swaps)
        if getattr(self, "pundef", None):
            s.pundef = set(self.pundef)
        return s

    def assume(self, t):
        i = t.get_id()
        if i in self.known:
            return
        self.known.add(i)
        self.pc.append(t)


def merge_states(states):
    """merge fall-through states that were forked from a common ancestor"""
    if len(states) == 1:
        return states[0]
    base = states[0]
    for other in states[1:]:
        base = _merge2(base, other)
    return base


def _merge2(a, b):
    n = 0
    while n < len(a.pc) and n < len(b.pc) and a.pc[n].get_id() == b.pc[n].get_id():
        n += 1
    ca = z3.And(*a.pc[n:]) if len(a.pc) > n else z3.BoolVal(True)
    cb = z3.And(*b.pc[n:]) if len(b.pc) > n else z3.BoolVal(True)
    if getattr(a, "swaps", None) != getattr(b, "swaps", None):
        raise EvalError("states with different pending byte swaps cannot be joined")
    s = State()
    if getattr(a, "swaps", None):
        s.swaps = dict(a.swaps)
    if getattr(a, "pundef", None) or getattr(b, "pundef", None):
        s.pundef = set(getattr(a, "pundef", ())) | set(getattr(b, "pundef", ()))
    s.pc = a.pc[:n] + [z3.Or(ca, cb)]
    s.known = set(x.get_id() for x in s.pc)
    s.types = dict(b.types)
    s.types.update(a.types)
    for name in set(a.vars) | set(b.vars):
        va, vb = a.vars.get(name), b.vars.get(name)
        if va is None or vb is None:
            # declared on one side only: dead after the join in well-formed code
            s.vars[name] = va or vb
            continue
        if va.t.get_id() == vb.t.get_id() and va.k == vb.k and va.arr == vb.arr:
            s.vars[name] = va
            continue
        if va.k == "ptr" or vb.k == "ptr":
            if va.k == vb.k and va.arr == vb.arr:
                s.vars[name] = Val(z3.If(ca, va.t, vb.t), "ptr", va.arr)
                continue
            raise EvalError("pointer %s differs across a join" % name)
        if va.k != vb.k:
            if "flt" in (va.k, vb.k):
                va, vb = Val(to_flt(va), "flt"), Val(to_flt(vb), "flt")
            else:
                va, vb = Val(to_int(va), "int"), Val(to_int(vb), "int")
        s.vars[name] = Val(z3.If(ca, va.t, vb.t), va.k)
    for name in set(a.arrs) | set(b.arrs):
        xa, xb = a.arrs.get(name), b.arrs.get(name)
        if xa is None or xb is None:
            s.arrs[name] = xa if xa is not None else xb
        elif xa.get_id() == xb.get_id():
            s.arrs[name] = xa
        else:
            s.arrs[name] = z3.If(ca, xa, xb)
    return s


class Obligation:
    __slots__ = ("kind", "label", "line", "desc", "hyps", "claim", "status", "model", "time", "backend", "meta")

    def __init__(self, kind, label, line, desc, hyps, claim, meta=None):
        self.kind, self.label, self.line, self.desc = kind, label, line, desc
        self.hyps, self.claim = hyps, claim
        self.status = None
        self.model = None
        self.time = 0.0
        self.backend = None
        self.meta = meta or {}

    def ident(self):
        return "%s@%s:%s" % (self.kind, self.label, self.line)


class Evaluator:
    """expression evaluation with side effects on a State; emits obligations"""

    def __init__(self, unit):
        self.unit = unit            # dict: name, params, elemtypes ...
        self.obls = []
        self.counter = itertools.count()
        self.extents = {}           # array name -> z3 Int term (element count) or None
        self.writable = {}          # array name -> bool
        self.elem = {}              # array name -> elem type ('py' on the python side)
        self.globals = {}
        self.emit_safety = True
        self.loc_label = ""
        self.line = None
        self.call_handler = None
        self.assumed = []           # strings: things assumed on this unit
        self.facts = []             # universally valid facts (type ranges of loaded elements)
        self._fact_ids = set()
        self.assume_store_fits = False  # S/F mode: a value stored into a narrower output slot is assumed representable
        self.assumed_fits = 0
        self.float_is_neutral = False   # python side: float(x) of an integer is a type-neutral conversion

    # ---- util
    def fresh(self, base, sort=I):
        return z3.Const("%s!%d" % (base, next(self.counter)), sort)

    def oblige(self, kind, claim, st, desc, meta=None):
        self.obls.append(Obligation(kind, self.loc_label, self.line, desc, self.facts + list(st.pc), claim, meta))

    def global_fact(self, t):
        i = t.get_id()
        if i not in self._fact_ids:
            self._fact_ids.add(i)
            self.facts.append(t)

    def arr_sort(self, name):
        et = self.elem.get(name)
        if et in ("f32", "f64", "pyf"):
            return z3.ArraySort(I, F)
        if isinstance(et, str) and et.startswith("p:"):
            # T**: an array of rows (read-only use: the row selected by an index is itself an array)
            inner = unconst(et[2:])
            return z3.ArraySort(I, z3.ArraySort(I, F if inner in ("f32", "f64") else I))
        return z3.ArraySort(I, I)

    def range_fact(self, t, ty, st):
        r = type_range(ty)
        if r is not None:
            st.assume(z3.And(t >= r[0], t <= r[1]))

    # ---- values of a given C type from an Int/F term
    def val_of_elem(self, t, ety):
        ety = unconst(ety)
        if ety in ("f32", "f64", "pyf"):
            return Val(t, "flt")
        if ety == "bool":
            return Val(t != 0, "bool")
        return Val(t, "int")

    def coerce(self, v, ty):
        """convert a Val to C type ty exactly (machine semantics)"""
        ty = unconst(ty)
        if ty == "bool":
            return Val(to_bool(v), "bool")
        if ty in INT_TYPES:
            if v.k == "flt":
                # out-of-range float->int conversion is undefined in C; modelled as one total function on both sides
                return Val(wrap_int(uf("f2i", F, I)(v.t), ty), "int")
            return Val(wrap_int(to_int(v), ty), "int")
        if ty in ("f32", "f64", "pyf"):
            return Val(to_flt(v), "flt")
        return v

    # ---- expression evaluation
    def ev(self, e, st):
        k = e[0]
        m = getattr(self, "ev_" + k, None)
        if m is None:
            raise EvalError("no evaluator for node %s" % k)
        return m(e, st)

    def ev_c(self, e, st):
        _, v, ty = e
        if ty in ("f32", "f64", "pyf") or isinstance(v, float):
            if float(v) == int(v):
                return Val(uf("i2f", I, F)(IV(int(v))), "flt")
            return Val(z3.Const("fconst_%s" % repr(v), F), "flt")
        if ty == "bool":
            return Val(z3.BoolVal(bool(v)), "bool")
        return Val(IV(v), "int")

    def ev_null(self, e, st):
        return Val(IV(0), "ptr", "<null>")

    def ev_v(self, e, st):
        name = e[1]
        if name in st.vars:
            return st.vars[name]
        if name in self.globals:
            return Val(IV(self.globals[name]), "int")
        if name in st.arrs:
            return Val(IV(0), "ptr", name)
        raise EvalError("unbound variable %s" % name)

    def ev_g(self, e, st):
        return self.ev_v(e, st)

    def ev_cast(self, e, st):
        _, inner, ty, ck = e
        v = self.ev(inner, st)
        if ck == "noop":
            return v
        if ck == "NullToPointer":
            return Val(IV(0), "ptr", "<null>")
        if ck == "BitCast":
            if v.k == "ptr":
                return v
            raise EvalError("bitcast of non-pointer")
        if ck == "PointerToIntegral":
            return Val(self.fresh("ptrbits"), "int")
        if ck == "IntegralToPointer":
            return Val(IV(0), "ptr", "<opaque>")
        if ck == "py":
            if ty == "py":     # int(x)
                if v.k == "flt":
                    return Val(uf("f2i", F, I)(v.t), "int")
                return Val(to_int(v), "int")
            if ty == "pyu8":
                return Val(to_int(v), "int")
            if ty == "pyf":
                if self.float_is_neutral and v.k in ("int", "bool"):
                    return Val(to_int(v), "int")
                return Val(to_flt(v), "flt")
            if ty == "bool":
                return Val(to_bool(v), "bool")
        if v.k == "ptr":
            if ck == "PointerToBoolean":
                return Val(z3.BoolVal(True), "bool")
            return v
        if v.k == "bool" and unconst(ty) in INT_TYPES:
            return v       # a bool stays a {0,1} value; converted lazily where an integer is needed
        src = type_range(expr_type(inner) or "")
        dst = type_range(ty)
        if src is not None and dst is not None and dst[0] <= src[0] and src[1] <= dst[1] and unconst(ty) != "bool":
            return Val(to_int(v), "int")     # widening: value-preserving by typing
        return self.coerce(v, ty)

    def _ptr(self, base, st):
        v = self.ev(base, st)
        if v.k != "ptr":
            raise EvalError("subscript of non-pointer %r" % (base,))
        return v

    def _index(self, e, st):
        """(array name, index term) of an lvalue/rvalue ['ld', base, idx, ty]"""
        p = self._ptr(e[1], st)
        if p.arr == "<null>":
            raise EvalError("null pointer dereference in the text")
        iv = self.ev(e[2], st)
        idx = to_int(iv) + p.t if not z3.is_int_value(p.t) or p.t.as_long() != 0 else to_int(iv)
        return p.arr, z3.simplify(idx) if z3.is_int_value(idx) else idx

    def bounds(self, arr, idx, st, what):
        if not self.emit_safety or arr in getattr(self, "unchecked", ()):
            return
        ext = self.extents.get(arr)
        if ext is None:
            self.oblige("S.lower", idx >= 0, st, "%s %s[%s]: index >= 0 (extent unspecified)" % (what, arr, idx),
                        {"arr": arr, "access": what})
        else:
            self.oblige("S.bounds", z3.And(idx >= 0, idx < ext), st,
                        "%s %s[%s] within [0, %s)" % (what, arr, idx, ext), {"arr": arr, "access": what})

    def ev_ld(self, e, st):
        arr, idx = self._index(e, st)
        if arr not in st.arrs and "@g" in arr:
            self.oblige("S.dangling", z3.BoolVal(False), st, "read through a pointer into buffer %s after it was reallocated" % arr.split("@")[0])
            return self.val_of_elem(self.fresh("dangling"), self.elem.get(arr, "i64"))
        if arr not in st.arrs:
            raise EvalError("load from unknown array %s" % arr)
        self.bounds(arr, idx, st, "read")
        ety = self.elem.get(arr, "py")
        if isinstance(ety, str) and ety.startswith("p:"):
            # a row of a T** parameter: registered as a read-only array of its own (its extent is not a parameter of
            # any kernel: index obligations on rows are not generated, the row is listed as unchecked)
            row = "%s[%s]" % (arr, str(idx).replace(" ", "").replace("\n", ""))
            if row not in st.arrs:
                st.arrs[row] = z3.Select(st.arrs[arr], idx)
            self.elem[row] = unconst(ety[2:])
            self.writable[row] = False
            self.unchecked = set(getattr(self, "unchecked", ())) | {row}
            return Val(IV(0), "ptr", row)
        t = z3.Select(st.arrs[arr], idx)
        if ety not in ("f32", "f64", "pyf"):
            r = type_range(ety)
            if r is not None:
                self.global_fact(z3.And(t >= r[0], t <= r[1]))
        return self.val_of_elem(t, ety)

    def store(self, arr, idx, v, st, src_ty=None):
        if arr not in st.arrs and "@g" in arr:
            self.oblige("S.dangling", z3.BoolVal(False), st, "write through a pointer into buffer %s after it was reallocated" % arr.split("@")[0])
            return
        if arr not in st.arrs:
            raise EvalError("store to unknown array %s" % arr)
        self.bounds(arr, idx, st, "write")
        if self.emit_safety and not self.writable.get(arr, True):
            self.oblige("S.const", z3.BoolVal(False), st, "write to input array %s" % arr, {"arr": arr})
        ety = self.elem.get(arr, "py")
        if ety in ("f32", "f64", "pyf"):
            t = to_flt(v)
        elif ety == "py":
            t = to_int(v)
        elif src_ty is not None and unconst(src_ty) == ety and ety != "bool":
            t = to_int(v)       # same static type: no conversion happens
        else:
            if self.assume_store_fits and ety in INT_TYPES and ety != "i64" and v.k == "int":
                r = type_range(ety)
                raw = to_int(v)
                if not (z3.is_int_value(raw) and r[0] <= raw.as_long() <= r[1]):
                    st.assume(z3.And(raw >= r[0], raw <= r[1]))
                    self.assumed_fits += 1
            t = to_int(self.coerce(v, ety)) if ety != "bool" else to_int(Val(to_bool(v), "bool"))
        st.arrs[arr] = z3.Store(st.arrs[arr], idx, t)

    def assign(self, lv, v, st, src_ty=None):
        if lv[0] == "v":
            name = lv[1]
            ty = st.types.get(name) or (lv[2] if lv[2] != "py" else None)
            if name in st.arrs and name not in st.vars:
                raise EvalError("assignment to array parameter %s" % name)
            if v.k == "ptr" or self.float_is_neutral:
                # (definition side: values are converted to the C type when they are compared, not here)
                st.vars[name] = v
            elif ty and src_ty is not None and unconst(src_ty) == unconst(ty) and ty != "bool" and v.k != "bool":
                st.vars[name] = v
            elif ty and ty != "py":
                st.vars[name] = self.coerce(v, ty)
            else:
                st.vars[name] = v
            return st.vars[name]
        if lv[0] == "ld":
            arr, idx = self._index(lv, st)
            self.store(arr, idx, v, st, src_ty)
            return v
        if lv[0] == "cast" and lv[3] == "noop":
            return self.assign(lv[1], v, st, src_ty)
        raise EvalError("assignment to %s" % lv[0])

    def ev_asg(self, e, st):
        _, lv, rhs, ty = e
        if (self.assume_store_fits and lv[0] == "ld" and rhs[0] == "cast" and rhs[3] == "IntegralCast"
                and unconst(rhs[2]) in INT_TYPES and unconst(rhs[2]) != "i64"):
            inner = self.ev(rhs[1], st)
            if inner.k == "int":
                r = type_range(rhs[2])
                if not (z3.is_int_value(inner.t) and r[0] <= inner.t.as_long() <= r[1]):
                    st.assume(z3.And(inner.t >= r[0], inner.t <= r[1]))
                    self.assumed_fits += 1
                return self.assign(lv, inner, st, None)
        v = self.ev(rhs, st)
        # an explicit/implicit conversion node at the top means a conversion did happen on this side
        return self.assign(lv, v, st, None if rhs[0] == "cast" and rhs[3] != "noop" else expr_type(rhs))

    def ev_casg(self, e, st):
        _, op, lv, rhs, cty, ty = e
        cur = self.ev(lv, st)
        r = self.ev(rhs, st)
        v = self.binop(op, cur, r, cty, st)
        return self.assign(lv, v, st, cty if cty != "py" else None)

    def ev_inc(self, e, st):
        _, lv, delta, prefix, ty = e
        cur = self.ev(lv, st)
        if cur.k == "ptr":
            new = Val(cur.t + delta, "ptr", cur.arr)
        else:
            new = Val(to_int(cur) + delta, "int")
        lt = expr_type(lv)
        new = self.assign(lv, new, st, lt if lt in ("i32", "i64") else None)
        return new if prefix else cur

    def ev_comma(self, e, st):
        self.ev(e[1], st)
        return self.ev(e[2], st)

    def ev_un(self, e, st):
        _, op, x, ty = e
        v = self.ev(x, st)
        if op == "!":
            return Val(z3.Not(to_bool(v)), "bool")
        if op == "-":
            if v.k == "flt":
                return Val(uf("f_neg", F, F)(v.t), "flt")
            t = -to_int(v)
            if ty in ("u32", "u64"):
                t = wrap_int(t, ty)
            return Val(t, "int")
        if op == "~":
            return Val(-to_int(v) - 1 if ty in ("i32", "i64", "py") else wrap_int(-to_int(v) - 1, ty), "int")
        raise EvalError("unary %s" % op)

    def ev_cond(self, e, st):
        _, c, a, b, ty = e
        cv = to_bool(self.ev(c, st))
        sa, sb = st.fork(), st.fork()
        sa.assume(cv)
        sb.assume(z3.Not(cv))
        n0 = len(self.obls)
        va = self.ev(a, sa)
        vb = self.ev(b, sb)
        # side effects inside ?: arms are not supported (none in the code base)
        if _differs(sa, st) or _differs(sb, st):
            raise EvalError("side effect inside ?:")
        if va.k == "ptr" or vb.k == "ptr":
            if va.arr != vb.arr:
                raise EvalError("?: over different arrays")
            return Val(z3.If(cv, va.t, vb.t), "ptr", va.arr)
        if va.k == vb.k == "bool":
            return Val(z3.If(cv, va.t, vb.t), "bool")
        if "flt" in (va.k, vb.k):
            return Val(z3.If(cv, to_flt(va), to_flt(vb)), "flt")
        return Val(z3.If(cv, to_int(va), to_int(vb)), "int")

    def ev_bin(self, e, st):
        _, op, l, r, ty = e
        if op == "&&":
            a = to_bool(self.ev(l, st))
            s2 = st.fork()
            n0 = len(s2.pc)
            s2.assume(a)
            n1 = len(s2.pc)
            b = to_bool(self.ev(r, s2))
            if _differs(s2, st):
                raise EvalError("side effect in && operand")
            for fact in s2.pc[n1:]:          # facts learnt while evaluating the right operand (callee postconditions)
                st.assume(z3.Implies(a, fact))
            return Val(z3.And(a, b), "bool")
        if op == "||":
            a = to_bool(self.ev(l, st))
            s2 = st.fork()
            s2.assume(z3.Not(a))
            n1 = len(s2.pc)
            b = to_bool(self.ev(r, s2))
            if _differs(s2, st):
                raise EvalError("side effect in || operand")
            for fact in s2.pc[n1:]:
                st.assume(z3.Implies(z3.Not(a), fact))
            return Val(z3.Or(a, b), "bool")
        a = self.ev(l, st)
        b = self.ev(r, st)
        return self.binop(op, a, b, ty, st)

    def binop(self, op, a, b, ty, st):
        ty = unconst(ty)
        if a.k == "ptr" or b.k == "ptr":
            if op == "+" and a.k == "ptr" and b.k != "ptr":
                return Val(a.t + to_int(b), "ptr", a.arr)
            if op == "+" and b.k == "ptr" and a.k != "ptr":
                return Val(b.t + to_int(a), "ptr", b.arr)
            if op == "-" and a.k == "ptr" and b.k != "ptr":
                return Val(a.t - to_int(b), "ptr", a.arr)
            if op in ("==", "!=") and (a.arr == "<null>" or b.arr == "<null>"):
                other = b if a.arr == "<null>" else a
                isnull = z3.BoolVal(other.arr == "<null>")
                return Val(isnull if op == "==" else z3.Not(isnull), "bool")
            raise EvalError("pointer op %s" % op)
        if op in ("<", "<=", ">", ">=", "==", "!="):
            if a.k == "flt" or b.k == "flt":
                x, y = to_flt(a), to_flt(b)
                if op == "==":
                    return Val(uf("f_eq", F, F, B)(x, y), "bool")
                if op == "!=":
                    return Val(z3.Not(uf("f_eq", F, F, B)(x, y)), "bool")
                if op == "<":
                    return Val(uf("f_lt", F, F, B)(x, y), "bool")
                if op == ">":
                    return Val(uf("f_lt", F, F, B)(y, x), "bool")
                if op == "<=":
                    return Val(uf("f_le", F, F, B)(x, y), "bool")
                return Val(uf("f_le", F, F, B)(y, x), "bool")
            if a.k == "bool" and b.k == "bool" and op in ("==", "!="):
                return Val(a.t == b.t if op == "==" else z3.Xor(a.t, b.t), "bool")
            x, y = to_int(a), to_int(b)
            return Val({"<": x < y, "<=": x <= y, ">": x > y, ">=": x >= y,
                        "==": x == y, "!=": x != y}[op], "bool")
        if a.k == "flt" or b.k == "flt" or ty in ("f32", "f64", "pyf") or op == "/" and ty == "py":
            if op == "/" and ty == "py" and a.k != "flt" and b.k != "flt":
                return Val(uf("py_truediv", I, I, F)(to_int(a), to_int(b)), "flt")
            x, y = to_flt(a), to_flt(b)
            name = {"+": "f_add", "-": "f_sub", "*": "f_mul", "/": "f_div", "%": "f_mod", "//": "f_floordiv",
                    "**": "f_pow"}.get(op)
            if name is None:
                raise EvalError("float op %s" % op)
            return Val(uf(name, F, F, F)(x, y), "flt")
        if a.k == "bool" and b.k == "bool" and op in ("&", "|", "^"):
            t = {"&": z3.And(a.t, b.t), "|": z3.Or(a.t, b.t), "^": z3.Xor(a.t, b.t)}[op]
            return Val(t, "bool")
        x, y = to_int(a), to_int(b)
        if op == "+":
            t = x + y
        elif op == "-":
            t = x - y
        elif op == "*":
            t = x * y
        elif op in ("/", "%", "//"):
            if self.emit_safety:
                self.oblige("S.div", y != 0, st, "divisor %s != 0" % y)
            if ty == "py":
                t = pyfloordiv(x, y) if op == "//" else pymod(x, y)
            else:
                if self.emit_safety and ty in ("i32", "i64"):
                    lo = type_range(ty)[0]
                    self.oblige("S.divovf", z3.Not(z3.And(x == lo, y == -1)), st, "no INT_MIN / -1")
                t = cdiv(x, y) if op == "/" else cmod(x, y)
        elif op in ("<<", ">>"):
            t = self.shift(op, x, y, ty, st)
        elif op in ("&", "|", "^"):
            t = self.bitop(op, x, y, a, b)
        elif op == "**":
            t = uf("i_pow", I, I, I)(x, y)
        else:
            raise EvalError("binary %s" % op)
        if ty in ("u32", "u64"):
            t = wrap_int(t, ty)
        if ty == "bool":
            return Val(t != 0, "bool")
        return Val(t, "int")

    def shift(self, op, x, y, ty, st):
        if z3.is_int_value(y):
            n = y.as_long()
            if self.emit_safety and ty in INT_TYPES:
                self.oblige("S.shift", z3.BoolVal(0 <= n < INT_TYPES[ty][0]), st, "shift amount in range")
            if op == "<<":
                return x * (1 << n)
            return x / (1 << n)   # z3 Int division is floor for positive divisors: arithmetic shift
        if self.emit_safety and ty in INT_TYPES:
            self.oblige("S.shift", z3.And(y >= 0, y < INT_TYPES[ty][0]), st, "shift amount in range")
        p = uf("pow2", I, I)(y)
        return x * p if op == "<<" else uf("i_shr", I, I, I)(x, y)

    def bitop(self, op, x, y, a, b):
        for u, v in ((x, y), (y, x)):
            if z3.is_int_value(v):
                c = v.as_long()
                if op == "&" and c >= 0:
                    if c & (c + 1) == 0:          # 2^k - 1
                        return u % (c + 1)
                    if c & (c - 1) == 0 and c > 0:   # single bit 2^k
                        return ((u / c) % 2) * c
                if op == "|" and c == 0:
                    return u
                if op == "&" and c == 0:
                    return IV(0)
        return uf({"&": "i_and", "|": "i_or", "^": "i_xor"}[op], I, I, I)(x, y)

    def ev_addr(self, e, st):
        inner = e[1]
        if inner[0] == "v":
            return Val(IV(0), "ptr", "&" + inner[1])
        if inner[0] == "ld":
            arr, idx = self._index(inner, st)
            return Val(idx, "ptr", arr)
        raise EvalError("address-of %s" % inner[0])

    def ev_call(self, e, st):
        if self.call_handler is None:
            raise EvalError("call to %s" % e[1])
        return self.call_handler(self, e, st)

    def ev_construct(self, e, st):
        # copy-construction of an iterator / value from one argument of the same type
        if len(e[2]) == 1:
            return self.ev(e[2][0], st)
        raise EvalError("construct %s" % e[1])

    def ev_mcall(self, e, st):
        h = getattr(self, "mcall_handler", None)
        if h is None:
            raise EvalError("member call %s" % e[2])
        return h(self, e, st)

    def ev_member(self, e, st):
        raise EvalError("member access %s" % e[2])

    def ev_str(self, e, st):
        return Val(IV(0), "opaque")

    def ev_fn(self, e, st):
        return Val(IV(0), "opaque")


def _differs(a, b):
    if len(a.vars) != len(b.vars):
        return False  # new declarations do not matter
    for k, v in a.vars.items():
        w = b.vars.get(k)
        if w is None or w.t.get_id() != v.t.get_id():
            return True
    for k, v in a.arrs.items():
        if b.arrs[k].get_id() != v.get_id():
            return True
    return False
