"""Which units serve which property."""
import re

ALL = [".*"]

PLAN = {
    "C13": {"kernels": ALL, "kinds": ["SIG", "S", "E", "F"],
            "trusted": ["kernel-specification.yml definitions are read with typed stores (see lockstep.py); definitions marked exempt in contracts/e_exempt.json are only checked by the bounded differential run",
                        "include/awkward/kernels.h prototypes are checked by the C++ compiler against the definitions (same translation unit), not by this check"]},
}


def _forth_engine(pid, tier, seed, known):
    from . import forth
    return forth.engine(pid, tier, seed, known)


from . import forth as _forth_mod   # noqa: E402  (for the trusted-base text)
PLAN["C19"] = {"kernels": [], "kinds": [], "extra": [_forth_engine], "trusted": _forth_mod.TRUSTED}


def symbols_for(P, KI):
    pats = [re.compile(p) for p in P.get("kernels", [])]
    out = []
    for s, info in sorted(KI.symbols.items()):
        if any(p.search(info["kernel"]) or p.search(s) for p in pats):
            out.append(s)
    return out
