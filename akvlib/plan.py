"""Which units serve which property."""
import re

ALL = [".*"]

PLAN = {
    "C13": {"kernels": ALL, "kinds": ["SIG", "S", "E", "F"],
            "trusted": ["kernel-specification.yml definitions are read with typed stores (see lockstep.py); definitions marked exempt in contracts/e_exempt.json are only checked by the bounded differential run",
                        "include/awkward/kernels.h prototypes are checked by the C++ compiler against the definitions (same translation unit), not by this check"]},
}


KERNEL_TRUST = ["kernel preconditions (validity of offsets/starts/stops/parents/indexes, lengths >= 0) are those written in contracts/*.py; the C++ class methods and the Python layer that compose these kernels (Content::getitem/reduce/..., structure.py, _util.py) are glue outside the contracts: a change there is invisible to this check"]

PLAN["C01"] = {"kernels": [r"getitem", r"regularize", r"slicearray", r"jagged", r"SliceJagged", r"SliceMissing", r"slicemissing",
                           r"missing_repeat", r"SliceVarNewAxis", r"carry_arange"],
               "functions": ["awkward_regularize_rangeslice"],
               "kinds": ["S", "E", "F"], "trusted": KERNEL_TRUST}
PLAN["C02"] = {"kernels": [r"compact_offsets", r"broadcast_tooffsets", r"toRegularArray", r"getitem_nextcarry", r"simplify",
                           r"toIndexedOptionArray", r"BitMaskedArray_to", r"Index\w*_to_Index64", r"contiguous", r"index_carry",
                           r"Index\w*_carry", r"ListArray\w*_num_", r"RegularArray_num", r"iscontiguous", r"rpad", r"ByteMaskedArray",
                           r"localindex", r"flatten_offsets"],
               "kinds": ["SIG", "S", "E", "F"], "extra": [], "trusted": KERNEL_TRUST}
PLAN["C03"] = {"kernels": [r"reduce", r"zeroparents", r"index_of_nulls"],
               "kinds": ["S", "E", "F"], "trusted": KERNEL_TRUST}
PLAN["C04"] = {"kernels": [r"broadcast_tooffsets", r"compact_offsets"],
               "kinds": ["S", "E", "F"], "trusted": KERNEL_TRUST}
PLAN["C05"] = {"kernels": [r"_num_", r"RegularArray_num", r"flatten", r"localindex", r"none2empty",
                           # num / flatten / local_index below an option node project it first: the count of missing
                           # values sizes the carry, the carry selects the present ones
                           r"numnull", r"getitem_nextcarry"],
               "kinds": ["S", "E", "F"], "trusted": KERNEL_TRUST}
PLAN["C08"] = {"kernels": [r"_fill", r"simplify", r"UnionArray\w*_project", r"regular_index", r"nestedfill"],
               "kinds": ["S", "E", "F"], "trusted": KERNEL_TRUST}
PLAN["C09"] = {"kernels": [r"rpad", r"min_range", r"fillna", r"numnull", r"mask8", r"overlay_mask", r"zero_mask", r"one_mask",
                           r"nones_as_index", r"BitMaskedArray_to", r"toIndexedOptionArray", r"ByteMaskedArray_mask", r"IndexedArray\w*_mask"],
               "kinds": ["S", "E", "F"], "trusted": KERNEL_TRUST}
PLAN["C11"] = {"kernels": [r"validity", r"rpad_length_axis1", r"ListOffsetArray\w*_compact_offsets", r"getitem_nextcarry", r"ListArray\w*_getitem_carry"], "kinds": ["S", "E", "F"], "trusted": KERNEL_TRUST}
QUICK_HELPERS = ["quick_sort", "quick_argsort"]     # helper templates of the hand-written quicksort: one unit per instantiation
PLAN["C12"] = {"kernels": ALL, "functions": ["awkward_regularize_rangeslice"] + QUICK_HELPERS, "kinds": ["S", "F"], "trusted": KERNEL_TRUST}
PLAN["C13"]["functions"] = list(QUICK_HELPERS)


def _forth_engine(pid, tier, seed, known):
    from . import forth
    return forth.engine(pid, tier, seed, known)


from . import forth as _forth_mod   # noqa: E402  (for the trusted-base text)
PLAN["C19"] = {"kernels": [], "kinds": [], "extra": [_forth_engine], "trusted": _forth_mod.TRUSTED}


def _builders_engine(pid, tier, seed, known):
    from . import builders
    return builders.engine(pid, tier, seed, known)


from . import builders as _builders_mod   # noqa: E402
PLAN["C14"] = {"kernels": [], "kinds": [], "extra": [_builders_engine], "trusted": _builders_mod.TRUSTED}
def _combinations_engine(pid, tier, seed, known):
    from . import sorting
    return sorting.engine(pid, tier, seed, known, which=("combinations",))


def _gsite_engine(pid, tier, seed, known):
    from . import gsite
    return gsite.engine(pid, tier, seed, known)


G_TRUST = ["Engine G uses no path conditions: a call site is counted only if the allocation expression alone implies the kernel's extent; the other sites are listed as g_undecided_sites in the evidence and are not covered",
           "Engine G reads the call sites from the source text (kernel::NAME<...>(kernel::lib::cpu, ...) with `x.data()` arguments of locals declared `Index..(EXPR)` in the same function); other argument forms are not covered"]
def _gcall_engine(pid, tier, seed, known):
    from . import gcall
    return gcall.engine(pid, tier, seed, known)


G_TRUST.append("Engine G (AST based, gcall.py): libawkward caller methods are executed symbolically with path conditions; objects the translator does not model are opaque (fresh values), class invariants are those listed in gcall.py (taken from the constructors' checks; for ByteMaskedArray and BitMaskedArray additionally the length rules of validityerror(), i.e. *this is assumed valid), the length preconditions of the recursive virtual methods (VMETHODS: reduce_next/sort_next/argsort_next/getitem_next) and start <= stop for getitem_range_nowrap are assumed inside the method bodies and checked at the call sites found in libawkward (calls coming from src/python or from user code are not seen), the content-length model (carry, getitem_range_nowrap and the same-length conversions) is taken from the documented meaning of those methods, not proved; only obligations that prove on the unchanged tree are counted (contracts/g_calls.json), the others are listed as g_call_undecided")
PLAN["C12"]["extra"] = [_builders_engine, _forth_engine, _gsite_engine, _gcall_engine, _combinations_engine]
PLAN["C12"]["trusted"] = KERNEL_TRUST + _builders_mod.TRUSTED + _forth_mod.TRUSTED + G_TRUST


def _partition_engine(pid, tier, seed, known):
    from . import partition
    return partition.engine(pid, tier, seed, known)


from . import partition as _partition_mod   # noqa: E402
PLAN["C18"] = {"kernels": [], "functions": ["awkward_regularize_rangeslice"], "kinds": ["S", "F"],
               "extra": [_partition_engine], "trusted": _partition_mod.TRUSTED}


def _sorting_engine(pid, tier, seed, known):
    from . import sorting
    return sorting.engine(pid, tier, seed, known, which=("sorts", "strings"))


def _combinations_engine(pid, tier, seed, known):
    from . import sorting
    return sorting.engine(pid, tier, seed, known, which=("combinations",))


SORT_TRUST = ["std::sort / std::stable_sort / std::iota are external: given a strict weak order (proved here for every comparator instantiation) they return a sorted permutation, stable_sort a stable one",
              "the hand-written quicksort (quick_sort / quick_argsort and the kernels around them) is under contract for memory safety, its stack discipline and the frame of each call (contracts/quicksort.py); that its output is sorted and a permutation is NOT proved: BOUNDED stand-in only; termination is not proved; binary_op's result is an unknown boolean in those units (the predicates themselves are proved total preorders with NaN first)",
              "awkward_sort / awkward_argsort / awkward_ListOffsetArray_local_preparenext_64 are under contract (contracts/stdsort.py) with std::vector<int64_t>, std::iota, std::next, std::sort, std::stable_sort and std::transform as built-ins whose contracts are ASSUMED (the sorted range is a permutation of itself ordered by the comparator, stable_sort keeps equivalent elements in order, nothing else changes); memory safety for all eleven element types, the functional postcondition (ordered within each list, positions of that list only and each once, stability) for awkward_sort of all types and for awkward_argsort of int64, float64 and bool",
              "the std::string based string sorts are checked by the BOUNDED stand-ins listed under coverage.bounded; those are not proofs"]
PLAN["C06"] = {"kernels": [r"sorting_ranges", r"rearrange_shifted", r"local_preparenext", r"awkward_unique", r"subrange_equal", r"unique_strings",
                           r"awkward_quick_sort", r"awkward_quick_argsort", r"^awkward_sort$", r"^awkward_argsort$"],
               "functions": list(QUICK_HELPERS),
               "kinds": ["S", "E", "F"], "extra": [_sorting_engine], "trusted": KERNEL_TRUST + SORT_TRUST}
PLAN["C07"] = {"kernels": [r"combinations"], "kinds": ["S", "E", "F"], "extra": [_combinations_engine],
               "trusted": KERNEL_TRUST + ["enumeration order of awkward_ListArray_combinations / awkward_RegularArray_combinations_64 (recursive helper over T**) is outside the translator: BOUNDED stand-in against itertools only; ak.cartesian is Python glue, not covered"]}


def _slices_engine(pid, tier, seed, known):
    from . import bounded_slices
    return bounded_slices.engine(pid, tier, seed, known)


PLAN["C01"]["extra"] = list(PLAN["C01"].get("extra", [])) + [_slices_engine]


def _gcall_for(pid):
    def eng(pid_, tier, seed, known):
        from . import gcall
        return gcall.engine(pid_, tier, seed, known, kernel_patterns=PLAN[pid]["kernels"])
    eng.__name__ = "gcall_%s" % pid
    return eng


PLAN["C06"]["kernels"] = list(PLAN["C06"]["kernels"]) + [r"method:(arg)?sort_next", r"argsort_strings", r"sort_asstrings"]
# Engine G obligations that are not kernel calls (recursive virtual calls, node constructions) are routed by the same
# patterns: "method:<name>" / "construct:<class>"
PLAN["C11"]["kernels"] = list(PLAN["C11"]["kernels"]) + [r"^construct:"]
PLAN["C05"]["kernels"] = list(PLAN["C05"]["kernels"]) + [r"^method:(num|offsets_and_flattened|localindex)"]
PLAN["C09"]["kernels"] = list(PLAN["C09"]["kernels"]) + [r"^method:rpad", r"^construct:(ByteMasked|BitMasked|Unmasked)"]
PLAN["C07"]["kernels"] = list(PLAN["C07"]["kernels"]) + [r"^method:combinations"]
for _pid in ("C01", "C02", "C03", "C04", "C05", "C06", "C07", "C08", "C09", "C11"):
    PLAN[_pid].setdefault("extra", [])
    PLAN[_pid]["extra"] = list(PLAN[_pid]["extra"]) + [_gcall_for(_pid)]
    PLAN[_pid]["trusted"] = list(PLAN[_pid].get("trusted", [])) + [G_TRUST[-1]]


def _native_engine(pid, tier, seed, known):
    from .nat import engine as _ne
    return _ne.engine(pid, tier, seed, known)


from .nat import engine as _nat_mod
# bounded-only claims (level "exploration"): no deductive obligation exists for these; Engine N families only
PLAN["C17"] = {"kernels": [], "kinds": [], "extra": [], "trusted": [], "level": "exploration"}
PLAN["C10"] = {"kernels": [], "kinds": [], "extra": [], "trusted": [], "level": "exploration"}
for _pid in ("C01", "C02", "C03", "C04", "C05", "C06", "C07", "C08", "C09", "C10", "C11", "C12", "C14", "C17", "C18", "C19"):
    PLAN[_pid].setdefault("extra", [])
    PLAN[_pid]["extra"] = list(PLAN[_pid]["extra"]) + [_native_engine]
    PLAN[_pid]["trusted"] = list(PLAN[_pid].get("trusted", [])) + _nat_mod.TRUSTED


def symbols_for(P, KI):
    pats = [re.compile(p) for p in P.get("kernels", [])]
    out = []
    for s, info in sorted(KI.symbols.items()):
        if any(p.search(info["kernel"]) or p.search(s) for p in pats):
            out.append(s)
    return out
