"""C06: (a) the comparators of awkward_sort / awkward_argsort are proved strict weak orders that put NaN
first in both directions (loop-free units over z3's floating-point theory: complete proofs);
(b) BOUNDED stand-ins for the sorting cores (std::sort / hand-written quicksort / std::string code are
outside the translator): the compiled kernels are run on every small input of a stated domain and compared
with an oracle.  Bounded results are never counted as proved."""
import itertools, math, os, time

import z3

from . import cast, native

SORT = os.path.join(cast.REPO, "src", "cpu-kernels", "awkward_sort.cpp")
ARGSORT = os.path.join(cast.REPO, "src", "cpu-kernels", "awkward_argsort.cpp")


# ---------------------------------------------------------------- comparators (bit-precise: BV for integers, FP for floats)
INTW = {"i8": (8, True), "u8": (8, False), "i16": (16, True), "u16": (16, False), "i32": (32, True), "u32": (32, False),
        "i64": (64, True), "u64": (64, False)}


class CV:
    """comparator value: ('fp', term) | ('bv', term, signed) | ('bool', term)"""
    def __init__(self, kind, t, signed=True):
        self.kind, self.t, self.signed = kind, t, signed


def to_fp(v, sort):
    if v.kind == "fp":
        return z3.fpToFP(z3.RNE(), v.t, sort) if v.t.sort() != sort else v.t
    if v.kind == "bv":
        return z3.fpSignedToFP(z3.RNE(), v.t, sort) if v.signed else z3.fpUnsignedToFP(z3.RNE(), v.t, sort)
    raise ValueError("conversion to floating point")


def cmp_eval(e, env):
    k = e[0]
    if k == "v":
        return env[e[1]]
    if k == "c":
        if e[2] == "bool":
            return CV("bool", z3.BoolVal(bool(e[1])))
        raise ValueError("constant in comparator")
    if k == "cast":
        v = cmp_eval(e[1], env)
        ty = e[2]
        if ty in ("f64", "f32"):
            return CV("fp", to_fp(v, z3.Float64() if ty == "f64" else z3.Float32()))
        if ty in INTW and v.kind == "bv":
            w, sg = INTW[ty]
            cur = v.t.size()
            if w == cur:
                return CV("bv", v.t, sg)
            if w > cur:
                return CV("bv", z3.SignExt(w - cur, v.t) if v.signed else z3.ZeroExt(w - cur, v.t), sg)
            return CV("bv", z3.Extract(w - 1, 0, v.t), sg)
        if ty == "bool" and v.kind == "bool":
            return v
        if ty in INTW and v.kind == "bool":
            w, sg = INTW[ty]
            return CV("bv", z3.If(v.t, z3.BitVecVal(1, w), z3.BitVecVal(0, w)), sg)
        raise ValueError("cast to %s" % ty)
    if k == "un" and e[1] == "!":
        return CV("bool", z3.Not(cmp_eval(e[2], env).t))
    if k == "bin":
        op = e[1]
        a, b = cmp_eval(e[2], env), cmp_eval(e[3], env)
        if op == "&&":
            return CV("bool", z3.And(a.t, b.t))
        if op == "||":
            return CV("bool", z3.Or(a.t, b.t))
        if a.kind == "bool" and b.kind == "bool" and op in ("==", "!=", "<", ">", "<=", ">="):
            # bool operands are promoted to int
            x, y = z3.If(a.t, 1, 0), z3.If(b.t, 1, 0)
            return CV("bool", {"<": x < y, ">": x > y, "<=": x <= y, ">=": x >= y, "==": x == y, "!=": x != y}[op])
        if a.kind == "fp" or b.kind == "fp":
            srt = a.t.sort() if a.kind == "fp" else b.t.sort()
            x, y = to_fp(a, srt), to_fp(b, srt)
            return CV("bool", {"<": z3.fpLT(x, y), ">": z3.fpGT(x, y), "<=": z3.fpLEQ(x, y), ">=": z3.fpGEQ(x, y),
                               "==": z3.fpEQ(x, y), "!=": z3.Not(z3.fpEQ(x, y))}[op])
        if a.kind == "bv" and b.kind == "bv":
            if a.t.size() != b.t.size():
                raise ValueError("operand widths differ")
            if op in ("==", "!="):
                return CV("bool", (a.t == b.t) if op == "==" else (a.t != b.t))
            if a.signed and b.signed:
                return CV("bool", {"<": a.t < b.t, ">": a.t > b.t, "<=": a.t <= b.t, ">=": a.t >= b.t}[op])
            return CV("bool", {"<": z3.ULT(a.t, b.t), ">": z3.UGT(a.t, b.t), "<=": z3.ULE(a.t, b.t), ">=": z3.UGE(a.t, b.t)}[op])
        raise ValueError("comparison operands")
    if k == "call" and e[1] == "isnan":
        x = cmp_eval(e[2][0], env)
        return CV("bool", z3.fpIsNaN(x.t) if x.kind == "fp" else z3.BoolVal(False))
    raise ValueError("comparator uses an untranslated construct: %s" % k)


def cmp_body(body, env):
    """straight-line body: local declarations with initialisers, then one return"""
    env = dict(env)
    for s in body:
        if s[0] == "decl" and s[3] is not None:
            v = cmp_eval(s[3], env)
            ty = cast.unconst(s[2])
            if ty in ("f64", "f32"):
                v = CV("fp", to_fp(v, z3.Float64() if ty == "f64" else z3.Float32()))
            env[s[1]] = v
        elif s[0] == "ret" and s[1][0] == "val":
            return cmp_eval(s[1][1], env).t
        elif s[0] == "if" and not s[3]:
            # `if (c) { return x; }` followed by the rest of the body
            c = cmp_eval(s[1], env).t
            rest = body[body.index(s) + 1:]
            return z3.If(c, cmp_body(s[2], env), cmp_body(rest, env))
        elif s[0] == "block":
            return cmp_body(s[1] + body[body.index(s) + 1:], env)
        else:
            raise ValueError("statement %s in comparator" % s[0])
    raise ValueError("comparator has no return")


def comparator_obligations():
    out = []
    for path, prefix in ((SORT, "sort_order"), (ARGSORT, "argsort_order")):
        r = cast.extract_file(path, filt=prefix, tolerant=True)
        for f in r["functions"]:
            if not f["name"].startswith(prefix) or f.get("body") is None or not f.get("targs"):
                continue
            ty = f["targs"][0]
            if ty in ("f64", "f32"):
                srt = z3.Float64() if ty == "f64" else z3.Float32()
                mk = lambda n, srt=srt: CV("fp", z3.FP(n, srt))
            elif ty in INTW:
                w, sg = INTW[ty]
                mk = lambda n, w=w, sg=sg: CV("bv", z3.BitVec(n, w), sg)
            else:
                continue     # bool specialisations are plain (non-template) functions
            pn = [p[0] for p in f["params"]]
            desc0 = "%s<%s> (%s:%s)" % (f["name"], ty, os.path.basename(path), f.get("line"))

            def cmp(x, y):
                return cmp_body(f["body"], {pn[0]: x, pn[1]: y})
            a, b, c = mk("a"), mk("b"), mk("c")
            try:
                props = {
                    "irreflexive": z3.Not(cmp(a, a)),
                    "asymmetric": z3.Implies(cmp(a, b), z3.Not(cmp(b, a))),
                    "transitive": z3.Implies(z3.And(cmp(a, b), cmp(b, c)), cmp(a, c)),
                    "incomparability transitive": z3.Implies(z3.And(z3.Not(cmp(a, b)), z3.Not(cmp(b, a)), z3.Not(cmp(b, c)), z3.Not(cmp(c, b))),
                                                             z3.And(z3.Not(cmp(a, c)), z3.Not(cmp(c, a)))),
                }
                asc = "ascending" in f["name"]
                if ty in ("f64", "f32"):
                    props["NaN sorts first"] = z3.Implies(z3.And(z3.fpIsNaN(a.t), z3.Not(z3.fpIsNaN(b.t))), z3.And(cmp(a, b), z3.Not(cmp(b, a))))
                    props["orders non-NaN values by < / >"] = z3.Implies(z3.And(z3.Not(z3.fpIsNaN(a.t)), z3.Not(z3.fpIsNaN(b.t))),
                                                                        cmp(a, b) == (z3.fpLT(a.t, b.t) if asc else z3.fpGT(a.t, b.t)))
                else:
                    w, sg = INTW[ty]
                    lt = (a.t < b.t) if sg else z3.ULT(a.t, b.t)
                    gt = (a.t > b.t) if sg else z3.UGT(a.t, b.t)
                    props["is exactly the integer order"] = cmp(a, b) == (lt if asc else gt)
            except ValueError as ex:
                out.append(("L.swo", "%s: %s" % (desc0, ex), "unknown", 0.0, None))
                continue
            for pname, claim in props.items():
                t0 = time.time()
                s = z3.Solver()
                s.set("timeout", 30000)
                s.add(z3.Not(claim))
                r_ = s.check()
                st = "proved" if r_ == z3.unsat else ("refuted" if r_ == z3.sat else "unknown")
                out.append(("L.swo", "%s: %s" % (desc0, pname), st, time.time() - t0, str(s.model())[:500] if r_ == z3.sat else None))
    return out


QUICK = [os.path.join(cast.REPO, "src", "cpu-kernels", "awkward_quick_sort.cpp"),
         os.path.join(cast.REPO, "src", "cpu-kernels", "awkward_quick_argsort.cpp")]


def small_promote(v):
    """C's integer promotion of a comparison operand narrower than int"""
    if v.kind == "bv" and v.t.size() < 32:
        return CV("bv", z3.SignExt(32 - v.t.size(), v.t) if v.signed else z3.ZeroExt(32 - v.t.size(), v.t), True)
    return v


def quick_predicate_obligations():
    """order_ascending<T> / order_descending<T> of the hand-written quicksort (the predicate handed to quick_sort /
    quick_argsort): bit-precise, loop-free, complete.  Each is the total preorder `NaN first, then <= / >=`:
    pred(l, r)  <=>  isnan(l) or (not isnan(r) and l <= r)   (>= for descending), which is total and transitive.
    binary_op<T>(l, r, f) must be exactly the indirect call (*f)(l, r) (syntactic)."""
    out = []
    for path in QUICK:
        base = os.path.basename(path)
        r = cast.extract_file(path, filt="order_", tolerant=True)
        seen = 0
        for f in r["functions"]:
            if f["name"] not in ("order_ascending", "order_descending") or f.get("body") is None or not f.get("targs"):
                continue
            ty = f["targs"][0]
            if ty in ("f64", "f32"):
                srt = z3.Float64() if ty == "f64" else z3.Float32()
                mk = lambda n, srt=srt: CV("fp", z3.FP(n, srt))
            elif ty in INTW:
                w, sg = INTW[ty]
                mk = lambda n, w=w, sg=sg: CV("bv", z3.BitVec(n, w), sg)
            elif ty == "bool":
                mk = lambda n: CV("bool", z3.Bool(n))
            else:
                continue
            seen += 1
            pn = [p[0] for p in f["params"]]
            desc0 = "%s<%s> (%s:%s)" % (f["name"], ty, base, f.get("line"))
            asc = "ascending" in f["name"]

            def cmp(x, y):
                return cmp_body(f["body"], {pn[0]: x, pn[1]: y})
            a, b, c = mk("a"), mk("b"), mk("c")
            try:
                if ty in ("f64", "f32"):
                    want = z3.Or(z3.fpIsNaN(a.t), z3.And(z3.Not(z3.fpIsNaN(b.t)), z3.fpLEQ(a.t, b.t) if asc else z3.fpGEQ(a.t, b.t)))
                elif ty == "bool":
                    x, y = z3.If(a.t, 1, 0), z3.If(b.t, 1, 0)
                    want = (x <= y) if asc else (x >= y)
                else:
                    w, sg = INTW[ty]
                    want = ((a.t <= b.t) if sg else z3.ULE(a.t, b.t)) if asc else ((a.t >= b.t) if sg else z3.UGE(a.t, b.t))
                props = {"is `NaN first, then %s`" % ("<=" if asc else ">="): cmp(a, b) == want,
                         "total": z3.Or(cmp(a, b), cmp(b, a)),
                         "transitive": z3.Implies(z3.And(cmp(a, b), cmp(b, c)), cmp(a, c))}
            except (ValueError, KeyError) as ex:
                out.append(("L.preorder", "%s: %s" % (desc0, ex), "unknown", 0.0, None))
                continue
            for pname, claim in props.items():
                t0 = time.time()
                s = z3.Solver()
                s.set("timeout", 30000)
                s.add(z3.Not(claim))
                r_ = s.check()
                st = "proved" if r_ == z3.unsat else ("refuted" if r_ == z3.sat else "unknown")
                out.append(("L.preorder", "%s: %s" % (desc0, pname), st, time.time() - t0, str(s.model())[:500] if r_ == z3.sat else None))
        if not seen:
            out.append(("L.preorder", "%s: no order_ascending/order_descending instantiation found" % base, "unknown", 0.0, None))
        r = cast.extract_file(path, filt="binary_op", tolerant=True)
        fs = [f for f in r["functions"] if f["name"] == "binary_op"]
        for f in fs:
            body = f.get("body") or []
            pn = [p[0] for p in f["params"]]
            ok = False
            if len(body) == 1 and body[0][0] == "ret" and body[0][1][0] == "val" and len(pn) == 3:
                e = body[0][1][1]
                if e[0] == "icall" and len(e[2]) == 2:
                    fe = e[1]
                    while fe[0] in ("ld", "cast") and fe[1][0] in ("v", "ld", "cast"):
                        fe = fe[1]
                    args = [x[1] if x[0] == "v" else None for x in e[2]]
                    ok = fe[0] == "v" and fe[1] == pn[2] and args == pn[:2]
            out.append(("B.binary_op", "binary_op<%s> (%s:%s) is exactly the call (*f)(left, right)" % (f["targs"][0] if f.get("targs") else "?", base, f.get("line")),
                        "proved" if ok else "refuted", 0.0, None if ok else repr(body)[:500]))
        if not fs:
            out.append(("B.binary_op", "%s: binary_op not found" % base, "unknown", 0.0, None))
    return out


# ---------------------------------------------------------------- bounded stand-ins
DT = {"bool": ("bool", [False, True]), "int8": ("int8_t", [-2, 0, 3]), "int16": ("int16_t", [-2, 0, 3]),
      "int32": ("int32_t", [-2, 0, 3]), "int64": ("int64_t", [-2, 2 ** 53, 2 ** 53 + 1]), "uint8": ("uint8_t", [0, 1, 3]),
      "uint16": ("uint16_t", [0, 1, 3]), "uint32": ("uint32_t", [0, 1, 3]), "uint64": ("uint64_t", [0, 2 ** 63, 2 ** 63 + 1]),
      "float32": ("float", [-1.5, 0.0, 2.0, float("nan")]), "float64": ("double", [-1.5, 0.0, 2.0, float("nan")])}


def key_asc(x):
    return (0, 0) if (isinstance(x, float) and math.isnan(x)) else (1, x)


def expected_sorted(vals, ascending):
    nans = [v for v in vals if isinstance(v, float) and math.isnan(v)]
    rest = sorted((v for v in vals if not (isinstance(v, float) and math.isnan(v))), reverse=not ascending)
    return nans + rest


def same(a, b):
    return (isinstance(a, float) and isinstance(b, float) and math.isnan(a) and math.isnan(b)) or a == b


def A(name, ctype, direction="in", const=True, depth=1):
    t = ctype
    for _ in range(depth):
        t = "List[%s]" % t
    if const and depth:
        t = "Const[%s]" % t
    return {"name": name, "type": t, "dir": direction}


def bounded_sorts(runner, maxlen, mismatches, stats):
    """awkward_sort_*, awkward_argsort_*, awkward_quick_sort_*, awkward_quick_argsort_*: every array of length <= maxlen
    over a 3/4-value alphabet (NaN included for floats), split into 1 or 2 segments, both directions, stable and not"""
    for dname, (ctype, alphabet) in DT.items():
        for n in range(0, maxlen + 1):
            for vals in itertools.product(alphabet, repeat=n):
                vals = list(vals)
                for cut in sorted({0, n // 2, n}):
                    offsets = sorted({0, cut, n})
                    if offsets[0] != 0:
                        offsets = [0] + offsets
                    for ascending in (True, False):
                        exp = []
                        for a_, b_ in zip(offsets[:-1], offsets[1:]):
                            exp += expected_sorted(vals[a_:b_], ascending)
                        for stable in (True, False):
                            stats["cases"] += 1
                            # ---- awkward_sort
                            args = [A("toptr", ctype, "out", False), A("fromptr", ctype), A("length", "int64_t", depth=0, const=False),
                                    A("offsets", "int64_t"), A("offsetslength", "int64_t", depth=0, const=False),
                                    A("parentslength", "int64_t", depth=0, const=False), A("ascending", "bool", depth=0, const=False),
                                    A("stable", "bool", depth=0, const=False)]
                            zero = False if ctype == "bool" else 0
                            inp = {"toptr": [zero] * n, "fromptr": vals, "length": n, "offsets": offsets, "offsetslength": len(offsets),
                                   "parentslength": n, "ascending": ascending, "stable": stable}
                            res = runner.call("awkward_sort_" + dname, args, inp)
                            got = res.get("arrays", {}).get("toptr")
                            if "crash" in res or "hang" in res or got is None or not all(same(x, y) for x, y in zip(got, exp)) or not res.get("guard_ok", True):
                                mismatches.append(("awkward_sort_" + dname, inp, "expected %r got %r" % (exp, res if got is None else got)))
                            # ---- awkward_argsort: positions local to each segment
                            args = [A("toptr", "int64_t", "out", False), A("fromptr", ctype), A("length", "int64_t", depth=0, const=False),
                                    A("offsets", "int64_t"), A("offsetslength", "int64_t", depth=0, const=False),
                                    A("ascending", "bool", depth=0, const=False), A("stable", "bool", depth=0, const=False)]
                            inp = {"toptr": [0] * n, "fromptr": vals, "length": n, "offsets": offsets, "offsetslength": len(offsets),
                                   "ascending": ascending, "stable": stable}
                            res = runner.call("awkward_argsort_" + dname, args, inp)
                            got = res.get("arrays", {}).get("toptr")
                            ok = got is not None and res.get("guard_ok", True) and "crash" not in res
                            if ok:
                                for a_, b_ in zip(offsets[:-1], offsets[1:]):
                                    seg = got[a_:b_]
                                    if sorted(seg) != list(range(b_ - a_)):
                                        ok = False
                                        break
                                    picked = [vals[a_ + p] for p in seg]
                                    if not all(same(x, y) for x, y in zip(picked, exp[a_:b_])):
                                        ok = False
                                        break
                                    if stable:
                                        # equal elements keep their original relative order
                                        for x in range(len(seg) - 1):
                                            if same(picked[x], picked[x + 1]) and seg[x] > seg[x + 1]:
                                                ok = False
                            if not ok:
                                mismatches.append(("awkward_argsort_" + dname, inp, "expected order %r got positions %r" % (exp, got if got is not None else res)))
                        # ---- quick_sort: in place over [fromstarts, fromstops) ranges (the stable=False path of sort_next)
                        stats["cases"] += 1
                        starts, stops = offsets[:-1], offsets[1:]
                        args = [A("tmpptr", ctype, "in", False), A("tmpbeg", "int64_t", "in", False), A("tmpend", "int64_t", "in", False),
                                A("fromstarts", "int64_t"), A("fromstops", "int64_t"), A("ascending", "bool", depth=0, const=False),
                                A("length", "int64_t", depth=0, const=False), A("maxlevels", "int64_t", depth=0, const=False)]
                        inp = {"tmpptr": vals, "tmpbeg": [0] * 48, "tmpend": [0] * 48, "fromstarts": starts, "fromstops": stops,
                               "ascending": ascending, "length": len(starts), "maxlevels": 48}
                        res = runner.call("awkward_quick_sort_" + dname, args, inp)
                        got = res.get("arrays", {}).get("tmpptr")
                        if "crash" in res or "hang" in res or got is None or res.get("err") or not all(same(x, y) for x, y in zip(got, exp)):
                            mismatches.append(("awkward_quick_sort_" + dname, inp, "expected %r got %r" % (exp, res if got is None else got)))
            if len(mismatches) > 40:
                return


def bounded_combinations(runner, maxsize, mismatches, stats):
    """awkward_ListArray{32,U32,64}_combinations_64 / awkward_RegularArray_combinations_64 / combinations_length:
    every list-size vector (<= 3 lists, sizes 0..maxsize), n 1..4, with/without replacement, contiguous and gapped starts,
    against itertools"""
    import random
    for n in (1, 2, 3, 4):
        for repl in (False, True):
            it = itertools.combinations_with_replacement if repl else itertools.combinations
            for nl in (0, 1, 2, 3):
                for sizes in itertools.product(range(0, maxsize + 1), repeat=nl):
                    for layout in ("contiguous", "gapped", "reversed"):
                        starts, stops, pos = [], [], 0
                        for s in sizes:
                            if layout == "gapped":
                                pos += 2
                            starts.append(pos)
                            stops.append(pos + s)
                            pos += s
                        if layout == "reversed":
                            starts, stops = starts[::-1], stops[::-1]
                        exp_cols = [[] for _ in range(n)]
                        exp_counts = []
                        for a_, b_ in zip(starts, stops):
                            tuples = list(it(range(a_, b_), n))
                            exp_counts.append(len(tuples))
                            for tp in tuples:
                                for k in range(n):
                                    exp_cols[k].append(tp[k])
                        total = sum(exp_counts)
                        for w, ct in (("32", "int32_t"), ("U32", "uint32_t"), ("64", "int64_t")):
                            stats["cases"] += 1
                            # length kernel
                            args = [A("totallen", "int64_t", "out", False), A("tooffsets", "int64_t", "out", False),
                                    A("n", "int64_t", depth=0, const=False), A("replacement", "bool", depth=0, const=False),
                                    A("starts", ct), A("stops", ct), A("length", "int64_t", depth=0, const=False)]
                            inp = {"totallen": [0], "tooffsets": [0] * (nl + 1), "n": n, "replacement": repl, "starts": starts,
                                   "stops": stops, "length": nl}
                            res = runner.call("awkward_ListArray%s_combinations_length_64" % w, args, inp)
                            offs = res.get("arrays", {}).get("tooffsets")
                            exp_offs = [0]
                            for c_ in exp_counts:
                                exp_offs.append(exp_offs[-1] + c_)
                            if offs != exp_offs or res["arrays"]["totallen"] != [total] or not res.get("guard_ok", True):
                                mismatches.append(("awkward_ListArray%s_combinations_length_64" % w, inp, "expected offsets %r total %d, got %r" % (exp_offs, total, res)))
                                continue
                            # fill kernel
                            args = [A("tocarry", "int64_t", "out", False, depth=2), A("toindex", "int64_t", "out", False),
                                    A("fromindex", "int64_t", "in", False), A("n", "int64_t", depth=0, const=False),
                                    A("replacement", "bool", depth=0, const=False), A("starts", ct), A("stops", ct),
                                    A("length", "int64_t", depth=0, const=False)]
                            inp = {"tocarry": [[-7] * total for _ in range(n)], "toindex": [0] * n, "fromindex": [0] * n, "n": n,
                                   "replacement": repl, "starts": starts, "stops": stops, "length": nl}
                            res = runner.call("awkward_ListArray%s_combinations_64" % w, args, inp)
                            got = res.get("arrays", {}).get("tocarry")
                            if "crash" in res or got != exp_cols or not res.get("guard_ok", True):
                                mismatches.append(("awkward_ListArray%s_combinations_64" % w, inp, "expected %r got %r" % (exp_cols, got if got is not None else res)))
                    if len(mismatches) > 40:
                        return
            # regular
            for size in range(0, maxsize + 1):
                for length in (0, 1, 2, 3):
                    stats["cases"] += 1
                    exp_cols = [[] for _ in range(n)]
                    for i in range(length):
                        for tp in it(range(i * size, (i + 1) * size), n):
                            for k in range(n):
                                exp_cols[k].append(tp[k])
                    total = len(exp_cols[0])
                    args = [A("tocarry", "int64_t", "out", False, depth=2), A("toindex", "int64_t", "out", False),
                            A("fromindex", "int64_t", "in", False), A("n", "int64_t", depth=0, const=False),
                            A("replacement", "bool", depth=0, const=False), A("size", "int64_t", depth=0, const=False),
                            A("length", "int64_t", depth=0, const=False)]
                    inp = {"tocarry": [[-7] * total for _ in range(n)], "toindex": [0] * n, "fromindex": [0] * n, "n": n,
                           "replacement": repl, "size": size, "length": length}
                    res = runner.call("awkward_RegularArray_combinations_64", args, inp)
                    got = res.get("arrays", {}).get("tocarry")
                    if "crash" in res or got != exp_cols or not res.get("guard_ok", True):
                        mismatches.append(("awkward_RegularArray_combinations_64", inp, "expected %r got %r" % (exp_cols, got if got is not None else res)))


def bounded_strings(runner, mismatches, stats):
    """awkward_NumpyArray_sort_asstrings_uint8 / awkward_ListOffsetArray_argsort_strings: all lists of <= 3 strings of
    <= 2 bytes over {a,b}, plus one family whose total length exceeds 255 bytes"""
    alphabet = [b"", b"a", b"b", b"ab", b"ba", b"aa"]
    families = []
    for k in range(0, 4):
        for ws in itertools.product(alphabet, repeat=k):
            families.append(list(ws))
    families.append([b"c" * 100, b"a" * 100, b"b" * 100])
    families.append([b"b" * 130, b"a" * 130])
    for ws in families:
        data = b"".join(ws)
        offsets = [0]
        for w in ws:
            offsets.append(offsets[-1] + len(w))
        for ascending in (True, False):
            for stable in (True, False):
                stats["cases"] += 1
                exp = sorted(ws, reverse=not ascending)
                args = [A("toptr", "uint8_t", "out", False), A("fromptr", "uint8_t"), A("offsets", "int64_t"),
                        A("offsetslength", "int64_t", depth=0, const=False), A("outoffsets", "int64_t", "out", False),
                        A("ascending", "bool", depth=0, const=False), A("stable", "bool", depth=0, const=False)]
                inp = {"toptr": [0] * len(data), "fromptr": list(data), "offsets": offsets, "offsetslength": len(offsets),
                       "outoffsets": [0] * len(offsets), "ascending": ascending, "stable": stable}
                res = runner.call("awkward_NumpyArray_sort_asstrings_uint8", args, inp)
                got = res.get("arrays", {})
                ok = "crash" not in res and res.get("guard_ok", True) and "toptr" in got
                if ok:
                    oo = got["outoffsets"]
                    words = [bytes(got["toptr"][oo[i]:oo[i + 1]]) for i in range(len(ws))] if len(oo) == len(offsets) else None
                    ok = words == exp
                if not ok:
                    mismatches.append(("awkward_NumpyArray_sort_asstrings_uint8", {k: (v if k != "fromptr" else bytes(v).decode()) for k, v in inp.items() if k != "toptr"},
                                       "expected %r got %r" % (exp, res if "toptr" not in got else [bytes(got["toptr"][got["outoffsets"][i]:got["outoffsets"][i + 1]]) for i in range(len(ws))])))
                # argsort_strings (one parent group holding all strings)
                args = [A("tocarry", "int64_t", "out", False), A("fromparents", "int64_t"), A("length", "int64_t", depth=0, const=False),
                        A("stringdata", "uint8_t"), A("stringstarts", "int64_t"), A("stringstops", "int64_t"),
                        A("is_stable", "bool", depth=0, const=False), A("is_ascending", "bool", depth=0, const=False),
                        A("is_local", "bool", depth=0, const=False)]
                inp = {"tocarry": [0] * len(ws), "fromparents": [0] * len(ws), "length": len(ws), "stringdata": list(data),
                       "stringstarts": offsets[:-1], "stringstops": offsets[1:], "is_stable": stable, "is_ascending": ascending, "is_local": True}
                res = runner.call("awkward_ListOffsetArray_argsort_strings", args, inp)
                got = res.get("arrays", {}).get("tocarry")
                ok = got is not None and "crash" not in res and sorted(got) == list(range(len(ws))) and [ws[p] for p in got] == exp
                if ok and stable:
                    for x in range(len(got) - 1):
                        if ws[got[x]] == ws[got[x + 1]] and got[x] > got[x + 1]:
                            ok = False
                if not ok:
                    mismatches.append(("awkward_ListOffsetArray_argsort_strings", {"words": [w.decode() for w in ws], "ascending": ascending, "stable": stable},
                                       "expected order %r got positions %r" % (exp, got if got is not None else res)))


def engine(pid, tier, seed, known, which=("sorts", "strings")):
    t0 = time.time()
    out = {"obligations": [], "functions": {}, "errors": [], "notes": [], "bounded": [], "coverage": {}, "replay": {}}
    if "sorts" in which:
        n = 0
        for kind, desc, st, dt, model in comparator_obligations():
            oid = "comparators:%s#%d" % (kind, n)
            out["obligations"].append({"id": oid, "unit": "comparators", "kind": kind, "label": "lemma", "line": None, "desc": desc,
                                       "status": st, "time": round(dt, 3), "backend": "z3-fp", "model": model, "auto": False})
            n += 1
        out["functions"]["sort_order_*/argsort_order_* comparators"] = {"obligations": n}
        m = 0
        for kind, desc, st, dt, model in quick_predicate_obligations():
            oid = "quick_predicates:%s#%d" % (kind, m)
            out["obligations"].append({"id": oid, "unit": "quick_predicates", "kind": kind, "label": "lemma", "line": None, "desc": desc,
                                       "status": st, "time": round(dt, 3), "backend": "z3-fp" if kind.startswith("L.") else "syntactic",
                                       "model": model, "auto": False})
            m += 1
        out["functions"]["order_ascending/order_descending predicates and binary_op of the hand-written quicksort"] = {"obligations": m}
        if n == 0:
            out["errors"].append("no comparator instantiation found in awkward_sort.cpp / awkward_argsort.cpp")
    so = native.build_kernels()
    runner = native.KernelRunner(so)
    try:
        groups = []
        if "sorts" in which:
            groups.append(("sort/argsort/quick_sort kernels", bounded_sorts, 4 if tier == "quick" else 6,
                           "all arrays of length <= %d over a 3-value alphabet (+NaN for floats), 1-2 segments, both directions, stable and unstable, 11 dtypes"))
        if "strings" in which:
            groups.append(("string sorting kernels", lambda r, m, mm, s: bounded_strings(r, mm, s), 0,
                           "all lists of <= 3 strings over {'', a, b, ab, ba, aa} plus two families longer than 255 bytes%s"))
        if "combinations" in which:
            groups.append(("combinations kernels", bounded_combinations, 4 if tier == "quick" else 6,
                           "all size vectors of <= 3 lists with sizes 0..%d, n in 1..4, with/without replacement, contiguous/gapped/reversed starts, 3 index widths; regular sizes 0..max"))
        for title, fn, bound, text in groups:
            mism, stats = [], {"cases": 0}
            fn(runner, bound, mism, stats)
            out["bounded"].append({"function": title, "bound": text % bound if "%" in text else text, "cases": stats["cases"], "mismatch": bool(mism)})
            seen = set()
            for sym_, inp, why in mism:
                if sym_ in seen:
                    continue
                seen.add(sym_)
                oid = "bounded:%s" % sym_
                out["obligations"].append({"id": oid, "unit": sym_, "kind": "B.bounded", "label": "bounded", "line": None,
                                           "desc": "bounded stand-in: %s agrees with its oracle on the stated domain" % sym_,
                                           "status": "refuted", "time": 0.0, "backend": "native", "model": why[:1500], "auto": False})
                out["replay"][oid] = {"input": inp, "symbol": sym_, "why": why[:1500]}
    finally:
        runner.close()
    out["coverage"]["bounded_wall_s"] = round(time.time() - t0, 1)
    return out
