"""kernel-specification.yml Python definitions -> the same IR the C side uses.

Types on this side are 'py' (unbounded integers / dynamic); the evaluator gives
these nodes CPython semantics (floor division, true division, unbounded ints,
chained comparisons already expanded here).
"""
import ast, hashlib, json, os, subprocess

from . import cast

PY = "py"


class PyUnsupported(Exception):
    pass


def load_spec():
    """kernel-specification.yml as a dict (converted with /venv/bin/python, which has PyYAML)"""
    src = os.path.join(cast.REPO, "kernel-specification.yml")
    h = hashlib.sha1(open(src, "rb").read()).hexdigest()
    out = os.path.join(cast.CACHE, "spec", h + ".json")
    if not os.path.exists(out):
        os.makedirs(os.path.dirname(out), exist_ok=True)
        tmp = out + ".%d.tmp" % os.getpid()
        helper = os.path.join(os.path.dirname(os.path.abspath(__file__)), "yaml2json.py")
        subprocess.run(["/venv/bin/python", helper, src, tmp], check=True)
        os.replace(tmp, out)
    return json.load(open(out))


_BIN = {ast.Add: "+", ast.Sub: "-", ast.Mult: "*", ast.FloorDiv: "//", ast.Div: "/",
        ast.Mod: "%", ast.BitAnd: "&", ast.BitOr: "|", ast.BitXor: "^",
        ast.LShift: "<<", ast.RShift: ">>", ast.Pow: "**"}
_CMP = {ast.Lt: "<", ast.LtE: "<=", ast.Gt: ">", ast.GtE: ">=", ast.Eq: "==", ast.NotEq: "!="}


class PyConv:
    def __init__(self):
        pass

    def func(self, src):
        t = ast.parse(src)
        fd = [n for n in t.body if isinstance(n, ast.FunctionDef)]
        if len(fd) != 1:
            raise PyUnsupported("expected one def")
        fd = fd[0]
        params = [a.arg for a in fd.args.args]
        return {"name": fd.name, "params": params, "body": self.block(fd.body)}

    def block(self, stmts):
        out = []
        for s in stmts:
            out.extend(self.stmt(s))
        return out

    def stmt(self, s):
        ln = getattr(s, "lineno", None)
        if isinstance(s, ast.Pass):
            return []
        if isinstance(s, ast.Assign):
            if len(s.targets) != 1:
                raise PyUnsupported("multi-target assign")
            return [["expr", ["asg", self.lvalue(s.targets[0]), self.expr(s.value), PY], ln]]
        if isinstance(s, ast.AugAssign):
            op = _BIN[type(s.op)]
            return [["expr", ["casg", op, self.lvalue(s.target), self.expr(s.value), PY, PY], ln]]
        if isinstance(s, ast.If):
            return [["if", self.expr(s.test), self.block(s.body), self.block(s.orelse), ln]]
        if isinstance(s, ast.While):
            if s.orelse:
                raise PyUnsupported("while-else")
            return [["while", self.expr(s.test), self.block(s.body), ln]]
        if isinstance(s, ast.For):
            if s.orelse:
                raise PyUnsupported("for-else")
            if not (isinstance(s.iter, ast.Call) and isinstance(s.iter.func, ast.Name)
                    and s.iter.func.id == "range"):
                raise PyUnsupported("for over non-range: %s" % ast.unparse(s.iter))
            if not isinstance(s.target, ast.Name):
                raise PyUnsupported("for target")
            a = [self.expr(x) for x in s.iter.args]
            if len(a) == 1:
                lo, hi, st = ["c", 0, PY], a[0], ["c", 1, PY]
            elif len(a) == 2:
                lo, hi, st = a[0], a[1], ["c", 1, PY]
            else:
                lo, hi, st = a
            return [["pyfor", s.target.id, lo, hi, st, self.block(s.body), ln]]
        if isinstance(s, ast.Raise):
            msg = "?"
            if isinstance(s.exc, ast.Call) and s.exc.args and isinstance(s.exc.args[0], ast.Constant):
                msg = s.exc.args[0].value
            return [["ret", ["failure", msg, None, None], ln]]
        if isinstance(s, ast.Return):
            if s.value is None:
                return [["ret", ["success"], ln]]
            return [["ret", ["val", self.expr(s.value)], ln]]
        if isinstance(s, ast.Break):
            return [["break", ln]]
        if isinstance(s, ast.Continue):
            return [["continue", ln]]
        if isinstance(s, ast.Expr):
            if isinstance(s.value, ast.Constant):
                return []
            return [["expr", self.expr(s.value), ln]]
        raise PyUnsupported("stmt %s" % type(s).__name__)

    def lvalue(self, t):
        if isinstance(t, ast.Name):
            return ["v", t.id, PY]
        if isinstance(t, ast.Subscript):
            return ["ld", self.expr(t.value), self.expr(t.slice), PY]
        raise PyUnsupported("lvalue %s" % type(t).__name__)

    def expr(self, e):
        if isinstance(e, ast.Constant):
            v = e.value
            if v is True:
                return ["c", 1, "bool"]
            if v is False:
                return ["c", 0, "bool"]
            if isinstance(v, int):
                return ["c", v, PY]
            if isinstance(v, float):
                return ["c", v, "pyf"]
            raise PyUnsupported("constant %r" % (v,))
        if isinstance(e, ast.Name):
            return ["v", e.id, PY]
        if isinstance(e, ast.Subscript):
            return ["ld", self.expr(e.value), self.expr(e.slice), PY]
        if isinstance(e, ast.BinOp):
            return ["bin", _BIN[type(e.op)], self.expr(e.left), self.expr(e.right), PY]
        if isinstance(e, ast.UnaryOp):
            if isinstance(e.op, ast.USub):
                return ["un", "-", self.expr(e.operand), PY]
            if isinstance(e.op, ast.Not):
                return ["un", "!", self.expr(e.operand), "bool"]
            if isinstance(e.op, ast.UAdd):
                return self.expr(e.operand)
            if isinstance(e.op, ast.Invert):
                return ["un", "~", self.expr(e.operand), PY]
        if isinstance(e, ast.BoolOp):
            op = "&&" if isinstance(e.op, ast.And) else "||"
            vals = [self.expr(x) for x in e.values]
            r = vals[0]
            for x in vals[1:]:
                r = ["bin", op, r, x, "bool"]
            return r
        if isinstance(e, ast.Compare):
            parts = []
            left = self.expr(e.left)
            for op, rhs in zip(e.ops, e.comparators):
                r = self.expr(rhs)
                if type(op) not in _CMP:
                    raise PyUnsupported("cmp %s" % type(op).__name__)
                parts.append(["bin", _CMP[type(op)], left, r, "bool"])
                left = r
            r = parts[0]
            for x in parts[1:]:
                r = ["bin", "&&", r, x, "bool"]
            return r
        if isinstance(e, ast.IfExp):
            return ["cond", self.expr(e.test), self.expr(e.body), self.expr(e.orelse), PY]
        if isinstance(e, ast.Call):
            if isinstance(e.func, ast.Name):
                fn = e.func.id
                args = [self.expr(a) for a in e.args]
                if fn in ("int", "float", "uint8", "bool") and len(args) == 1:
                    return ["cast", args[0], {"int": PY, "float": "pyf", "uint8": "pyu8", "bool": "bool"}[fn], "py"]
                return ["call", fn, args, PY]
            raise PyUnsupported("call %s" % ast.unparse(e.func))
        raise PyUnsupported("expr %s" % type(e).__name__)


def definition_ir(kernel):
    """kernel: one entry of spec['kernels']; returns (ir or None, reason)"""
    df = kernel.get("definition")
    if not df or not df.strip():
        return None, "spec_absent: empty definition"
    if "Insert Python definition" in df:
        return None, "spec_absent: placeholder definition"
    try:
        return PyConv().func(df), None
    except SyntaxError as e:
        return None, "spec_unusable: syntax error %s" % e
    except PyUnsupported as e:
        return None, "spec_unusable: %s" % e
