"""Index of the CPU kernels of the working tree: every extern "C" symbol, the
function body that implements it (the symbol itself or the template
instantiation its wrapper forwards to), and the kernel-specification.yml entry."""
import glob, os
from concurrent.futures import ProcessPoolExecutor

from . import cast, pyspec

KDIR = os.path.join(cast.REPO, "src", "cpu-kernels")


# files whose kernels call helper templates that do not carry the `awkward_` prefix: the AST filter is widened so
# that the helpers (and, as before, every awkward_* function of the file) are extracted in ONE clang run
FILTERS = {"awkward_quick_sort.cpp": "quick_sort", "awkward_quick_argsort.cpp": "quick_argsort",
           "awkward_sort.cpp": "sort", "awkward_argsort.cpp": "argsort"}
# files read in tolerant mode (std::vector / iterator / lambda code: a construct the converter does not know becomes an
# explicit `unsupported` node that the evaluator refuses, instead of making the whole function untranslatable)
TOLERANT = {"awkward_sort.cpp", "awkward_argsort.cpp", "awkward_ListOffsetArray_local_preparenext_64.cpp"}
# helpers extracted by a second run and indexed by name only (never by AST id)
HELPERS = {"awkward_quick_sort.cpp": ["binary_op"], "awkward_quick_argsort.cpp": ["binary_op"]}


def _extract(path):
    try:
        base = os.path.basename(path)
        r = cast.extract_file(path, filt=FILTERS.get(base, "awkward_"), tolerant=base in TOLERANT)
        for h in HELPERS.get(base, ()):
            r2 = cast.extract_file(path, filt=h, tolerant=True)
            for f in r2["functions"]:
                if f["name"] == h:
                    f = dict(f)
                    f["id"] = None
                    f["helper"] = True
                    r["functions"].append(f)
        return r
    except Exception as ex:   # never let one file kill the run
        return {"functions": [], "errors": "extract crashed: %r" % (ex,), "file": os.path.relpath(path, cast.REPO)}


def load_all(jobs=16, files=None):
    files = files or sorted(glob.glob(os.path.join(KDIR, "*.cpp")))
    if jobs > 1:
        with ProcessPoolExecutor(jobs) as ex:
            res = list(ex.map(_extract, files))
    else:
        res = [_extract(f) for f in files]
    return res


class KernelIndex:
    def __init__(self, jobs=16):
        self.files = load_all(jobs)
        self.by_id = {}
        self.by_name = {}
        for r in self.files:
            for f in r["functions"]:
                if f.get("id"):
                    self.by_id[(r["file"], f["id"])] = f
                self.by_name.setdefault(f["name"], []).append(f)
        self.spec = pyspec.load_spec()
        self.consts = cast.global_constants()
        self.symbols = {}       # specialization name -> info
        self.problems = []
        for k in self.spec["kernels"]:
            for s in k["specializations"]:
                self.symbols[s["name"]] = self._resolve(k, s)

    def _resolve(self, k, s):
        name = s["name"]
        info = {"kernel": k["name"], "symbol": name, "args": s["args"], "impl": None, "wrapper": None,
                "forward_ok": None, "problem": None}
        cands = [f for f in self.by_name.get(name, []) if f["template"] is None]
        if not cands:
            info["problem"] = "symbol has no definition in src/cpu-kernels"
            return info
        w = cands[0]
        info["file"] = w["file"]
        body = w["body"]
        if body is None:
            info["impl"] = w
            info["problem"] = "unsupported: %s" % w.get("unsupported")
            return info
        if len(body) == 1 and body[0][0] == "ret" and body[0][1][0] == "fwd":
            _, callee, cid, args = body[0][1]
            impl = self.by_id.get((w["file"], cid))
            info["wrapper"] = w
            if impl is None:
                info["problem"] = "wrapper forwards to %s which has no body here" % callee
                return info
            info["impl"] = impl
            # forwarding check: parameters unchanged and in order
            pn = [p[0] for p in w["params"]]
            ok = len(args) == len(pn) == len(impl["params"])
            if ok:
                for a, n in zip(args, pn):
                    x = a
                    while x[0] == "cast":
                        x = x[1]
                    if x[0] != "v" or x[1] != n:
                        ok = False
            info["forward_ok"] = ok
            info["forward_args"] = args
        else:
            info["impl"] = w
        return info

    def kernel(self, name):
        for k in self.spec["kernels"]:
            if k["name"] == name:
                return k
        return None
