"""Per-property check driver for the kernel engine (S, F, E obligations, lemmas),
with vacuity guards, replay of refutations on the compiled kernels, known
findings, evidence."""
import collections, json, os, random, re, subprocess, sys, tempfile, time, traceback
from concurrent.futures import ProcessPoolExecutor

import z3

from . import cast, kernels, vcgen, lockstep, pyspec, contracts as contracts_mod, sym, spec, native, difftest

VERIF = cast.VERIF
KI = None
REG = None
EXEMPT = None
Z3_TIMEOUT = 10000
CVC5_TIMEOUT = 60


def load_exempt():
    p = os.path.join(VERIF, "contracts", "e_exempt.json")
    return json.load(open(p)) if os.path.exists(p) else {}


def cvc5_solve(smt2, timeout=CVC5_TIMEOUT):
    with tempfile.NamedTemporaryFile("w", suffix=".smt2", delete=False, dir=os.path.join(VERIF, ".cache")) as f:
        f.write("(set-logic ALL)\n" + smt2)
        path = f.name
    try:
        p = subprocess.run(["/usr/bin/cvc5", "--tlimit=%d" % (timeout * 1000), path],
                           stdout=subprocess.PIPE, stderr=subprocess.PIPE, timeout=timeout + 10)
        out = p.stdout.decode().strip().splitlines()
        return out[0].strip() if out else "unknown"
    except Exception:
        return "unknown"
    finally:
        try:
            os.remove(path)
        except OSError:
            pass


def discharge(ob, z3_ms=None):
    st = vcgen.solve(ob, z3_ms or Z3_TIMEOUT)
    if st == "unknown":
        r = cvc5_solve(ob.meta.get("smt2", ""), 20 if z3_ms else CVC5_TIMEOUT)

        if r == "unsat":
            ob.status, ob.backend = "proved", "cvc5"
        elif r == "sat":
            ob.status, ob.backend = "refuted", "cvc5"
        else:
            # neither solver answered inside its budget: one more attempt with three times the budget, so that a
            # machine busy with other work does not turn a millisecond query into `undecided`
            vcgen.solve(ob, 3 * Z3_TIMEOUT)
    return ob.status


def model_text(ob, limit=4000):
    if ob.model is None:
        return None
    try:
        items = []
        for d in ob.model.decls():
            items.append("%s = %s" % (d.name(), ob.model[d]))
        return "\n".join(sorted(items))[:limit]
    except Exception:
        return str(ob.model)[:limit]


def model_input(ob, args):
    """the solver's counter-model read back as a concrete argument tuple of the kernel (scalars and the
    first IN_SIZE elements of every input array as they are on entry).  A counter-model of an obligation inside
    a loop describes an arbitrary iteration, so this is only a *candidate*: it counts as a failing input if the
    compiled kernel and the definition really disagree on it."""
    m = ob.model
    if m is None or not args:
        return None
    try:
        # prefer a counter-model whose scalar arguments are small enough for the replay buffers
        s = z3.Solver()
        s.set("timeout", 3000)
        for h in ob.hyps:
            s.add(h)
        s.add(z3.Not(ob.claim))
        for a in args:
            depth, base = native.parse_type(a["type"])
            if depth == 0 and base not in ("bool", "float", "double"):
                s.add(z3.Int(a["name"]) >= -difftest.IN_SIZE, z3.Int(a["name"]) <= difftest.IN_SIZE)
        if s.check() == z3.sat:
            m = s.model()
        decls = {d.name(): d for d in m.decls()}

        def num(x, base):
            if z3.is_int_value(x):
                v = x.as_long()
            elif z3.is_true(x):
                v = 1
            elif z3.is_false(x):
                v = 0
            else:
                v = 0
            if base == "bool":
                return bool(v)
            if base in ("float", "double"):
                return float(v)
            return v
        vals = {}
        for a in args:
            depth, base = native.parse_type(a["type"])
            d = decls.get(a["name"])
            if depth == 0:
                vals[a["name"]] = num(m[d], base) if d is not None and d.arity() == 0 else num(None, base)
            elif depth == 1:
                if a["dir"] == "out":
                    vals[a["name"]] = None
                    continue
                row = []
                for i in range(difftest.IN_SIZE):
                    if d is not None and d.arity() == 0 and z3.is_array(d()):
                        row.append(num(m.eval(z3.Select(d(), z3.IntVal(i)), model_completion=True), base))
                    else:
                        row.append(num(None, base))
                vals[a["name"]] = row
            else:
                return None
        return vals
    except Exception:
        return None


def ob_record(symbol, n, ob, args=None):
    return {"id": "%s:%s@%s:%s#%d" % (symbol, ob.kind, ob.label, ob.line, n), "kind": ob.kind, "label": ob.label,
            "line": ob.line, "desc": ob.desc, "status": ob.status, "time": round(ob.time, 4),
            "backend": ob.backend, "model": model_text(ob) if ob.status == "refuted" else None,
            "model_input": model_input(ob, args) if ob.status == "refuted" else None,
            "auto": bool(ob.meta.get("auto"))}


def signature_obligations(info):
    """YAML args <-> C parameters of the extern "C" symbol (names, order, element types, constness)"""
    out = []
    w = info.get("wrapper") or info.get("impl")
    if w is None:
        return [("SIG", "symbol has a definition in src/cpu-kernels", False, info.get("problem"))]
    tymap = {"bool": "bool", "int8_t": "i8", "uint8_t": "u8", "int16_t": "i16", "uint16_t": "u16", "int32_t": "i32",
             "uint32_t": "u32", "int64_t": "i64", "uint64_t": "u64", "float": "f32", "double": "f64"}
    cpar = w["params"]
    args = info["args"]
    out.append(("SIG.arity", "specification lists %d args, symbol has %d parameters" % (len(args), len(cpar)),
                len(args) == len(cpar), None))
    for a, (pn, pt) in zip(args, cpar):
        depth, base = native.parse_type(a["type"])
        exp = tymap.get(base, "?")
        const = a["type"].startswith("Const[")
        t = pt
        d = 0
        while t.startswith("p:"):
            t = t[2:]
            d += 1
        isconst = t.startswith("c:")
        t = cast.unconst(t)
        ok = (pn == a["name"]) and d == depth and t == exp
        out.append(("SIG.param", "arg %s: %s matches parameter %s: %s" % (a["name"], a["type"], pn, pt), ok, None))
        if depth >= 1 and a["dir"] == "in" and const:
            out.append(("SIG.const", "input array %s is const in the C signature" % pn, isconst, None))
    if info.get("wrapper") is not None:
        out.append(("FWD", "wrapper forwards its parameters unchanged and in order to %s" % info["impl"]["name"],
                    bool(info.get("forward_ok")), None))
        wp = [unq(t) for _, t in info["wrapper"]["params"]]
        ip = [unq(t) for _, t in info["impl"]["params"]]
        out.append(("FWD.types", "wrapper and instantiation parameter types agree", wp == ip, "%s vs %s" % (wp, ip)))
    return out


def unq(t):
    return t.replace("c:", "")


CALLEES = ["awkward_regularize_rangeslice", "quick_sort", "quick_argsort", "binary_op",
           "sort_order_ascending", "sort_order_descending", "argsort_order_ascending", "argsort_order_descending"]


def callee_contracts():
    out = {}
    for name in CALLEES:
        fs = [f for f in KI.by_name.get(name, []) if f.get("body") is not None]
        if fs:
            out[name] = (REG.contract_for(fs[0]), fs[0])
    return out


def run_function(task):
    """a function of src/cpu-kernels that is not a kernel-specification.yml symbol (helpers in kernel-utils.cpp)"""
    name, opts = task
    which = opts.get("which", 0)
    t0 = time.time()
    res = {"symbol": name, "kernel": name, "obligations": [], "errors": [], "notes": [], "e": None, "impl": name,
           "contract": None, "unit_ok": True}
    try:
        fs = [f for f in KI.by_name.get(name, []) if f.get("body") is not None]
        if not fs:
            res["errors"].append("function %s not found in src/cpu-kernels" % name)
            return res
        f = fs[which]
        if len(fs) > 1:
            name = "%s<%s>" % (name, ",".join(str(t) for t in f.get("targs", [])[:1]))
            res["symbol"] = name
        c = REG.contract_for(f)
        res["contract"] = c.source
        u, iters = vcgen.houdini(lambda act: vcgen.Unit(f, c, KI.consts, callee_contracts(), act), timeout_ms=3000)
        if u.errors:
            res["notes"].append("S/F: " + "; ".join(u.errors))
            res["unit_ok"] = False
            res["errors"].append("%s is outside the translator: %s" % (name, "; ".join(u.errors)))
        else:
            s = z3.Solver()
            for h in u.init.pc:
                s.add(h)
            if s.check() == z3.unsat:
                res["errors"].append("vacuous: precondition of %s is contradictory" % name)
            n = 0
            for ob in u.ev.obls:
                if ob.status is None:
                    discharge(ob)
                if ob.meta.get("auto"):
                    continue
                res["obligations"].append(ob_record(name, n, ob))
                n += 1
    except Exception:
        res["errors"].append("crash: " + traceback.format_exc()[-1500:])
    res["time"] = time.time() - t0
    return res


def run_symbol(task):
    symbol, opts = task
    t0 = time.time()
    res = {"symbol": symbol, "obligations": [], "errors": [], "notes": [], "e": None, "impl": None,
           "contract": None, "unit_ok": True}
    try:
        info = KI.symbols[symbol]
        res["kernel"] = info["kernel"]
        n = 0
        if "SIG" in opts["kinds"]:
            for kind, desc, ok, extra in signature_obligations(info):
                res["obligations"].append({"id": "%s:%s#%d" % (symbol, kind, n), "kind": kind, "label": "sig", "line": None,
                                           "desc": desc, "status": "proved" if ok else "refuted", "time": 0.0,
                                           "backend": "syntactic", "model": extra if not ok else None, "auto": False})
                n += 1
        f = info["impl"]
        if f is None or f.get("body") is None:
            res["notes"].append("outside the translator: %s" % (info.get("problem") or (f or {}).get("unsupported")))
            res["unit_ok"] = False
            res["time"] = time.time() - t0
            return res
        res["impl"] = f["name"]
        c = REG.contract_for(f, symbol)
        res["contract"] = c.source
        res["extents"] = sorted(c.extents)
        # ---- S / F
        u, iters = vcgen.houdini(lambda act: vcgen.Unit(f, c, KI.consts, callee_contracts(), act), timeout_ms=3000)
        if u.errors:
            res["notes"].append("S/F: " + "; ".join(u.errors))
            res["unit_ok"] = False
            active = {}
        else:
            active = u.active
            # vacuity guards
            s = z3.Solver()
            s.set("timeout", 5000)
            for h in u.init.pc:
                s.add(h)
            r = s.check()
            if r == z3.unsat:
                res["errors"].append("vacuous: precondition of %s is contradictory" % f["name"])
            reach = False
            for kind, st in u.ret_states:
                s = z3.Solver()
                s.set("timeout", 5000)
                for h in st.pc:
                    s.add(h)
                if s.check() != z3.unsat:
                    reach = True
                    break
            if u.ret_states and not reach:
                res["errors"].append("vacuous: no return of %s is reachable under its contract" % f["name"])
            n_unknown = 0
            if getattr(c, "z3_budget_ms", None):
                # first a quick pass over every obligation (most are decided at once, refutable ones included), so that
                # the early stop below never hides an obligation that can be decided
                for ob in u.ev.obls:
                    if ob.status is None and not (ob.kind.startswith("S.") and "S" not in opts["kinds"]):
                        if vcgen.solve(ob, 1500) == "unknown":
                            ob.status = None
            for ob in u.ev.obls:
                if ob.kind.startswith("S.") and "S" not in opts["kinds"]:
                    continue
                if ob.status is None and n_unknown >= 3 and not ob.meta.get("auto"):
                    # the unit is already undecided: the remaining obligations are not attempted (an edit that breaks
                    # a quantified contract makes most of them time out, which would take minutes per unit)
                    ob.status, ob.backend, ob.time = "unknown", "skipped", 0.0
                if ob.status is None:
                    discharge(ob, getattr(c, "z3_budget_ms", None))
                    if ob.status == "unknown" and not ob.meta.get("auto"):
                        n_unknown += 1
                if ob.meta.get("auto"):
                    continue      # inferred invariants: proved by construction (Houdini), not counted
                res["obligations"].append(ob_record(symbol, n, ob, info["args"]))
                n += 1
        # ---- E
        if "E" in opts["kinds"]:
            k = KI.kernel(info["kernel"])
            pir, why = pyspec.definition_ir(k)
            if pir is None:
                res["e"] = why
            elif info["kernel"] in EXEMPT:
                res["e"] = "exempt: " + EXEMPT[info["kernel"]]
            else:
                L = lockstep.Lockstep(f, pir, c, KI.consts, {}, active)
                L.run()
                if L.errors:
                    res["e"] = "error: " + "; ".join(L.errors)
                elif L.unaligned:
                    res["e"] = "unaligned: " + L.unaligned
                else:
                    res["e"] = "aligned"
                    for ob in L.ev.obls:
                        discharge(ob)
                        res["obligations"].append(ob_record(symbol, n, ob, info["args"]))
                        n += 1
    except Exception:
        res["errors"].append("crash: " + traceback.format_exc()[-1500:])
    res["time"] = time.time() - t0
    return res


def init(jobs=16):
    global KI, REG, EXEMPT
    if KI is None:
        KI = kernels.KernelIndex(jobs)
        REG = contracts_mod.Registry()
        EXEMPT = load_exempt()
    return KI


def run_symbols(symbols, kinds, jobs=16, functions=()):
    init(jobs)
    tasks = [(s, {"kinds": kinds}) for s in symbols]
    out = []
    with ProcessPoolExecutor(jobs) as ex:
        for r in ex.map(run_symbol, tasks, chunksize=2):
            out.append(r)
        ftasks = []
        for f in functions:
            n = len([x for x in KI.by_name.get(f, []) if x.get("body") is not None])
            for k in range(max(1, n)):     # every instantiation of a helper template is its own unit
                ftasks.append((f, {"kinds": kinds, "which": k}))
        for r in ex.map(run_function, ftasks):
            out.append(r)
    return out


# --------------------------------------------------------------------------
# replay
def find_witness(symbol, seed, want=600, runner=None, candidates=()):
    """bounded differential search for a concrete input on which the compiled kernel of the
    working tree disagrees with its definition; returns (mismatch dict|None, cases, reason)"""
    init()
    info = KI.symbols[symbol]
    k = KI.kernel(info["kernel"])
    df = k.get("definition")
    if not df or "Insert Python definition" in df:
        return None, 0, "no executable definition"
    try:
        fn = difftest.compile_definition(df, k["name"])
    except Exception as ex:
        return None, 0, "definition does not compile: %s" % ex
    own = runner is None
    if own:
        runner = native.KernelRunner(native.build_kernels())
    try:
        rng = random.Random(seed)
        r = difftest.difftest(runner, symbol, info["args"], fn, rng, want=want, max_tries=want * 30,
                              fixed_cases=[c for c in candidates if c])
    finally:
        if own:
            runner.close()
    return r["mismatch"], r["cases"], None
