"""Contract expressions: Python-syntax strings evaluated to z3 terms over a symbolic State.

  names            scalar variables / parameters of the function (current state)
  a[i]             array element (mathematical integer; bool arrays are 0/1)
  old(e)           e in the function's initial state
  entry(e)         e in the state at entry of the loop the invariant belongs to
  feq(a, b)        C's == on floating-point values (a < b etc. on floats are C's ordered comparisons)
  forall(j, lo, hi, body) / exists(j, lo, hi, body)     lo <= j < hi
  implies(a, b), ite(c, a, b), min(a, b), max(a, b), abs(a)
  a // b, a % b    floor division / modulo (Python semantics)
  cdiv(a,b), cmod(a,b)   C truncating division / remainder
  ghost functions  declared in the contract (uninterpreted + axioms, or defined)
  result           the returned value (functions returning a scalar)
"""
import ast
import z3

from . import sym

I = z3.IntSort()


class SpecError(Exception):
    pass


_parse_cache = {}


def parse(src):
    if src not in _parse_cache:
        _parse_cache[src] = ast.parse(src.strip(), mode="eval").body
    return _parse_cache[src]


class Ghosts:
    """ghost functions of one contract"""

    def __init__(self):
        self.funcs = {}    # name -> (params, body_src or None, z3 func or None)
        self.axioms = []   # list of (src)  -- closed formulas over ghost functions and parameters

    def declare(self, name, params, body=None):
        self.funcs[name] = (params, body)


class SpecEval:
    def __init__(self, ghosts=None, consts=None):
        self.ghosts = ghosts or Ghosts()
        self.consts = consts or {}
        self.depth = 0

    def term(self, src, st, init=None, entry=None, bound=None, result=None):
        node = parse(src) if isinstance(src, str) else src
        env = {"st": st, "init": init, "entry": entry, "bound": dict(bound or {}), "result": result}
        return self.ev(node, env)

    def boolean(self, src, st, **kw):
        t = self.term(src, st, **kw)
        if z3.is_bool(t):
            return t
        return t != 0

    # ----
    def ev(self, n, env):
        if isinstance(n, ast.Constant):
            if n.value is True:
                return z3.BoolVal(True)
            if n.value is False:
                return z3.BoolVal(False)
            if isinstance(n.value, int):
                return z3.IntVal(n.value)
            raise SpecError("constant %r" % (n.value,))
        if isinstance(n, ast.Name):
            return self.name(n.id, env)
        if isinstance(n, ast.Subscript):
            if not isinstance(n.value, ast.Name):
                raise SpecError("subscript of non-name")
            arr = n.value.id
            st = env["st"]
            if arr not in st.arrs:
                v = st.vars.get(arr)
                if v is not None and v.k == "ptr" and v.arr in st.arrs:
                    idx = self.int(self.ev(n.slice, env)) + v.t
                    return self.sel(st.arrs[v.arr], idx)
                raise SpecError("unknown array %s" % arr)
            idx = self.int(self.ev(n.slice, env))
            return self.sel(st.arrs[arr], idx)
        if isinstance(n, ast.UnaryOp):
            v = self.ev(n.operand, env)
            if isinstance(n.op, ast.Not):
                return z3.Not(self.bool(v))
            if isinstance(n.op, ast.USub):
                return -self.int(v)
            raise SpecError("unary")
        if isinstance(n, ast.BoolOp):
            vs = [self.bool(self.ev(x, env)) for x in n.values]
            return z3.And(*vs) if isinstance(n.op, ast.And) else z3.Or(*vs)
        if isinstance(n, ast.BinOp):
            a, b = self.ev(n.left, env), self.ev(n.right, env)
            if isinstance(n.op, (ast.BitAnd, ast.BitOr)) and z3.is_bool(a) and z3.is_bool(b):
                return z3.And(a, b) if isinstance(n.op, ast.BitAnd) else z3.Or(a, b)
            if a.sort() == sym.F or b.sort() == sym.F:
                # floating-point arithmetic: the same uninterpreted operators the code side uses (an integer operand
                # is converted the way a C cast converts it)
                name = {ast.Add: "f_add", ast.Sub: "f_sub", ast.Mult: "f_mul", ast.Div: "f_div"}.get(type(n.op))
                if name is None:
                    raise SpecError("float operator %s" % type(n.op).__name__)
                return sym.uf(name, sym.F, sym.F, sym.F)(self.flt(a), self.flt(b))
            a, b = self.int(a), self.int(b)
            if isinstance(n.op, ast.Add):
                return a + b
            if isinstance(n.op, ast.Sub):
                return a - b
            if isinstance(n.op, ast.Mult):
                return a * b
            if isinstance(n.op, ast.FloorDiv):
                return sym.pyfloordiv(a, b)
            if isinstance(n.op, ast.Mod):
                return sym.pymod(a, b)
            raise SpecError("binop %s" % type(n.op).__name__)
        if isinstance(n, ast.Compare):
            parts = []
            left = self.ev(n.left, env)
            for op, r in zip(n.ops, n.comparators):
                right = self.ev(r, env)
                parts.append(self.cmp(op, left, right))
                left = right
            return z3.And(*parts) if len(parts) > 1 else parts[0]
        if isinstance(n, ast.IfExp):
            c = self.bool(self.ev(n.test, env))
            a, b = self.ev(n.body, env), self.ev(n.orelse, env)
            if z3.is_bool(a) and z3.is_bool(b):
                return z3.If(c, a, b)
            return z3.If(c, self.int(a), self.int(b))
        if isinstance(n, ast.Call):
            return self.call(n, env)
        raise SpecError("spec node %s" % type(n).__name__)

    def sel(self, arr, idx):
        t = z3.Select(arr, idx)
        return t

    def int(self, t):
        if z3.is_bool(t):
            return z3.If(t, z3.IntVal(1), z3.IntVal(0))
        return t

    def bool(self, t):
        if z3.is_bool(t):
            return t
        return t != 0

    def flt(self, t):
        if t.sort() == sym.F:
            return t
        return sym.uf("i2f", sym.I, sym.F)(self.int(t))

    def cmp(self, op, a, b):
        if z3.is_bool(a) and z3.is_bool(b):
            if isinstance(op, ast.Eq):
                return a == b
            if isinstance(op, ast.NotEq):
                return z3.Xor(a, b)
        if a.sort() == sym.F or b.sort() == sym.F:
            if a.sort() != b.sort():
                a, b = self.flt(a), self.flt(b)       # an integer compared with a float is converted (C's cast)
            if isinstance(op, ast.Eq):
                return a == b
            if isinstance(op, ast.NotEq):
                return a != b
            # ordered comparisons: the same uninterpreted predicates the code side uses for C's < and <=
            lt, le = sym.uf("f_lt", sym.F, sym.F, sym.B), sym.uf("f_le", sym.F, sym.F, sym.B)
            if isinstance(op, ast.Lt):
                return lt(a, b)
            if isinstance(op, ast.Gt):
                return lt(b, a)
            if isinstance(op, ast.LtE):
                return le(a, b)
            if isinstance(op, ast.GtE):
                return le(b, a)
            raise SpecError("ordered float comparison in spec")
        a, b = self.int(a), self.int(b)
        if isinstance(op, ast.Lt):
            return a < b
        if isinstance(op, ast.LtE):
            return a <= b
        if isinstance(op, ast.Gt):
            return a > b
        if isinstance(op, ast.GtE):
            return a >= b
        if isinstance(op, ast.Eq):
            return a == b
        if isinstance(op, ast.NotEq):
            return a != b
        raise SpecError("cmp")

    def name(self, name, env):
        if name in env["bound"]:
            return env["bound"][name]
        st = env["st"]
        if name == "result":
            if env["result"] is None:
                raise SpecError("result not available here")
            return env["result"]
        if name in st.vars:
            v = st.vars[name]
            if v.k == "ptr":
                raise SpecError("pointer %s used as a value" % name)
            return v.t
        if name in self.consts:
            return z3.IntVal(self.consts[name])
        if name in self.ghosts.funcs and not self.ghosts.funcs[name][0]:
            return self.ghost_call(name, [], env)
        if name in ("True", "False"):
            return z3.BoolVal(name == "True")
        raise SpecError("unknown name %s" % name)

    def call(self, n, env):
        if not isinstance(n.func, ast.Name):
            raise SpecError("call")
        f = n.func.id
        if f in ("forall", "exists"):
            var = n.args[0].id
            lo = self.int(self.ev(n.args[1], env))
            hi = self.int(self.ev(n.args[2], env))
            bv = z3.Int("%s?%d" % (var, self.depth))
            self.depth += 1
            env2 = dict(env)
            env2["bound"] = dict(env["bound"])
            env2["bound"][var] = bv
            body = self.bool(self.ev(n.args[3], env2))
            self.depth -= 1
            rng = z3.And(lo <= bv, bv < hi)
            if f == "forall":
                return z3.ForAll([bv], z3.Implies(rng, body))
            return z3.Exists([bv], z3.And(rng, body))
        if f == "old":
            if env["init"] is None:
                raise SpecError("old() not available here")
            env2 = dict(env)
            env2["st"] = env["init"]
            return self.ev(n.args[0], env2)
        if f == "feq":
            # C's == on floating-point values (not identity of the bit patterns: NaN, signed zeros)
            a, b = self.ev(n.args[0], env), self.ev(n.args[1], env)
            return sym.uf("f_eq", sym.F, sym.F, sym.B)(self.flt(a), self.flt(b))
        if f == "entry":
            if env["entry"] is None:
                raise SpecError("entry() not available here")
            env2 = dict(env)
            env2["st"] = env["entry"]
            return self.ev(n.args[0], env2)
        if f in self.ghosts.funcs and self.ghosts.funcs[f][1] is None:
            # uninterpreted ghost: an argument that names an array is passed as the array itself
            gargs = []
            for a in n.args:
                if isinstance(a, ast.Name) and a.id not in env["bound"]:
                    st_ = env["st"]
                    if a.id in st_.arrs:
                        gargs.append(st_.arrs[a.id])
                        continue
                    v = st_.vars.get(a.id)
                    if v is not None and v.k in ("ptr", "obj") and v.arr in st_.arrs:
                        gargs.append(st_.arrs[v.arr])
                        continue
                gv = self.ev(a, env)
                gargs.append(gv if z3.is_bool(gv) else self.int(gv))
            # (an uninterpreted ghost whose name starts with flt_ is floating-point valued)
            fn = sym.uf("ghost_" + f, *([g.sort() for g in gargs] + [sym.F if f.startswith("flt_") else I]))
            return fn(*gargs)
        args = [self.ev(a, env) for a in n.args]
        if f.startswith("P_"):
            # the boolean result of the pure function <name> of the code (the same uninterpreted predicate the code side
            # uses for a callee whose contract says pure="uf")
            ts = [a if (a.sort() == sym.F or z3.is_bool(a)) else self.int(a) for a in args]
            return sym.uf("call_%s_%s" % (f[2:], "".join("F" if t.sort() == sym.F else "I" for t in ts)),
                          *([t.sort() for t in ts] + [sym.B]))(*ts)
        if f == "implies":
            return z3.Implies(self.bool(args[0]), self.bool(args[1]))
        if f == "iff":
            return self.bool(args[0]) == self.bool(args[1])
        if f == "ite":
            c = self.bool(args[0])
            if z3.is_bool(args[1]) and z3.is_bool(args[2]):
                return z3.If(c, args[1], args[2])
            return z3.If(c, self.int(args[1]), self.int(args[2]))
        if f == "min":
            a, b = self.int(args[0]), self.int(args[1])
            return z3.If(a <= b, a, b)
        if f == "max":
            a, b = self.int(args[0]), self.int(args[1])
            return z3.If(a >= b, a, b)
        if f == "abs":
            a = self.int(args[0])
            return z3.If(a >= 0, a, -a)
        if f == "cdiv":
            return sym.cdiv(self.int(args[0]), self.int(args[1]))
        if f == "cmod":
            return sym.cmod(self.int(args[0]), self.int(args[1]))
        if f == "b2i":
            return self.int(args[0])
        if f == "wrap32u":
            return sym.wrap_int(self.int(args[0]), "u32")
        if f in self.ghosts.funcs:
            return self.ghost_call(f, args, env)
        raise SpecError("unknown function %s" % f)

    def ghost_call(self, f, args, env):
        params, body = self.ghosts.funcs[f]
        if body is None:
            fn = sym.uf("ghost_" + f, *([I] * len(params) + [I]))
            return fn(*[self.int(a) for a in args])
        # defined (non-recursive) ghost: inline, evaluated in the *current* env state
        env2 = dict(env)
        env2["bound"] = dict(env["bound"])
        for p, a in zip(params, args):
            env2["bound"][p] = a
        return self.ev(parse(body), env2)
