"""Reference interpreter for a documented subset of AwkwardForth (docs: Forth stack and control words, floor
division and modulo, wraparound at 64 bits, typed little/big-endian and variable-length reads, typed output writes)
and a generator of small random programs.  Used by Engine N family `forth_programs` (BOUNDED): the real
ForthMachine64 is run on the same source and input bytes in three schedules (run with resume after every pause,
single-stepped, mixed) and with different output-buffer growth settings."""
import re
import struct

ERR = {"none": 0, "user_halt": 3, "recursion_depth_exceeded": 4, "stack_underflow": 5, "stack_overflow": 6,
       "read_beyond": 7, "seek_beyond": 8, "skip_beyond": 9, "rewind_beyond": 10, "division_by_zero": 11,
       "varint_too_big": 12}

INT_W = {"int8": (8, True), "int16": (16, True), "int32": (32, True), "int64": (64, True),
         "uint8": (8, False), "uint16": (16, False), "uint32": (32, False), "uint64": (64, False)}

# read word letter -> (struct code, size, kind)
READ_TYPES = {"?": ("?", 1, "bool"), "b": ("b", 1, "int"), "h": ("h", 2, "int"), "i": ("i", 4, "int"), "q": ("q", 8, "int"),
              "n": ("q", 8, "int"), "B": ("B", 1, "int"), "H": ("H", 2, "int"), "I": ("I", 4, "int"), "Q": ("Q", 8, "int"),
              "N": ("Q", 8, "int"), "f": ("f", 4, "float"), "d": ("d", 8, "float")}


class ForthError(Exception):
    def __init__(self, name):
        self.name = name


class Unsupported(Exception):
    pass


def wrap64(x):
    return (x + 2**63) % 2**64 - 2**63


def to_dtype(v, dtype):
    """C conversion of a stack value / read value to an output dtype"""
    if dtype == "bool":
        return bool(v != 0)
    if dtype in INT_W:
        bits, signed = INT_W[dtype]
        if isinstance(v, float):
            lo, hi = (-2**(bits - 1), 2**(bits - 1) - 1) if signed else (0, 2**bits - 1)
            if v != v or not (lo - 1 < v < hi + 1):
                # a floating-point value outside the target integer type: the conversion is undefined in C++
                # (x86 happens to give the minimum): the documented semantics do not define it either
                raise Unsupported("float to int out of range")
            v = int(v)
        v = int(v) % 2**bits
        if signed and v >= 2**(bits - 1):
            v -= 2**bits
        return v
    try:
        if dtype == "float32":
            return struct.unpack("<f", struct.pack("<f", float(v)))[0]
        return float(v)
    except (OverflowError, struct.error):
        raise Unsupported("value does not fit the float type")


class Machine:
    def __init__(self, source, inputs, stack_max=1024, recursion_max=1024):
        self.tokens = source.split()
        self.inputs = {k: bytes(v) for k, v in inputs.items()}
        self.pos = {k: 0 for k in inputs}
        self.stack = []
        self.stack_max = stack_max
        self.variables = {}
        self.varorder = []
        self.outputs = {}
        self.outorder = []
        self.words = {}
        self.dostack = []
        self.depth = 0
        self.recursion_max = recursion_max
        self.budget = 20000

    # ---------------------------------------------------------------- stack helpers
    def pop(self):
        if not self.stack:
            raise ForthError("stack_underflow")
        return self.stack.pop()

    def push(self, v):
        if len(self.stack) >= self.stack_max:
            raise ForthError("stack_overflow")
        self.stack.append(wrap64(int(v)))

    # ---------------------------------------------------------------- parsing into a tree
    def parse(self, toks, i, stop_words):
        """-> (list of nodes, index of the stop word found)"""
        out = []
        n = len(toks)
        while i < n:
            w = toks[i]
            if w in stop_words:
                return out, i
            if w == ":":
                name = toks[i + 1]
                body, j = self.parse(toks, i + 2, (";",))
                out.append(("def", name, body))
                i = j + 1
            elif w == "variable":
                out.append(("variable", toks[i + 1]))
                i += 2
            elif w == "input":
                out.append(("input", toks[i + 1]))
                i += 2
            elif w == "output":
                out.append(("output", toks[i + 1], toks[i + 2]))
                i += 3
            elif w == "if":
                a, j = self.parse(toks, i + 1, ("else", "then"))
                if toks[j] == "else":
                    b, k = self.parse(toks, j + 1, ("then",))
                    out.append(("ifelse", a, b))
                    i = k + 1
                else:
                    out.append(("if", a))
                    i = j + 1
            elif w == "do":
                body, j = self.parse(toks, i + 1, ("loop", "+loop"))
                out.append(("do", body, toks[j] == "+loop"))
                i = j + 1
            elif w == "begin":
                a, j = self.parse(toks, i + 1, ("until", "while", "again"))
                if toks[j] == "until":
                    out.append(("until", a))
                    i = j + 1
                elif toks[j] == "again":
                    out.append(("again", a))
                    i = j + 1
                else:
                    b, k = self.parse(toks, j + 1, ("repeat",))
                    out.append(("while", a, b))
                    i = k + 1
            else:
                out.append(("word", w))
                i += 1
        if stop_words:
            raise Unsupported("unterminated structure")
        return out, i

    # ---------------------------------------------------------------- execution
    def run(self):
        tree, _ = self.parse(self.tokens, 0, ())
        try:
            self.exec_block(tree)
            return "none"
        except ForthError as e:
            return e.name
        except _Exit:
            return "none"

    def exec_block(self, block):
        i = 0
        while i < len(block):
            nd = block[i]
            k = nd[0]
            self.budget -= 1
            if self.budget < 0:
                raise Unsupported("program runs too long (possibly forever)")
            if k == "def":
                self.words[nd[1]] = nd[2]
            elif k == "variable":
                if nd[1] not in self.variables:
                    self.variables[nd[1]] = 0
                    self.varorder.append(nd[1])
            elif k == "input":
                pass
            elif k == "output":
                if nd[1] not in self.outputs:
                    self.outputs[nd[1]] = (nd[2], [])
                    self.outorder.append(nd[1])
            elif k == "if":
                if self.pop() != 0:
                    self.nested(nd[1])
            elif k == "ifelse":
                if self.pop() != 0:
                    self.nested(nd[1])
                else:
                    self.nested(nd[2])
            elif k == "do":
                start = self.pop()
                stop = self.pop()
                self.dostack.append([start, stop])
                try:
                    while self.dostack[-1][0] < self.dostack[-1][1]:
                        self.budget -= 1
                        if self.budget < 0:
                            raise Unsupported("program runs too long (possibly forever)")
                        self.nested(nd[1])
                        if nd[2]:
                            self.dostack[-1][0] = wrap64(self.dostack[-1][0] + self.pop())
                        else:
                            self.dostack[-1][0] += 1
                finally:
                    self.dostack.pop()
            elif k == "until":
                while True:
                    self.nested(nd[1])
                    if self.pop() != 0:
                        break
            elif k == "while":
                while True:
                    self.nested(nd[1])
                    if self.pop() == 0:
                        break
                    self.nested(nd[2])
            elif k == "again":
                raise Unsupported("begin ... again")
            else:
                w = nd[1]
                # words that take the following token(s) as operands
                if w in self.variables and i + 1 < len(block) and block[i + 1][0] == "word" and block[i + 1][1] in ("!", "+!", "@"):
                    op = block[i + 1][1]
                    if op == "!":
                        self.variables[w] = self.pop()
                    elif op == "+!":
                        self.variables[w] = wrap64(self.variables[w] + self.pop())
                    else:
                        self.push(self.variables[w])
                    i += 2
                    continue
                if w in self.inputs and i + 1 < len(block) and block[i + 1][0] == "word":
                    op = block[i + 1][1]
                    consumed = self.input_word(w, op, block, i)
                    i += consumed
                    continue
                if w in self.outputs and i + 1 < len(block) and block[i + 1][0] == "word":
                    op = block[i + 1][1]
                    consumed = self.output_word(w, op, block, i)
                    i += consumed
                    continue
                self.builtin(w)
            i += 1

    def nested(self, block):
        """a control-structure body or a user word is one more level of the machine's recursion stack"""
        if self.depth + 1 >= self.recursion_max:
            raise ForthError("recursion_depth_exceeded")
        self.depth += 1
        try:
            self.exec_block(block)
        finally:
            self.depth -= 1

    def input_word(self, name, op, block, i):
        data, pos = self.inputs[name], self.pos[name]
        if op == "len":
            self.push(len(data))
            return 2
        if op == "pos":
            self.push(pos)
            return 2
        if op == "end":
            self.push(-1 if pos == len(data) else 0)
            return 2
        if op == "seek":
            p = self.pop()
            if p < 0 or p > len(data):
                raise ForthError("seek_beyond")
            self.pos[name] = p
            return 2
        if op == "skip":
            p = pos + self.pop()
            if p < 0 or p > len(data):
                raise ForthError("skip_beyond")
            self.pos[name] = p
            return 2
        if op.endswith("->"):
            target = block[i + 2][1]
            spec = op[:-2]
            repeated = spec.startswith("#")
            if repeated:
                spec = spec[1:]
            big = spec.startswith("!")
            if big:
                spec = spec[1:]
            count = 1
            if repeated:
                count = self.pop()
                if count < 0:
                    raise Unsupported("negative repeat count")
            def deliver(kind, v):
                if target == "stack":
                    if kind == "float":
                        if v != v or abs(v) >= 2.0**62:
                            raise Unsupported("float to stack out of range")
                        v = int(v)
                    self.push(int(v))
                else:
                    dtype, arr = self.outputs[target]
                    arr.append(to_dtype(v, dtype))

            nb = re.fullmatch(r"(\d+)bit", spec)
            if nb:
                # N-bit unsigned fields, least significant bit first (`!`: the bits of every byte reversed first); bytes
                # are taken one at a time as the window runs short, items before a failing byte stay delivered, the
                # unused bits of the last byte are dropped when the instruction ends
                n = int(nb.group(1))
                if n == 64 and target != "stack" and self.outputs[target][0].startswith("float"):
                    # (whether a 64-bit field is an unsigned number or a machine cell is not defined; it only shows here)
                    raise Unsupported("64-bit field written to a floating-point output")
                window, have = 0, 0
                for _ in range(count):
                    while have < n:
                        if self.pos[name] >= len(data):
                            raise ForthError("read_beyond")
                        byte = data[self.pos[name]]
                        self.pos[name] += 1
                        if big:
                            byte = int("{:08b}".format(byte)[::-1], 2)
                        window |= byte << have
                        have += 8
                    deliver("int", window & ((1 << n) - 1))
                    window >>= n
                    have -= n
            elif spec in ("varint", "zigzag"):
                # decoded and delivered one by one: values before a failing one stay delivered
                for _ in range(count):
                    shift, result = 0, 0
                    while True:
                        if self.pos[name] >= len(data):
                            raise ForthError("read_beyond")
                        byte = data[self.pos[name]]
                        self.pos[name] += 1
                        if shift == 63:
                            raise ForthError("varint_too_big")
                        result |= (byte & 0x7f) << shift
                        shift += 7
                        if not (byte & 0x80):
                            break
                    if spec == "zigzag":
                        result = (result >> 1) ^ (-(result & 1))
                    deliver("int", wrap64(result))
            else:
                # fixed-size items: the whole block is bounds-checked first
                code, size, kind = READ_TYPES[spec]
                if self.pos[name] + count * size > len(data):
                    raise ForthError("read_beyond")
                vals = []
                for _ in range(count):
                    raw = data[self.pos[name]:self.pos[name] + size]
                    self.pos[name] += size
                    if kind == "bool" and raw[0] > 1:
                        raise Unsupported("a byte other than 0/1 read as bool")
                    vals.append((kind, struct.unpack((">" if big else "<") + code, raw)[0]))
                for kind, v in vals:
                    deliver(kind, v)
            return 3
        raise Unsupported("input word " + op)

    def output_word(self, name, op, block, i):
        dtype, arr = self.outputs[name]
        if op == "<-":
            if block[i + 2][1] != "stack":
                raise Unsupported("<- " + block[i + 2][1])
            arr.append(to_dtype(self.pop(), dtype))
            return 3
        if op == "+<-":
            if block[i + 2][1] != "stack":
                raise Unsupported("+<- " + block[i + 2][1])
            v = self.pop()
            prev = arr[-1] if arr else 0
            if dtype.startswith("float"):
                arr.append(to_dtype(float(prev) + v, dtype))
            else:
                arr.append(to_dtype(int(prev) + v, dtype))
            return 3
        if op == "len":
            self.push(len(arr))
            return 2
        if op == "rewind":
            n = self.pop()
            if n < 0 or n > len(arr):
                raise ForthError("rewind_beyond")
            if n:
                del arr[len(arr) - n:]
            return 2
        raise Unsupported("output word " + op)

    def builtin(self, w):
        st = self
        if w in self.words:
            try:
                self.nested(self.words[w])
            except _Exit:
                pass
            return
        if w == "recurse":
            raise Unsupported("recurse")
        if w == "exit":
            raise _Exit()
        if w == "halt":
            raise ForthError("user_halt")
        if w == "pause":
            return
        if w in ("i", "j", "k"):
            d = {"i": 1, "j": 2, "k": 3}[w]
            if len(self.dostack) < d:
                raise Unsupported("loop index outside a loop")
            self.push(self.dostack[-d][0])
            return
        if w == "dup":
            a = st.pop(); st.push(a); st.push(a); return
        if w == "drop":
            st.pop(); return
        if w == "swap":
            b = st.pop(); a = st.pop(); st.push(b); st.push(a); return
        if w == "over":
            b = st.pop(); a = st.pop(); st.push(a); st.push(b); st.push(a); return
        if w == "rot":
            c = st.pop(); b = st.pop(); a = st.pop(); st.push(b); st.push(c); st.push(a); return
        if w == "nip":
            b = st.pop(); a = st.pop(); st.push(b); return
        if w == "tuck":
            b = st.pop(); a = st.pop(); st.push(b); st.push(a); st.push(b); return
        if w in ("+", "-", "*", "/", "mod", "/mod", "min", "max", "=", "<>", ">", ">=", "<", "<=", "and", "or", "xor", "lshift", "rshift"):
            b = st.pop(); a = st.pop()
            if w == "+": st.push(a + b)
            elif w == "-": st.push(a - b)
            elif w == "*": st.push(a * b)
            elif w in ("/", "mod", "/mod"):
                if b == 0:
                    raise ForthError("division_by_zero")
                if w == "/": st.push(a // b)
                elif w == "mod": st.push(a % b)
                else:
                    st.push(a % b); st.push(a // b)
            elif w == "min": st.push(min(a, b))
            elif w == "max": st.push(max(a, b))
            elif w == "=": st.push(-1 if a == b else 0)
            elif w == "<>": st.push(-1 if a != b else 0)
            elif w == ">": st.push(-1 if a > b else 0)
            elif w == ">=": st.push(-1 if a >= b else 0)
            elif w == "<": st.push(-1 if a < b else 0)
            elif w == "<=": st.push(-1 if a <= b else 0)
            elif w == "and": st.push(a & b)
            elif w == "or": st.push(a | b)
            elif w == "xor": st.push(a ^ b)
            elif w == "lshift":
                if not (0 <= b <= 62):
                    raise Unsupported("shift amount")
                st.push(a << b)
            else:
                if not (0 <= b <= 62):
                    raise Unsupported("shift amount")
                st.push(a >> b)
            return
        if w in ("negate", "1+", "1-", "abs", "0=", "invert"):
            a = st.pop()
            st.push({"negate": -a, "1+": a + 1, "1-": a - 1, "abs": abs(a), "0=": (-1 if a == 0 else 0), "invert": ~a}[w])
            return
        if w == "true":
            st.push(-1); return
        if w == "false":
            st.push(0); return
        try:
            v = int(w)
        except ValueError:
            raise Unsupported("unknown word " + w)
        st.push(v)


class _Exit(Exception):
    pass


# ------------------------------------------------------------------------------------------ program generator

STACK_WORDS = ["dup", "drop", "swap", "over", "rot", "nip", "tuck"]
ARITH = ["+", "-", "*", "/", "mod", "/mod", "negate", "1+", "1-", "abs", "min", "max"]
CMP = ["=", "<>", ">", ">=", "<", "<=", "0="]
BITS = ["invert", "and", "or", "xor"]


def gen_program(rng):
    """-> (source, inputs dict name -> bytes).  Loop bounds are small literals so that programs terminate."""
    decl, body = [], []
    inputs = {}
    outs, vars_, words = [], [], []
    if rng.random() < 0.04:
        # one long run of bit fields wider than a byte (the bit window has to be refilled and drained many times)
        n = rng.randint(12, 48)
        data = bytes(rng.randrange(256) for _ in range(n))
        width = rng.choice([9, 10, 11, 12, 13, 15, 16, 17, 20, 23, 24, 27, 30, 31, 32, 33, 39, 47, 56, 57, 64])
        count = max(0, (n * 8) // width - rng.choice([0, 0, 1, 3]))
        big = "!" if rng.random() < 0.3 else ""
        if rng.random() < 0.6:
            dt = rng.choice(["int64", "uint32", "uint64", "float64"])
            return "input x output y %s %d x #%s%dbit-> y x pos" % (dt, count, big, width), {"x": data}
        return "input x %d x #%s%dbit-> stack x pos" % (count, big, width), {"x": data}
    if rng.random() < 0.6:
        n = rng.randint(0, 24)
        data = bytes(rng.choice([0, 1, 2, 3, 127, 128, 255, rng.randrange(256)]) for _ in range(n))
        inputs["x"] = data
        decl.append("input x")
    outdt = {}
    for name in ["y", "z"][:rng.randint(0, 2)]:
        dt = rng.choice(["int64", "int32", "int8", "uint8", "uint16", "float64", "float32", "bool", "uint64", "int16", "uint32"])
        decl.append("output %s %s" % (name, dt))
        outs.append(name)
        outdt[name] = dt
    for name in ["v", "w"][:rng.randint(0, 2)]:
        decl.append("variable %s" % name)
        vars_.append(name)

    def lit():
        return str(rng.choice([0, 1, 2, 3, -1, -2, 5, 7, 10, 100, -100, 2147483647, -2147483648, rng.randint(-50, 50)]))

    tainted = set()      # words that (transitively) use `exit`: not called from inside loops (KF-C19-exit-step)

    def simple(depth_est, inloop=False):
        r = rng.random()
        if r < 0.3:
            return [lit()]
        if r < 0.45:
            return [rng.choice(STACK_WORDS)]
        if r < 0.65:
            return [rng.choice(ARITH)]
        if r < 0.72:
            return [rng.choice(CMP)]
        if r < 0.77:
            return [rng.choice(BITS)]
        if r < 0.8:
            return [lit(), str(rng.randint(0, 20)), rng.choice(["lshift", "rshift"])]
        if r < 0.86 and vars_:
            v = rng.choice(vars_)
            return [v, rng.choice(["!", "+!", "@", "@"])]
        if r < 0.93 and outs:
            o = rng.choice(outs)
            k = rng.random()
            if k < 0.6:
                return [o, "<-", "stack"]
            if k < 0.8 and outdt[o] != "bool":       # (the sum written by +<- into a bool output is not specified)
                return [o, "+<-", "stack"]
            if k < 0.9:
                return [o, "len"]
            return [str(rng.randint(0, 2)), o, "rewind"]
        if "x" in inputs:
            k = rng.random()
            if k < 0.45:
                t = rng.choice(list(READ_TYPES) + ["varint", "zigzag"])
                big = "!" if (rng.random() < 0.3 and t in "hiqnHIQNfd") else ""
                rep = rng.random() < 0.3
                tgt = rng.choice(["stack"] + outs)
                pre = [str(rng.randint(0, 3))] if rep else []
                if rep and t in READ_TYPES and rng.random() < 0.05:
                    # a repeat count no input can satisfy, up to counts whose byte size overflows 64 bits: read beyond
                    pre = ["1", str(rng.choice([40, 58, 60, 61, 62])), "lshift"]
                if rng.random() < 0.12:
                    # bit fields of 1..57 and of 64 bits, singly or in long runs (58..63 bits: a run does not fit
                    # the machine's 64-bit window, section 6.3 of DESIGN.md)
                    t = "%dbit" % rng.choice([1, 2, 3, 5, 7, 8, 9, 11, 12, 13, 16, 17, 23, 24, 30, 31, 32, 33, 40, 48, 57, 64])
                    big = "!" if rng.random() < 0.3 else ""
                    rep = rng.random() < 0.7
                    pre = [str(rng.choice([0, 1, 2, 3, 5, 8, 13, 16, 20]))] if rep else []
                return pre + ["x", ("#" if rep else "") + big + t + "->", tgt]
            if k < 0.6:
                return ["x", rng.choice(["len", "pos", "end"])]
            if k < 0.8:
                return [str(rng.choice([-4, -2, -1, -1, 0, 1, 2, 3, 4, 6])), "x", "skip"]
            return [str(rng.randint(-1, 26)), "x", "seek"]
        cands = [w for w in words if not (inloop and w in tainted)]
        if cands and r < 0.97:
            return [rng.choice(cands)]
        return [lit()]

    def block(depth, inloop, inword, indo=False):
        out = []
        for _ in range(rng.randint(1, 5)):
            r = rng.random()
            if depth > 0 and r < 0.12:
                out += ["if"] + block(depth - 1, inloop, inword, indo)
                if rng.random() < 0.5:
                    out += ["else"] + block(depth - 1, inloop, inword, indo)
                out += ["then"]
            elif depth > 0 and r < 0.22:
                stop, start = rng.randint(0, 4), rng.randint(0, 2)
                if rng.random() < 0.3:
                    # (now and then `pause` is the very last word of the body, between the step and +loop)
                    out += [str(stop), str(start), "do"] + block(depth - 1, True, inword, True) + [str(rng.randint(1, 2))] + \
                           (["pause"] if rng.random() < 0.25 else []) + ["+loop"]
                else:
                    out += [str(stop), str(start), "do"] + block(depth - 1, True, inword, True) + (["pause"] if rng.random() < 0.15 else []) + ["loop"]
            elif depth > 0 and r < 0.27 and vars_:
                v = vars_[0]
                # a counted begin ... until / while ... repeat (always terminates)
                if rng.random() < 0.5:
                    out += [str(rng.randint(1, 3)), v, "!", "begin"] + block(depth - 1, True, inword, indo) + ["-1", v, "+!", v, "@", "0", "<=", "until"]
                else:
                    out += [str(rng.randint(0, 3)), v, "!", "begin", v, "@", "0", ">", "while"] + block(depth - 1, True, inword, indo) + ["-1", v, "+!", "repeat"]
            elif indo and r < 0.32:
                out += [rng.choice(["i", "i", "pause"])]
            elif r < 0.35:
                out += ["pause"]
            elif inword and not inloop and r < 0.37:
                out += ["exit"]
            elif r < 0.375:
                out += ["halt"]
            else:
                out += simple(depth, inloop)
        return out

    prog = list(decl)
    for name in ["f", "g"][:rng.randint(0, 2)]:
        body = block(1, False, True)
        prog += [":", name] + body + [";"]
        if "exit" in body or any(w in tainted for w in body):
            tainted.add(name)
        words.append(name)
    prog += block(2, False, False)
    return " ".join(prog), inputs
