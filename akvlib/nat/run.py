"""Run cases through the native driver (parallel driver processes, one forked child per case)."""
import os, subprocess, sys
from concurrent.futures import ThreadPoolExecutor

from . import build

NAN = float("nan")
INF = float("inf")


def _S(h):
    return bytes.fromhex(h).decode("utf-8", "surrogateescape")


def _B(h):
    return bytes.fromhex(h)


class _E(str):
    pass


_NS = {"s": 10**9, "ms": 10**6, "us": 10**3, "ns": 1}


def _D(ticks, fmt):
    """a datetime64 / timedelta64 scalar as (kind, nanoseconds): the value, whatever unit it is stored in"""
    unit = fmt[fmt.index("[") + 1:fmt.index("]")]
    return ("dt" if fmt[0] == "M" else "td", ticks * _NS[unit])


ENV = {"D": _D, "E": lambda x: _E(x), "nan": NAN, "inf": INF, "S": _S, "B": _B, "V": lambda x: x, "complex": complex, "__builtins__": {}}


class Result:
    __slots__ = ("id", "status", "value", "raw", "validity", "pure", "extra", "exc", "msg")

    def __init__(self, id):
        self.id, self.status, self.value, self.raw = id, "MISSING", None, ""
        self.validity, self.pure, self.extra, self.exc, self.msg = None, None, "", None, ""

    def __repr__(self):
        if self.status == "OK":
            return "OK %s" % self.raw
        return "%s %s %s" % (self.status, self.exc or "", self.msg)


def parse_line(line):
    parts = line.rstrip("\n").split("\t")
    r = Result(parts[0])
    r.status = parts[1] if len(parts) > 1 else "MISSING"
    if r.status == "OK":
        r.raw = parts[2]
        try:
            r.value = eval(parts[2], dict(ENV))
        except Exception as e:      # unparsable rendering: report, never guess
            r.status = "UNPARSED"
            r.msg = "%s: %s" % (e, parts[2][:200])
        r.validity = parts[3] if len(parts) > 3 else None
        r.pure = int(parts[4]) if len(parts) > 4 and parts[4] else None
        r.extra = parts[5] if len(parts) > 5 else ""
    elif r.status == "EXC":
        r.exc = parts[2]
        r.msg = parts[3] if len(parts) > 3 else ""
    else:
        r.msg = "\t".join(parts[2:])
    return r


def run_cases(lines, asan=False, jobs=16, exe=None):
    """lines: list of 'id op args...' strings -> dict id -> Result"""
    exe = exe or build.build(asan=asan)
    if not lines:
        return {}
    jobs = max(1, min(jobs, (len(lines) + 49) // 50))
    chunks = [lines[i::jobs] for i in range(jobs)]
    env = dict(os.environ)
    env["ASAN_OPTIONS"] = "abort_on_error=1:detect_leaks=0:allocator_may_return_null=1"

    def work(chunk):
        p = subprocess.run([exe], input=("\n".join(chunk) + "\n").encode(), stdout=subprocess.PIPE,
                           stderr=subprocess.PIPE, env=env)
        return p.stdout.decode("utf-8", "replace"), p.stderr.decode("utf-8", "replace")

    out = {}
    errs = []
    with ThreadPoolExecutor(jobs) as ex:
        for so, se in ex.map(work, chunks):
            for line in so.splitlines():
                if not line.strip():
                    continue
                r = parse_line(line)
                # a child that crashed after printing leaves two lines: the crash wins
                if r.id in out and out[r.id].status in ("CRASH", "TIMEOUT"):
                    continue
                out[r.id] = r
            if se:
                errs.append(se[-4000:])
    for line in lines:
        i = line.split(" ", 1)[0]
        if i not in out:
            out[i] = Result(i)
    run_cases.last_stderr = errs
    return out


run_cases.last_stderr = []


def run_memcheck(line, exe=None, timeout=120):
    """one case under valgrind memcheck on the real (non-instrumented) build: (memory errors reported?, stdout, report tail)"""
    exe = exe or build.build(asan=False)
    p = subprocess.run(["valgrind", "-q", "--error-exitcode=99", exe, "--nofork"], input=(line + "\n").encode(),
                       stdout=subprocess.PIPE, stderr=subprocess.PIPE, timeout=timeout)
    return p.returncode == 99 or p.returncode < 0, p.stdout.decode("utf-8", "replace"), p.stderr.decode("utf-8", "replace")[-1500:]
