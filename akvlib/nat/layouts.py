"""Layout descriptions for Engine N: physical layouts of the real libawkward node
classes as Python data, their token form for the native driver, their value read as
nested Python values (an independent definition taken from the documented meaning
of each node class, docs-sphinx/ak.layout.*.rst), the documented validity rules,
and generators that encode one logical value in many physical ways."""
import math, random

INT_DTYPES = ["int8", "int16", "int32", "int64", "uint8", "uint16", "uint32", "uint64"]
FLOAT_DTYPES = ["float32", "float64"]
IDX_MAX = {"32": 2**31 - 1, "U32": 2**32 - 1, "64": 2**63 - 1}


class Node:
    params = None

    def with_params(self, p):
        self.params = dict(p)
        return self

    def tok(self):
        t = self._tok()
        if self.params:
            items = []
            for k, v in self.params.items():
                items += [k, v]
            t = ["par", len(self.params)] + items + t
        return t

    def tokens(self):
        return " ".join(str(x) for x in self.tok())


def fmt_num(x, dtype):
    if dtype.startswith("complex"):
        z = complex(x)
        return "%r %r" % (z.real, z.imag)
    if dtype.startswith("float"):
        if isinstance(x, float):
            if math.isnan(x):
                return "nan"
            if math.isinf(x):
                return "inf" if x > 0 else "-inf"
            return repr(x)
        return repr(float(x))
    if dtype == "bool":
        return "1" if x else "0"
    return str(int(x))


class NP(Node):
    """NumpyArray: buf is the flat buffer (items), shape/strides/offset in items"""

    def __init__(self, dtype, buf, shape=None, strides=None, offset=0):
        self.dtype = dtype
        self.buf = list(buf)
        self.shape = list(shape) if shape is not None else [len(self.buf)]
        if strides is None:
            strides, s = [], 1
            for d in reversed(self.shape):
                strides.insert(0, s)
                s *= d
        self.strides = list(strides)
        self.offset = offset

    def _tok(self):
        if len(self.shape) == 1 and self.strides == [1] and self.offset == 0 and self.shape[0] == len(self.buf):
            return ["np", self.dtype, len(self.buf)] + [fmt_num(x, self.dtype) for x in self.buf]
        return (["nps", self.dtype, len(self.shape)] + self.shape + self.strides + [self.offset, len(self.buf)]
                + [fmt_num(x, self.dtype) for x in self.buf])

    def length(self):
        return self.shape[0]


class LO(Node):
    def __init__(self, width, offsets, content):
        self.width, self.offsets, self.content = width, list(offsets), content

    def _tok(self):
        return ["lo", self.width, len(self.offsets)] + self.offsets + self.content.tok()

    def length(self):
        return len(self.offsets) - 1


class LA(Node):
    def __init__(self, width, starts, stops, content):
        self.width, self.starts, self.stops, self.content = width, list(starts), list(stops), content

    def _tok(self):
        return ["la", self.width, len(self.starts), len(self.stops)] + self.starts + self.stops + self.content.tok()

    def length(self):
        return len(self.starts)


class RG(Node):
    def __init__(self, size, content, zeros_length=0):
        self.size, self.content, self.zeros_length = size, content, zeros_length

    def _tok(self):
        return ["rg", self.size, self.zeros_length] + self.content.tok()

    def length(self):
        return self.zeros_length if self.size == 0 else self.content.length() // self.size


class IX(Node):
    def __init__(self, width, index, content):
        self.width, self.index, self.content = width, list(index), content

    def _tok(self):
        return ["ix", self.width, len(self.index)] + self.index + self.content.tok()

    def length(self):
        return len(self.index)


class IO(Node):
    def __init__(self, width, index, content):
        self.width, self.index, self.content = width, list(index), content

    def _tok(self):
        return ["io", self.width, len(self.index)] + self.index + self.content.tok()

    def length(self):
        return len(self.index)


class BM(Node):
    def __init__(self, valid_when, mask, content):
        self.valid_when, self.mask, self.content = bool(valid_when), list(mask), content

    def _tok(self):
        return ["bm", int(self.valid_when), len(self.mask)] + self.mask + self.content.tok()

    def length(self):
        return len(self.mask)


class BT(Node):
    def __init__(self, valid_when, lsb_order, length, mask, content):
        self.valid_when, self.lsb_order, self.len, self.mask, self.content = bool(valid_when), bool(lsb_order), length, list(mask), content

    def _tok(self):
        return ["bt", int(self.valid_when), int(self.lsb_order), self.len, len(self.mask)] + self.mask + self.content.tok()

    def length(self):
        return self.len

    def bit(self, i):
        b = self.mask[i // 8]
        return (b >> (i % 8)) & 1 if self.lsb_order else (b >> (7 - i % 8)) & 1


class UM(Node):
    def __init__(self, content):
        self.content = content

    def _tok(self):
        return ["um"] + self.content.tok()

    def length(self):
        return self.content.length()


class UN(Node):
    def __init__(self, width, tags, index, contents):
        self.width, self.tags, self.index, self.contents = width, list(tags), list(index), list(contents)

    def _tok(self):
        t = ["un", self.width, len(self.tags), len(self.index)] + self.tags + self.index + [len(self.contents)]
        for c in self.contents:
            t += c.tok()
        return t

    def length(self):
        return len(self.tags)


class RC(Node):
    def __init__(self, length, keys, contents):
        self.len, self.keys, self.contents = length, (list(keys) if keys is not None else None), list(contents)

    def _tok(self):
        t = ["rc", self.len, len(self.contents), 1 if self.keys is None else 0]
        if self.keys is not None:
            t += self.keys
        for c in self.contents:
            t += c.tok()
        return t

    def length(self):
        return self.len


class EM(Node):
    def _tok(self):
        return ["em"]

    def length(self):
        return 0


# ----------------------------------------------------------------------------- value of a layout

class Str(str):
    pass


def np_item(node, idx):
    """element of a NumpyArray at a (possibly partial) multi-index -> value or nested list"""
    shape, strides = node.shape, node.strides
    k = len(idx)
    if k == len(shape):
        pos = node.offset + sum(i * s for i, s in zip(idx, strides))
        v = node.buf[pos]
        if node.dtype == "bool":
            return bool(v)
        if node.dtype.startswith("float"):
            return float(v)
        return int(v)
    return [np_item(node, idx + [i]) for i in range(shape[k])]


def isstringparam(node):
    return node.params is not None and node.params.get("__array__") in ('"string"', '"bytestring"')


def tolist(node):
    """the documented value of a layout (list of length node.length())"""
    out = _tolist(node)
    if isstringparam(node):
        conv = []
        for x in out:
            if x is None:
                conv.append(None)
            elif node.params["__array__"] == '"string"':
                conv.append(bytes(x).decode("utf-8", "surrogateescape"))
            else:
                conv.append(bytes(x))
        return conv
    return out


def _tolist(node):
    if isinstance(node, NP):
        return np_item(node, [])
    if isinstance(node, EM):
        return []
    if isinstance(node, LO):
        c = tolist(node.content)
        return [c[node.offsets[i]:node.offsets[i + 1]] for i in range(len(node.offsets) - 1)]
    if isinstance(node, LA):
        c = tolist(node.content)
        return [c[node.starts[i]:node.stops[i]] for i in range(len(node.starts))]
    if isinstance(node, RG):
        c = tolist(node.content)
        if node.size == 0:
            return [[] for _ in range(node.zeros_length)]
        return [c[i * node.size:(i + 1) * node.size] for i in range(len(c) // node.size)]
    if isinstance(node, IX):
        c = tolist(node.content)
        return [c[i] for i in node.index]
    if isinstance(node, IO):
        c = tolist(node.content)
        return [None if i < 0 else c[i] for i in node.index]
    if isinstance(node, BM):
        c = tolist(node.content)
        return [c[i] if ((node.mask[i] != 0) == node.valid_when) else None for i in range(len(node.mask))]
    if isinstance(node, BT):
        c = tolist(node.content)
        return [c[i] if ((node.bit(i) != 0) == node.valid_when) else None for i in range(node.len)]
    if isinstance(node, UM):
        return tolist(node.content)
    if isinstance(node, UN):
        cs = [tolist(c) for c in node.contents]
        return [cs[t][i] for t, i in zip(node.tags, node.index)]
    if isinstance(node, RC):
        cs = [tolist(c) for c in node.contents]
        if node.keys is None:
            return [tuple(c[i] for c in cs) for i in range(node.len)]
        return [{k: c[i] for k, c in zip(node.keys, cs)} for i in range(node.len)]
    raise TypeError(node)


# ----------------------------------------------------------------------------- documented validity rules

OPTION_OR_INDEXED = (IX, IO, BM, BT, UM)


def _children(node):
    return ([node.content] if hasattr(node, "content") else []) + list(getattr(node, "contents", []))


def params_valid(node, parent=None):
    """the documented rules on the __array__ parameter: "string"/"bytestring" only on a list node (ListArray,
    ListOffsetArray, RegularArray) whose content is directly a one-dimensional uint8 NumpyArray with "char"/"byte";
    "char"/"byte" only there; "categorical" only on an IndexedArray / IndexedOptionArray"""
    a = (node.params or {}).get("__array__")
    pa = (parent.params or {}).get("__array__") if parent is not None else None
    if a in ('"string"', '"bytestring"'):
        if not isinstance(node, (LO, LA, RG)):
            return False
        c = node.content
        want = '"char"' if a == '"string"' else '"byte"'
        if (c.params or {}).get("__array__") != want:
            return False
        if not (isinstance(c, NP) and c.dtype == "uint8" and len(c.shape) == 1):
            return False
        return True       # (the character node has been checked)
    if a == '"char"' and pa != '"string"':
        return False
    if a == '"byte"' and pa != '"bytestring"':
        return False
    if a == '"categorical"' and not isinstance(node, (IX, IO)):
        return False
    return all(params_valid(c, node) for c in _children(node))


def valid(node):
    """True iff the layout obeys every documented structural rule (ak.layout.*.rst, ak.is_valid)"""
    return params_valid(node) and _valid_struct(node)


def _valid_struct(node):
    if isinstance(node, (NP, EM)):
        return True
    if isinstance(node, LO):
        n = node.content.length()
        offs = node.offsets
        if len(offs) < 1:
            return False
        for i in range(len(offs) - 1):
            if offs[i] > offs[i + 1]:
                return False
            if offs[i] != offs[i + 1] and (offs[i] < 0 or offs[i + 1] > n):
                return False
        return _valid_struct(node.content)
    if isinstance(node, LA):
        n = node.content.length()
        if len(node.stops) < len(node.starts):
            return False
        for a, b in zip(node.starts, node.stops):
            if a > b:
                return False
            if a != b and (a < 0 or b > n):
                return False
        return _valid_struct(node.content)
    if isinstance(node, RG):
        if node.size < 0 or node.zeros_length < 0:
            return False
        return _valid_struct(node.content)
    if isinstance(node, (IX, IO)):
        n = node.content.length()
        for i in node.index:
            if i >= n:
                return False
            if i < 0 and isinstance(node, IX):
                return False
        if isinstance(node.content, OPTION_OR_INDEXED):
            return False
        return _valid_struct(node.content)
    if isinstance(node, BM):
        if node.content.length() < len(node.mask):
            return False
        if isinstance(node.content, OPTION_OR_INDEXED):
            return False
        return _valid_struct(node.content)
    if isinstance(node, BT):
        if node.content.length() < node.len or len(node.mask) * 8 < node.len:
            return False
        if isinstance(node.content, OPTION_OR_INDEXED):
            return False
        return _valid_struct(node.content)
    if isinstance(node, UM):
        if isinstance(node.content, OPTION_OR_INDEXED):
            return False
        return _valid_struct(node.content)
    if isinstance(node, UN):
        if len(node.index) < len(node.tags):
            return False
        for t, i in zip(node.tags, node.index):
            if t < 0 or t >= len(node.contents):
                return False
            if i < 0 or i >= node.contents[t].length():
                return False
        for c in node.contents:
            if isinstance(c, UN):
                return False
        return all(_valid_struct(c) for c in node.contents)
    if isinstance(node, RC):
        for c in node.contents:
            if c.length() < node.len:
                return False
        return all(_valid_struct(c) for c in node.contents)
    raise TypeError(node)


# ----------------------------------------------------------------------------- types and values

# type trees:  ("num", dtype) | ("list", T) | ("regular", T, size) | ("option", T) | ("record", keys|None, [T...]) | ("union", [T...])

NAMES = 0.0          # probability that a generated record type carries a name (set by the `types` family only)
CATEGORICAL = 0.0    # probability of a categorical leaf (an IndexedArray with __array__ = "categorical"), ditto


def _named(rng, T):
    if NAMES and rng.random() < NAMES:
        # (mostly plain identifiers; now and then a name that is not one -- it must be spelled out in the general form)
        return T + (rng.choice(["Pt", "Vec", "Pt", "Vec", "_q9", "x_1", "Vec[2]", "a^b", "Pair]", "9lives", "a-b", "a`b", "int64", "var", "Zz{"]),)
    return T


def gen_type(rng, depth, allow_option=True, allow_record=True, allow_union=False, leaf_dtypes=None, regular=True):
    leaf_dtypes = leaf_dtypes or ["int64", "float64", "bool", "int32", "uint8", "float32", "int16", "uint64"]
    if CATEGORICAL and depth <= 0 and allow_record and rng.random() < CATEGORICAL:
        k = rng.randint(1, 2)
        inner = rng.choice([("num", rng.choice(leaf_dtypes)), ("string", "string"),
                            _named(rng, ("record", ["x", "y"][:k], [("num", rng.choice(leaf_dtypes)) for _ in range(k)])),
                            _named(rng, ("record", None, [("num", rng.choice(leaf_dtypes)) for _ in range(k)]))])
        return ("categorical", inner)
    r = rng.random()
    if allow_option and r < 0.2:
        return ("option", gen_type(rng, depth, False, allow_record, allow_union, leaf_dtypes, regular))
    if depth <= 0:
        if allow_record and rng.random() < 0.15:
            k = rng.randint(1, 2)
            keys = None if rng.random() < 0.3 else ["x", "y", "z"][:k]
            return _named(rng, ("record", keys, [gen_type(rng, 0, True, False, False, leaf_dtypes, regular) for _ in range(k)]))
        if allow_record and rng.random() < 0.12:      # (allow_record doubles as "rich leaves allowed")
            return ("string", rng.choice(["string", "bytestring"])) if rng.random() < 0.8 else ("string", rng.choice(["string", "bytestring"]), rng.randint(0, 2))
        return ("num", rng.choice(leaf_dtypes))
    r = rng.random()
    if allow_union and r < 0.1:
        return ("union", [gen_type(rng, depth - 1, False, allow_record, False, leaf_dtypes, regular),
                          gen_type(rng, depth, False, allow_record, False, leaf_dtypes, regular)])
    if allow_record and r < 0.2:
        k = rng.randint(1, 2)
        keys = None if rng.random() < 0.3 else ["x", "y", "z"][:k]
        return _named(rng, ("record", keys, [gen_type(rng, depth - rng.randint(0, 1), True, False, allow_union, leaf_dtypes, regular) for _ in range(k)]))
    if regular and r < 0.35:
        return ("regular", gen_type(rng, depth - 1, allow_option, allow_record, allow_union, leaf_dtypes, regular), rng.randint(0, 3))
    return ("list", gen_type(rng, depth - 1, True, allow_record, allow_union, leaf_dtypes, regular))


def gen_leaf(rng, dtype, small=True):
    if dtype.startswith("complex"):
        # small half-integers; equal real parts and exact ties are frequent on purpose
        return complex(rng.randint(-2, 2) / 2.0, rng.randint(-1, 1) / 2.0)
    if dtype == "bool":
        return rng.random() < 0.5
    if dtype.startswith("float"):
        if SPECIAL_P and rng.random() < SPECIAL_P:
            return rng.choice([0.0, 0.0, float("inf"), float("-inf"), float("nan"), 1.0, -2.0])
        r = rng.random()
        if r < 0.08:
            return float("nan")
        if r < 0.12:
            return float("inf") if rng.random() < 0.5 else float("-inf")
        if r < 0.2:
            return 0.0
        return float(rng.randint(-8, 8)) / 2
    if EXTREME_P and rng.random() < EXTREME_P:
        # values at the ends of the type's range (set by the sorting families: order by the type's own comparison)
        bits = int(dtype.lstrip("uint"))
        if dtype.startswith("uint"):
            return rng.choice([0, 2 ** bits - 1, 2 ** bits - 2, 2 ** (bits - 1), 2 ** (bits - 1) - 1, 2 ** (bits - 1) + 5, 3])
        return rng.choice([-2 ** (bits - 1), 2 ** (bits - 1) - 1, -2 ** (bits - 1) + 1, 2 ** (bits - 1) - 2, -1, 0, 3])
    if dtype.startswith("uint"):
        return rng.randint(0, 9)
    return rng.randint(-5, 9)


EXTREME_P = 0.0
SPECIAL_P = 0.0     # share of floating-point leaves drawn from {0, +-inf, nan, 1, -2} (set by the reducer families)


STR_ALPHABET = "abAB z"


LONG_P = 0.03


def toplen(rng, lo, hi):
    """length of the outermost dimension: small, sometimes long (see LONG_P)"""
    n = rng.randint(lo, hi)
    if rng.random() < LONG_P:
        n = rng.randint(8, 18)
    return n


NONE_P = 0.3         # probability of a missing value at an option node (engine.generate sets it to 0 for a fifth of the cases:
                     # option-type layouts in which nothing is actually missing)


FIRST_EMPTY = False  # one-shot: the next list value generated is empty (a family sets it so that the first list of an
                     # array is empty: a range slice past it keeps a first visible offset of 0 at a non-zero view offset)


def gen_value(rng, T, maxlen=3, none_p=None):
    global FIRST_EMPTY
    if none_p is None:
        none_p = NONE_P
    k = T[0]
    if FIRST_EMPTY:
        FIRST_EMPTY = False
        if k == "list":
            return []
    if k == "num":
        return gen_leaf(rng, T[1])
    if k == "string":
        n = T[2] if len(T) > 2 and T[2] is not None else rng.randint(0, 3)
        txt = "".join(rng.choice(STR_ALPHABET) for _ in range(n))
        return txt if T[1] == "string" else txt.encode()
    if k == "list":
        n = rng.randint(0, maxlen)
        if rng.random() < LONG_P:
            n = rng.randint(8, 18)      # long enough to reach every bit position and a second mask byte
        return [gen_value(rng, T[1], maxlen, none_p) for _ in range(n)]
    if k == "regular":
        return [gen_value(rng, T[1], maxlen, none_p) for _ in range(T[2])]
    if k == "option":
        return None if rng.random() < none_p else gen_value(rng, T[1], maxlen, none_p)
    if k == "record":
        vals = [gen_value(rng, t, maxlen, none_p) for t in T[2]]
        return tuple(vals) if T[1] is None else dict(zip(T[1], vals))
    if k == "union":
        i = rng.randrange(len(T[1]))
        return gen_value(rng, T[1][i], maxlen, none_p)
    if k == "categorical":
        return gen_value(rng, T[1], maxlen, none_p)
    raise ValueError(T)


def matches(v, T):
    k = T[0]
    if k == "string":
        return isinstance(v, str) if T[1] == "string" else isinstance(v, bytes)
    if k == "num":
        if T[1] == "bool":
            return isinstance(v, bool)
        if T[1].startswith("complex"):
            return isinstance(v, complex)
        if T[1].startswith("float"):
            return isinstance(v, float)
        if not (isinstance(v, int) and not isinstance(v, bool)):
            return False
        bits = int(T[1].lstrip("uint"))
        lo, hi = (0, 2**bits - 1) if T[1].startswith("uint") else (-2**(bits - 1), 2**(bits - 1) - 1)
        return lo <= v <= hi
    if k == "list":
        return isinstance(v, list) and all(matches(x, T[1]) for x in v)
    if k == "regular":
        return isinstance(v, list) and len(v) == T[2] and all(matches(x, T[1]) for x in v)
    if k == "option":
        return v is None or matches(v, T[1])
    if k == "record":
        if T[1] is None:
            return isinstance(v, tuple) and len(v) == len(T[2]) and all(matches(x, t) for x, t in zip(v, T[2]))
        return isinstance(v, dict) and list(v.keys()) == T[1] and all(matches(v[kk], t) for kk, t in zip(T[1], T[2]))
    if k == "union":
        return any(matches(v, t) for t in T[1])
    if k == "categorical":
        return matches(v, T[1])
    return False


JUNK = {"bool": True, "float32": 77.5, "float64": 77.5, "complex64": complex(77.5, -77.5), "complex128": complex(77.5, -77.5)}


def junk(dtype):
    return JUNK.get(dtype, 99 if not dtype.startswith("int8") else 99)


class Enc:
    """encodes a list of values of element type T as a physical layout, choosing node classes, index
    widths, offset origins, unreachable regions, option encodings and NumPy strides at random.
    style: 'canonical' (ListOffsetArray64 from 0, IndexedOptionArray64, contiguous NumpyArray) or 'random'"""

    ALLOW_BITMASK = True      # class-wide switch (Engine N turns it off for one family)

    def __init__(self, rng, style="random", allow_indexed=True, allow_ndnumpy=True):
        self.rng, self.style = rng, style
        self.allow_indexed = allow_indexed
        self.allow_ndnumpy = allow_ndnumpy
        self.ndnumpy_p = 0.4

    LAST = None      # (values, T, layout) of the most recent top-level encode (used by the metamorphic C02 family)
    _depth = 0

    def encode(self, values, T, under_option=False):
        Enc._depth += 1
        try:
            lay = self._encode_top(values, T, under_option)
        finally:
            Enc._depth -= 1
        if Enc._depth == 0:
            Enc.LAST = (values, T, lay)
        return lay

    def _encode_top(self, values, T, under_option=False):
        rng = self.rng
        node = self._encode(values, T)
        if (self.style == "random" and self.allow_indexed and not under_option and T[0] != "option"
                and rng.random() < 0.15):
            # IndexedArray view: permuted storage with unreachable extras
            n = len(values)
            if n and rng.random() < 0.4:
                # dictionary style: the distinct values stored once, the index repeats them (index longer than content)
                keys, content_vals, index = {}, [], []
                for v in values:
                    kk = repr(v)
                    if kk not in keys:
                        keys[kk] = len(content_vals)
                        content_vals.append(v)
                    index.append(keys[kk])
                return IX(rng.choice(["32", "U32", "64"]), index, self._encode(content_vals, T))
            perm = list(range(n))
            rng.shuffle(perm)
            # storage order: position j of storage holds values[perm[j]]; add junk duplicates at the end
            stor = [values[p] for p in perm]
            extra = [values[rng.randrange(n)] for _ in range(rng.randint(0, 2))] if n else []
            inner = self._encode(stor + extra, T)
            index = [0] * n
            for j, p in enumerate(perm):
                index[p] = j
            return IX(rng.choice(["32", "U32", "64"]), index, inner)
        return node

    def _encode(self, values, T):
        rng, k = self.rng, T[0]
        rnd = self.style == "random"
        if k == "categorical":
            # dictionary encoding: the distinct values stored once, an IndexedArray marked categorical points at them
            keys, content_vals, index = {}, [], []
            for v in values:
                kk = repr(v)
                if kk not in keys:
                    keys[kk] = len(content_vals)
                    content_vals.append(v)
                index.append(keys[kk])
            saved, self.allow_indexed = self.allow_indexed, False
            try:
                inner = self._encode(content_vals, T[1])
            finally:
                self.allow_indexed = saved
            return IX(rng.choice(["32", "U32", "64"]) if rnd else "64", index, inner).with_params({"__array__": '"categorical"'})
        if k == "num":
            dtype = T[1]
            if rnd and rng.random() < 0.3:
                mode = rng.choice(["offset", "strided", "reversed"])
                if mode == "offset":
                    pre, post = rng.randint(0, 2), rng.randint(0, 2)
                    buf = [junk(dtype)] * pre + list(values) + [junk(dtype)] * post
                    return NP(dtype, buf, [len(values)], [1], pre)
                if mode == "strided":
                    buf = []
                    for v in values:
                        buf += [v, junk(dtype)]
                    return NP(dtype, buf, [len(values)], [2], 0)
                if mode == "reversed" and len(values) > 0:
                    buf = list(reversed(values))
                    return NP(dtype, buf, [len(values)], [-1], len(values) - 1)
            return NP(dtype, values)
        if k == "string":
            # an array of strings: a list node with __array__ = "string"/"bytestring" directly over uint8 characters
            # with __array__ = "char"/"byte" (fixed-length strings may be a RegularArray)
            raw = [v.encode("utf-8", "surrogateescape") if isinstance(v, str) else bytes(v) for v in values]
            chpar = {"__array__": '"char"' if T[1] == "string" else '"byte"'}
            stpar = {"__array__": '"string"' if T[1] == "string" else '"bytestring"'}
            n = len(raw)
            fixed = T[2] if len(T) > 2 else None
            if fixed is not None:
                flat = [b for r in raw for b in r]
                return RG(fixed, NP("uint8", flat).with_params(chpar), n if fixed == 0 else 0).with_params(stpar)
            if not rnd or rng.random() < 0.4:
                offsets, flat = [0], []
                for r in raw:
                    flat += list(r)
                    offsets.append(len(flat))
                return LO("64" if not rnd else rng.choice(["32", "U32", "64"]), offsets, NP("uint8", flat).with_params(chpar)).with_params(stpar)
            if rng.random() < 0.5:
                pre = rng.randint(1, 3)
                flat = [126] * pre
                offsets = [pre]
                for r in raw:
                    flat += list(r)
                    offsets.append(len(flat))
                flat += [126] * rng.randint(0, 2)
                return LO(rng.choice(["32", "U32", "64"]), offsets, NP("uint8", flat).with_params(chpar)).with_params(stpar)
            order = list(range(n))
            rng.shuffle(order)
            flat, starts, stops = [], [0] * n, [0] * n
            for i in order:
                flat += [126] * rng.randint(0, 1)
                starts[i] = len(flat)
                flat += list(raw[i])
                stops[i] = len(flat)
            return LA(rng.choice(["32", "U32", "64"]), starts, stops, NP("uint8", flat).with_params(chpar)).with_params(stpar)
        if k == "list" or k == "regular":
            n = len(values)
            lens = [len(v) for v in values]
            if k == "regular":
                size = T[2]
                flat = [x for v in values for x in v]
                if rnd and self.allow_ndnumpy and T[1][0] in ("num", "regular") and rng.random() < self.ndnumpy_p:
                    # multidimensional NumpyArray when everything below is regular numbers
                    shape, t = [n], T
                    while t[0] == "regular":
                        shape.append(t[2])
                        t = t[1]
                    if t[0] == "num":
                        def flatten(v, d):
                            if d == 0:
                                return [v]
                            return [y for x in v for y in flatten(x, d - 1)]
                        buf = flatten(values, len(shape))
                        return NP(t[1], buf, shape)
                if rnd and rng.random() < 0.3:
                    # regular type but variable-length node classes are a different TYPE; keep RegularArray
                    pass
                # (the length of a RegularArray is len(content) // size: an unreachable tail must be shorter than size)
                extra = self._filler(flat, T[1], rng.randint(0, size - 1)) if (rnd and size > 1 and rng.random() < 0.3) else []
                content = self.encode(flat + extra, T[1])
                return RG(size, content, n if size == 0 else 0)
            # variable-length lists
            if not rnd:
                offsets = [0]
                for l in lens:
                    offsets.append(offsets[-1] + l)
                flat = [x for v in values for x in v]
                return LO("64", offsets, self.encode(flat, T[1]))
            mode = rng.choice(["lo", "lo", "lo_shift", "la", "la_shuffle"])
            width = rng.choice(["32", "U32", "64"])
            if mode in ("lo", "lo_shift"):
                pre = rng.randint(1, 3) if mode == "lo_shift" else 0
                post = rng.randint(0, 2) if mode == "lo_shift" else 0
                fill = self._filler(values, T[1], pre + post)
                flat = fill[:pre] + [x for v in values for x in v] + fill[pre:]
                offsets = [pre]
                for l in lens:
                    offsets.append(offsets[-1] + l)
                return LO(width, offsets, self.encode(flat, T[1]))
            # ListArray: lists placed in arbitrary order with gaps; empty lists may have arbitrary equal start/stop
            order = list(range(n))
            if mode == "la_shuffle":
                rng.shuffle(order)
            flat, starts, stops = [], [0] * n, [0] * n
            placed = []
            for i in order:
                # lists may overlap: a list whose elements already lie in the content (as another list, or as the
                # head or tail of one) may point at them instead of getting its own copy
                if lens[i] > 0 and rng.random() < 0.35:
                    hit = None
                    for k_ in placed:
                        vk = values[k_]
                        if len(vk) >= lens[i]:
                            try:
                                if vk[:lens[i]] == values[i]:
                                    hit = (starts[k_], starts[k_] + lens[i])
                                elif vk[len(vk) - lens[i]:] == values[i]:
                                    hit = (stops[k_] - lens[i], stops[k_])
                            except Exception:
                                hit = None
                        if hit:
                            break
                    if hit:
                        starts[i], stops[i] = hit
                        placed.append(i)
                        continue
                gap = rng.randint(0, 1)
                flat += self._filler(values, T[1], gap)
                starts[i] = len(flat)
                flat += values[i]
                stops[i] = len(flat)
                placed.append(i)
            flat += self._filler(values, T[1], rng.randint(0, 1))
            content = self.encode(flat, T[1])
            for i in range(n):
                if lens[i] == 0 and rng.random() < 0.3:
                    # an empty list may point anywhere (documented: only checked when start != stop)
                    starts[i] = stops[i] = rng.randint(0, 5)
            if rng.random() < 0.08:
                stops = stops + [rng.randint(0, 5) for _ in range(rng.randint(1, 2))]     # (stops may be longer than starts)
            return LA(width, starts, stops, content)
        if k == "option":
            n = len(values)
            present = [v for v in values if v is not None]
            if not rnd:
                index, j = [], 0
                for v in values:
                    if v is None:
                        index.append(-1)
                    else:
                        index.append(j)
                        j += 1
                return IO("64", index, self.encode(present, T[1], under_option=True))
            modes = ["io", "io", "bm", "bt"] if Enc.ALLOW_BITMASK else ["io", "io", "bm"]
            if all(v is not None for v in values):
                modes.append("um")
            mode = rng.choice(modes)
            if mode == "um":
                return UM(self.encode(list(values), T[1], under_option=True))
            if mode == "io":
                # content in arbitrary order with unreachable extras; any negative index means missing
                stor = list(range(len(present)))
                rng.shuffle(stor)
                where = {}
                content_vals = [None] * len(present)
                for pos, j in enumerate(stor):
                    content_vals[pos] = present[j]
                    where[j] = pos
                content_vals += self._filler(present, T[1], rng.randint(0, 1)) if present else []
                index, j = [], 0
                for v in values:
                    if v is None:
                        index.append(rng.choice([-1, -1, -2, -7]))
                    else:
                        index.append(where[j])
                        j += 1
                return IO(rng.choice(["32", "64"]), index, self.encode(content_vals, T[1], under_option=True))
            # masks: content has a (junk) element under every missing position, and may be longer than the mask
            filler = self._filler(present, T[1], 1)
            if not filler:
                filler = [zero_of(T[1])]
            content_vals = [filler[0] if v is None else v for v in values]
            content_vals += [filler[0]] * rng.randint(0, 2)
            content = self.encode(content_vals, T[1], under_option=True)
            vw = rng.random() < 0.5
            if mode == "bm":
                mask = []
                for v in values:
                    isvalid = v is not None
                    if isvalid == vw:
                        mask.append(1)
                    else:
                        mask.append(0)
                return BM(vw, mask, content)
            lsb = rng.random() < 0.5
            nbytes = (n + 7) // 8 + rng.randint(0, 1)
            bits = []
            for i in range(nbytes * 8):
                if i < n:
                    bits.append(1 if ((values[i] is not None) == vw) else 0)
                else:
                    bits.append(rng.randint(0, 1))               # padding bits are arbitrary
            mask = []
            for b in range(nbytes):
                byte = 0
                for kk in range(8):
                    if bits[b * 8 + kk]:
                        byte |= (1 << kk) if lsb else (1 << (7 - kk))
                mask.append(byte)
            return BT(vw, lsb, n, mask, content)
        if k == "record":
            n = len(values)
            contents = []
            for fi, t in enumerate(T[2]):
                if T[1] is None:
                    col = [v[fi] for v in values]
                else:
                    col = [v[T[1][fi]] for v in values]
                extra = self._filler(col, t, rng.randint(0, 1)) if rnd else []
                contents.append(self.encode(col + extra, t))
            node = RC(n, T[1], contents)
            if len(T) > 3 and T[3]:
                node.with_params({"__record__": '"%s"' % T[3]})
            return node
        if k == "union":
            n = len(values)
            cols = [[] for _ in T[1]]
            tags, index = [], []
            for v in values:
                cands = [i for i, t in enumerate(T[1]) if matches(v, t)]
                t = rng.choice(cands) if rnd else cands[0]
                tags.append(t)
                index.append(len(cols[t]))
                cols[t].append(v)
            contents = [self.encode(c, t) for c, t in zip(cols, T[1])]
            return UN(rng.choice(["32", "U32", "64"]) if rnd else "64", tags, index, contents)
        raise ValueError(T)

    def _filler(self, pool, T, count):
        """count values of type T that are NOT supposed to be visible (unreachable storage)"""
        return [junk_value(T) for _ in range(count)]


def zero_of(T):
    return junk_value(T)


def junk_value(T):
    k = T[0]
    if k == "string":
        n = T[2] if len(T) > 2 and T[2] is not None else 1
        return ("~" * n) if T[1] == "string" else (b"~" * n)
    if k == "num":
        if T[1] == "bool":
            return True
        if T[1].startswith("complex"):
            return complex(77.5, -77.5)
        if T[1].startswith("float"):
            return 77.5
        return 99
    if k == "list":
        return [junk_value(T[1])]
    if k == "regular":
        return [junk_value(T[1]) for _ in range(T[2])]
    if k == "option":
        return junk_value(T[1])
    if k == "record":
        vals = [junk_value(t) for t in T[2]]
        return tuple(vals) if T[1] is None else dict(zip(T[1], vals))
    if k == "union":
        return junk_value(T[1][0])
    if k == "categorical":
        return junk_value(T[1])
    raise ValueError(T)


def same(a, b):
    """equality of nested Python values with nan == nan and exact int/float/bool type distinction relaxed to value"""
    if isinstance(a, float) and isinstance(b, float):
        return (a != a and b != b) or a == b
    if isinstance(a, bool) or isinstance(b, bool):
        return isinstance(a, bool) and isinstance(b, bool) and a == b
    if isinstance(a, (int, float)) and isinstance(b, (int, float)):
        if isinstance(a, float) and a != a:
            return isinstance(b, float) and b != b
        return a == b
    if isinstance(a, list) and isinstance(b, list):
        return len(a) == len(b) and all(same(x, y) for x, y in zip(a, b))
    if isinstance(a, tuple) and isinstance(b, tuple):
        return len(a) == len(b) and all(same(x, y) for x, y in zip(a, b))
    if isinstance(a, dict) and isinstance(b, dict):
        return list(a.keys()) == list(b.keys()) and all(same(a[k], b[k]) for k in a)
    if isinstance(a, complex) and isinstance(b, complex):
        return same(a.real, b.real) and same(a.imag, b.imag)
    return type(a) == type(b) and a == b
