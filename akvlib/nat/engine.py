"""Engine N: run-time contracts on the REAL libawkward layout classes, checked on a bounded,
seeded input space (a BOUNDED stand-in: never counted as proved).

Each family states a postcondition of one Content method over the abstract value of the
layouts (the nested Python value ak.to_list would show, layouts.tolist), taken from the property
text; the native driver (/verif/native/driver.cpp) links the working tree's libawkward + kernels
and evaluates the real method; the contract is then checked on the observed result.  Every case
additionally asserts, where a layout is returned, that it passes validityerror (C11), that the
input layouts are byte-for-byte unchanged and that the result is still the same after its inputs
are dropped (C12), and that the call neither crashed nor hung (C12)."""
import json, os, random, re, time

from . import layouts as L, refops as R, run as nrun, forthref as FR

VERIF = os.path.normpath(os.path.join(os.path.dirname(os.path.abspath(__file__)), "..", ".."))


class Case:
    __slots__ = ("line", "check", "info", "family", "id")

    def __init__(self, line, check, info):
        self.line, self.check, self.info = line, check, info


def loose(a, b):
    """value equality of nested results: numbers by value (True == 1, 2 == 2.0), nan == nan"""
    if a is None or b is None:
        return a is None and b is None
    if isinstance(a, list) or isinstance(b, list):
        return isinstance(a, list) and isinstance(b, list) and len(a) == len(b) and all(loose(x, y) for x, y in zip(a, b))
    if isinstance(a, tuple) or isinstance(b, tuple):
        return isinstance(a, tuple) and isinstance(b, tuple) and len(a) == len(b) and all(loose(x, y) for x, y in zip(a, b))
    if isinstance(a, dict) or isinstance(b, dict):
        return (isinstance(a, dict) and isinstance(b, dict) and list(a.keys()) == list(b.keys())
                and all(loose(a[k], b[k]) for k in a))
    if isinstance(a, complex) or isinstance(b, complex):
        # part by part (nan == nan)
        if isinstance(a, (str, bytes)) or isinstance(b, (str, bytes)):
            return False
        ca, cb = complex(a), complex(b)
        return loose(ca.real, cb.real) and loose(ca.imag, cb.imag)
    if isinstance(a, float) and a != a:
        return isinstance(b, float) and b != b
    if isinstance(b, float) and b != b:
        return False
    if isinstance(a, (str, bytes)) or isinstance(b, (str, bytes)):
        return type(a) == type(b) and a == b
    return a == b


def loose_cleared(a, b):
    """like loose, for values appended after ArrayBuilder.clear: the type knowledge of the cleared values is kept, so a
    record may carry fields only earlier (cleared or abandoned) records had -- all None -- and the order of the fields
    is the order in which the builder first saw them"""
    if isinstance(a, dict) and isinstance(b, dict):
        return (all(k in a for k in b) and all(a[k] is None for k in a if k not in b)
                and all(loose_cleared(a[k], b[k]) for k in b))
    if isinstance(a, list) and isinstance(b, list):
        return len(a) == len(b) and all(loose_cleared(x, y) for x, y in zip(a, b))
    if isinstance(a, tuple) and isinstance(b, tuple):
        return len(a) == len(b) and all(loose_cleared(x, y) for x, y in zip(a, b))
    if isinstance(a, (dict, list, tuple)) or isinstance(b, (dict, list, tuple)):
        return False
    return loose(a, b)


def loose_open(a, b):
    """like loose, for a snapshot taken while a value is still open: the open record may already have added a
    field to the shared record type, which completed records then show as None"""
    if isinstance(a, dict) and isinstance(b, dict):
        extra = [k for k in a if k not in b]
        return ([k for k in a if k in b] == list(b.keys()) and all(a[k] is None for k in extra)
                and all(loose_open(a[k], b[k]) for k in b))
    if isinstance(a, list) and isinstance(b, list):
        return len(a) == len(b) and all(loose_open(x, y) for x, y in zip(a, b))
    if isinstance(a, tuple) and isinstance(b, tuple):
        return len(a) == len(b) and all(loose_open(x, y) for x, y in zip(a, b))
    if isinstance(a, (dict, list, tuple)) or isinstance(b, (dict, list, tuple)):
        return False
    return loose(a, b)


# a check returns None or (category, text); category decides which property the failure belongs to:
#   value -> the family's own properties, validity -> C11, purity/crash -> C12
def loose_unordered(a, b):
    """like loose, but records compare by field name (storage order of fields not significant)"""
    if isinstance(a, dict) and isinstance(b, dict):
        return sorted(a) == sorted(b) and all(loose_unordered(a[k], b[k]) for k in a)
    if isinstance(a, list) and isinstance(b, list):
        return len(a) == len(b) and all(loose_unordered(x, y) for x, y in zip(a, b))
    if isinstance(a, tuple) and isinstance(b, tuple):
        return len(a) == len(b) and all(loose_unordered(x, y) for x, y in zip(a, b))
    if isinstance(a, (dict, list, tuple)) or isinstance(b, (dict, list, tuple)):
        return False
    return loose(a, b)


def expect_value(ref, what="result", cmp=loose, want_valid=True):
    def check(r):
        if r.status != "OK":
            return ("value", "%s: library %s (%s %s) where the property defines the value %r" % (what, r.status, r.exc or "", r.msg[:200], ref))
        if not cmp(r.value, ref):
            return ("value", "%s: library returned %s, the property requires %r" % (what, r.raw[:600], ref))
        return common_checks(r, want_valid)
    return check


def common_checks(r, want_valid=True):
    if want_valid and r.validity not in (None, "", "-"):
        return ("validity", "the layout returned for a valid input fails the validity check: %s" % r.validity[:300])
    if r.pure == 0:
        return ("purity", "an input layout was modified by the call")
    if r.pure == 2:
        return ("purity", "the result changed after its inputs were dropped")
    if r.pure == 3:
        return ("value", "a VirtualArray input answers depth queries (purelist_depth, minmax_depth, branch_depth) differently from the array its generator hands out")
    return None


# --------------------------------------------------------------------------------------------- type generators

LEAF_ALL = ["int64", "float64", "bool", "int32", "uint8", "float32", "int8", "uint64", "int16", "uint16", "uint32"]


def gen_pure(rng, depth, optleaf=0.3, optlist=0.2, regular=0.0, size0=True, leaf=None, leafrec=0.0, union=0.0):
    """type with `depth` list levels below the array: lists / options / numbers only (leafrec: records of numbers as leaves;
    union: at most one union node, of two members with the same list depth that cannot be merged -- numbers against records)"""
    if union and rng.random() < union:
        return ("union", [gen_pure(rng, depth, optleaf, optlist, regular, size0, leaf, 0.0),
                          gen_pure(rng, depth, optleaf, optlist, regular, size0, leaf, 1.0)])
    if depth == 0:
        if rng.random() < leafrec:
            k = rng.randint(1, 2)
            keys = None if rng.random() < 0.3 else ["x", "y"][:k]
            T = ("record", keys, [gen_pure(rng, 0, optleaf, 0, 0, size0, leaf, 0.0) for _ in range(k)])
        else:
            T = ("num", rng.choice(leaf or LEAF_ALL))
        return ("option", T) if rng.random() < optleaf else T
    inner = gen_pure(rng, depth - 1, optleaf, optlist, regular, size0, leaf, leafrec, union)
    if rng.random() < regular:
        T = ("regular", inner, rng.randint(0 if size0 else 1, 3))
    else:
        T = ("list", inner)
    return ("option", T) if rng.random() < optlist else T


def gen_rect(rng, depth, optleaf=0.3, size0=True, leaf=None):
    T = ("num", rng.choice(leaf or LEAF_ALL))
    if rng.random() < optleaf:
        T = ("option", T)
    for _ in range(depth):
        T = ("regular", T, rng.randint(0 if size0 else 1, 3))
    return T


def has_option_list(T):
    while True:
        if T[0] == "option":
            if T[1][0] in ("list", "regular"):
                return True
            T = T[1]
        elif T[0] in ("list", "regular"):
            T = T[1]
        else:
            return False


# --------------------------------------------------------------------------------------------- families

REDUCERS = ["count", "count_nonzero", "sum", "prod", "any", "all", "min", "max", "argmin", "argmax"]


def reducer_dtype(red, dtype):
    """element type of a reducer's result (NumPy's conventions on this platform)"""
    if red in ("count", "count_nonzero", "argmin", "argmax"):
        return "int64"
    if red in ("any", "all"):
        return "bool"
    if red in ("min", "max"):
        return dtype
    if dtype.startswith("float") or dtype.startswith("complex"):
        return dtype
    return "uint64" if dtype.startswith("uint") else "int64"


def expect_reduce(ref, what, red, dtype):
    inner = expect_value(ref, what)
    want = reducer_dtype(red, dtype)

    def check(r):
        bad = inner(r)
        if bad:
            return bad
        if r.extra and r.extra != want:
            return ("value", "%s: result element type %s, NumPy's convention gives %s" % (what, r.extra, want))
        return None
    return check


def fam_reduce_ragged(rng):
    """C03 on ragged arrays.  argmin/argmax are driven only along the innermost axis, or the axis above it when
    no list level is optional and no IndexedArray sits in between (known findings KF-C03-argpos-*)"""
    T = gen_pure(rng, rng.randint(0, 3), leaf=(["complex128", "complex128", "complex64"] if rng.random() < 0.2 else None))
    depth, dtype = R.list_depth(T)
    red = rng.choice(REDUCERS)
    if rng.random() < 0.08:
        # positions along the outer axis of ragged lists whose leaves are option-type (half of the time with nothing
        # actually missing): the case where shifts are handed down through an option node
        T = ("list", ("option", ("num", rng.choice(LEAF_ALL))))
        depth, dtype = R.list_depth(T)
        red = rng.choice(["argmin", "argmax"])
        if rng.random() < 0.5:
            L.NONE_P = 0.0
    special = False
    if rng.random() < 0.06:
        # sums and products over zeros, infinities and NaN in every order (0 * inf, inf - inf): the fold must take every
        # element of the group, in element order
        T = gen_pure(rng, rng.randint(1, 2), leaf=["float64", "float64", "float32"])
        depth, dtype = R.list_depth(T)
        red = rng.choice(["prod", "prod", "sum"])
        special = True
    if dtype == "complex64" and red == "prod":
        return None          # (products of float32 pairs are not exact for the generated values)
    # (min / max / argmin / argmax: now and then values at the ends of the integer type's range)
    L.EXTREME_P = 0.3 if (red in ("min", "max", "argmin", "argmax") and rng.random() < 0.2) else 0.0
    L.SPECIAL_P = 0.7 if special else 0.0
    try:
        vals = [L.gen_value(rng, T) for _ in range(L.toplen(rng, 0, 4))]
    finally:
        L.EXTREME_P = 0.0
        L.SPECIAL_P = 0.0
    isarg = red in ("argmin", "argmax")
    if red in ("min", "max", "argmin", "argmax") and "nan" in repr(vals):
        return None
    axis = rng.randint(-depth, depth - 1)
    if T == ("list", ("option", T[1][1])) and T[1][0] == "option" and red in ("argmin", "argmax") and depth == 2 and rng.random() < 0.8:
        axis = rng.choice([0, -2])
    posaxis = axis + depth if axis < 0 else axis
    allow_indexed = True
    if isarg:
        if posaxis < depth - 2:
            return None
        if posaxis == depth - 2:
            if has_option_list(T):
                return None
            allow_indexed = False
    lay = L.Enc(rng, allow_indexed=allow_indexed).encode(vals, T)
    mask, keep = rng.random() < 0.4, rng.random() < 0.3
    if dtype.startswith("complex") and red in ("min", "max"):
        mask = True          # (the identity of a complex minimum / maximum is not defined by the property)
    ref = R.reduce_typed(vals, T, axis, red, mask, keep)
    line = "reduce %s %d %d %d %s" % (red, axis, mask, keep, lay.tokens())
    return Case(line, expect_reduce(ref, "%s(axis=%d, mask_identity=%s, keepdims=%s) of %r" % (red, axis, mask, keep, vals), red, dtype),
                {"value": vals, "type": T})


def fam_reduce_datetime(rng):
    """C03 on datetime64 / timedelta64 leaves: min, max, argmin, argmax, count over instants (and sum of time
    differences) combine exactly the elements of each group; results of min/max/sum keep the unit"""
    kind = rng.choice(["M8", "m8"])
    unit = rng.choice(["s", "ms", "us"])
    ns = {"s": 10**9, "ms": 10**6, "us": 10**3}[unit]
    T = gen_pure(rng, rng.randint(0, 2), leaf=["int64"])
    depth, _ = R.list_depth(T)
    red = rng.choice(["min", "max", "argmin", "argmax", "count"] + (["sum"] if kind == "m8" else []))
    vals = [L.gen_value(rng, T) for _ in range(L.toplen(rng, 0, 4))]
    axis = rng.randint(-depth, depth - 1)
    posaxis = axis + depth if axis < 0 else axis
    allow_indexed = True
    if red in ("argmin", "argmax"):
        if posaxis < depth - 2:
            return None
        if posaxis == depth - 2:
            if has_option_list(T):
                return None
            allow_indexed = False
    T2 = _retype_leaf(T, "%s[%s]" % (kind, unit))
    lay = L.Enc(rng, allow_indexed=allow_indexed).encode(vals, T2)
    keep = rng.random() < 0.3
    mask = True if red in ("min", "max") else (rng.random() < 0.4)      # (no identity is defined for instants)
    ref = R.reduce_typed(vals, T, axis, red, mask, keep)
    tag = "dt" if kind == "M8" else "td"

    def wrap(v):
        if v is None:
            return None
        if isinstance(v, list):
            return [wrap(e) for e in v]
        return (tag, v * ns)
    if red in ("min", "max", "sum"):
        ref = wrap(ref)
    line = "reduce %s %d %d %d %s" % (red, axis, mask, keep, lay.tokens())
    return Case(line, expect_value(ref, "%s(axis=%d, mask_identity=%s, keepdims=%s) of the %s[%s] ticks %r" % (red, axis, mask, keep, kind, unit, vals), cmp=L.same),
                {"value": vals, "type": T})


def fam_reduce_rect(rng):
    """C03 on rectilinear arrays (RegularArray chains and n-dimensional NumpyArray): NumPy's result, every reducer and axis"""
    T = gen_rect(rng, rng.randint(0, 3), leaf=(["complex128", "complex64"] if rng.random() < 0.1 else None))
    depth, dtype = R.list_depth(T)
    red = rng.choice(REDUCERS)
    if dtype == "complex64" and red == "prod":
        return None
    vals = [L.gen_value(rng, T) for _ in range(L.toplen(rng, 0, 4))]
    if red in ("min", "max", "argmin", "argmax") and "nan" in repr(vals):
        return None
    axis = rng.randint(-depth, depth - 1)
    lay = L.Enc(rng).encode(vals, T)
    mask, keep = rng.random() < 0.4, rng.random() < 0.3
    if dtype.startswith("complex") and red in ("min", "max"):
        mask = True
    ref = R.reduce_typed(vals, T, axis, red, mask, keep)
    line = "reduce %s %d %d %d %s" % (red, axis, mask, keep, lay.tokens())
    return Case(line, expect_reduce(ref, "%s(axis=%d, mask_identity=%s, keepdims=%s) of %r" % (red, axis, mask, keep, vals), red, dtype),
                {"value": vals, "type": T})


def fam_tolist(rng):
    """C02 base: every physical encoding of a value reads back as that value (length, getitem_at, fields, scalars)"""
    T = L.gen_type(rng, rng.randint(0, 3), allow_union=True,
                   leaf_dtypes=(["complex128", "complex64", "int64", "float64"] if rng.random() < 0.1 else None))
    vals = [L.gen_value(rng, T) for _ in range(L.toplen(rng, 0, 4))]
    lay = L.Enc(rng).encode(vals, T)
    return Case("tolist " + lay.tokens(), expect_value(vals, "to_list", cmp=L.same, want_valid=False), {"value": vals, "type": T})


def fam_valid_accept(rng):
    """C11 (no false error): a layout obeying every documented rule passes the validity check"""
    T = L.gen_type(rng, rng.randint(0, 3), allow_union=True)
    vals = [L.gen_value(rng, T) for _ in range(L.toplen(rng, 0, 4))]
    lay = L.Enc(rng).encode(vals, T)
    assert L.valid(lay)

    def check(r):
        if r.status != "OK":
            return ("value", "validity check %s (%s %s) on a layout that obeys every rule" % (r.status, r.exc or "", r.msg[:200]))
        if r.value != "":
            return ("value", "validity check reports %r for a layout that obeys every documented rule" % r.extra[:300])
        return common_checks(r, False)
    return Case("validity " + lay.tokens(), check, {"value": vals, "type": T})


def struct_depth(T):
    """number of list levels (the array itself is level 1) of a list/regular/option type, leaves opaque"""
    d = 1
    while True:
        if T[0] == "option":
            T = T[1]
        elif T[0] in ("list", "regular"):
            d += 1
            T = T[1]
        elif T[0] == "union":
            T = T[1][0]          # (gen_pure: all members have the same list depth)
        else:
            return d


def has_record(T):
    if T[0] == "record":
        return True
    if T[0] == "union":
        return any(has_record(t) for t in T[1])
    if T[0] in ("list", "regular", "option"):
        return has_record(T[1])
    return False


STRUCT_UNION = 0.06      # per level


def _struct_case(rng, regular=0.25, maxdepth=3):
    T = gen_pure(rng, rng.randint(0, maxdepth), regular=regular, leafrec=0.2, union=STRUCT_UNION)
    vals = [L.gen_value(rng, T) for _ in range(L.toplen(rng, 0, 4))]
    lay = L.Enc(rng).encode(vals, T)
    return T, vals, lay, struct_depth(T)


def _axis(rng, T, depth, lo=0):
    """an axis in [lo, depth-1], written negatively half of the time (never negatively across records, where a
    negative axis is resolved per field)"""
    posaxis = rng.randint(lo, depth - 1)
    if rng.random() < 0.5 and not has_record(T):
        return posaxis - depth, posaxis
    return posaxis, posaxis


def fam_num(rng):
    """C05: num(axis) equals the lengths of the lists at that level; missing lists stay missing"""
    T, vals, lay, depth = _struct_case(rng)
    if has_record(T) and depth == 1:
        return None      # num of an array of records is resolved per field (a record of counts)
    axis, posaxis = _axis(rng, T, depth)
    ref = R.num(vals, posaxis)
    return Case("num %d %s" % (axis, lay.tokens()), expect_value(ref, "num(axis=%d) of %r" % (axis, vals)), {"value": vals, "type": T})


def fam_flatten(rng):
    """C05: flatten(axis >= 1) concatenates, in order, the lists at that level; a missing list contributes nothing"""
    if rng.random() < 0.2:
        # a union of list types at the top (its contents are flattened separately and recombined)
        members = [("list", ("num", "int64")), ("regular", ("num", "float64"), rng.randint(0, 2)),
                   ("list", ("option", ("num", "int32"))), ("list", ("list", ("num", "bool")))]
        rng.shuffle(members)
        T = ("union", members[:rng.randint(2, 3)])
        vals = [L.gen_value(rng, T) for _ in range(L.toplen(rng, 0, 5))]
        lay = L.Enc(rng).encode(vals, T)
        ref = R.flatten(vals, 1)
        return Case("flatten 1 %s" % lay.tokens(), expect_value(ref, "flatten(axis=1) of the union array %r" % (vals,)), {"value": vals, "type": T})
    T, vals, lay, depth = _struct_case(rng)
    if depth < 2:
        return None
    axis, posaxis = _axis(rng, T, depth, 1)
    ref = R.flatten(vals, posaxis)
    return Case("flatten %d %s" % (axis, lay.tokens()), expect_value(ref, "flatten(axis=%d) of %r" % (axis, vals)), {"value": vals, "type": T})


def fam_localindex(rng):
    """C05: local_index(axis) is 0..n-1 inside every list at that level"""
    T, vals, lay, depth = _struct_case(rng)
    axis, posaxis = _axis(rng, T, depth)
    ref = R.localindex(vals, posaxis)
    return Case("localindex %d %s" % (axis, lay.tokens()), expect_value(ref, "local_index(axis=%d) of %r" % (axis, vals)), {"value": vals, "type": T})


def fam_rpad(rng):
    """C09: pad_none(target, axis, clip) gives every list at that axis length max(len, target) (exactly target with clip) by appending None"""
    T, vals, lay, depth = _struct_case(rng)
    axis, posaxis = _axis(rng, T, depth)
    target, clip = rng.randint(0, 5), rng.random() < 0.5
    ref = R.rpad(vals, target, posaxis, clip)
    return Case("rpad %d %d %d %s" % (target, axis, clip, lay.tokens()),
                expect_value(ref, "pad_none(target=%d, axis=%d, clip=%s) of %r" % (target, axis, clip, vals)), {"value": vals, "type": T})


def fam_combinations(rng):
    """C07: combinations(n, replacement, axis) yields per list exactly the itertools tuples, in order"""
    if rng.random() < 0.02:
        # many elements per tuple, with replacement, out of very short lists: few tuples, but the count C(len+n-1, n)
        # is computed through large intermediate products
        T = ("list", ("num", rng.choice(["int64", "int32"])))
        vals = [L.gen_value(rng, T, maxlen=rng.choice([1, 2, 3])) for _ in range(rng.randint(1, 3))]
        vals = [v[:3] for v in vals]
        lay = L.Enc(rng).encode(vals, T)
        n = rng.choice([20, 35, 40, 59, 60, 62, 64])
        ref = R.combinations(vals, n, True, 1)
        return Case("combinations %d 1 1 %s" % (n, lay.tokens()),
                    expect_value(ref, "combinations(n=%d, replacement=True, axis=1) of %r" % (n, vals), cmp=L.same), {"value": vals, "type": T})
    T, vals, lay, depth = _struct_case(rng, maxdepth=2)
    axis, posaxis = _axis(rng, T, depth)
    n, repl = rng.randint(1, 4), rng.random() < 0.4
    ref = R.combinations(vals, n, repl, posaxis)
    return Case("combinations %d %d %d %s" % (n, repl, axis, lay.tokens()),
                expect_value(ref, "combinations(n=%d, replacement=%s, axis=%d) of %r" % (n, repl, axis, vals), cmp=L.same), {"value": vals, "type": T})


def fam_through_record(rng):
    """C05/C07/C09: an operation at an axis below a record array is applied inside every field: num, local_index,
    combinations and pad_none at axis >= 1 of an array of records whose fields are lists give a record of the
    per-field results (the record array itself: right number of records, fields in order)"""
    k = rng.randint(1, 3)
    keys = ["x", "y", "z"][:k]
    d = rng.randint(1, 2)
    subT = [gen_pure(rng, rng.randint(d, 2), optlist=0.15) for _ in keys]
    if any(t[0] == "option" for t in subT):
        subT = [t[1] if t[0] == "option" else t for t in subT]
    istuple = rng.random() < 0.25
    T = ("record", None if istuple else keys, subT)
    vals = [L.gen_value(rng, T) for _ in range(L.toplen(rng, 0, 4))]
    lay = L.Enc(rng).encode(vals, T)
    axis = rng.randint(1, d)
    # (sort and reducers below a top-level record array give a Record of arrays, not an array of records -- DESIGN 6.3:
    # the per-field values are right, the container is not what the property's "every other level" describes; not driven)
    op = rng.choice(["num", "localindex", "combinations", "rpad", "flatten"])
    if op == "flatten":
        # flatten below the records: every field has two list levels, the inner one is merged into the outer one
        subT = [gen_pure(rng, 2, optlist=0.15) for _ in keys]
        subT = [t[1] if t[0] == "option" else t for t in subT]
        T = ("record", None if istuple else keys, subT)
        vals = [L.gen_value(rng, T) for _ in range(L.toplen(rng, 0, 4))]
        lay = L.Enc(rng).encode(vals, T)
        axis = 2
    n, repl = rng.randint(1, 3), rng.random() < 0.4
    target, clip = rng.randint(0, 4), rng.random() < 0.5
    asc, stable = rng.random() < 0.5, rng.random() < 0.5
    red, mask = rng.choice(["sum", "count", "max", "any", "min"]), rng.random() < 0.4
    if op in ("sort", "reduce"):
        # (along the innermost axis: fields with exactly one list level, axis 1)
        subT = [("list", ("option", ("num", dt)) if rng.random() < 0.3 else ("num", dt))
                for dt in [rng.choice(["int64", "float64", "int32", "uint8", "bool"]) for _ in keys]]
        T = ("record", keys, subT)
        vals = [L.gen_value(rng, T) for _ in range(L.toplen(rng, 0, 4))]
        if "nan" in repr(vals):
            return None
        lay = L.Enc(rng).encode(vals, T)
        axis = 1

    def one(fv):
        if op == "num":
            return R.num(fv, axis)
        if op == "localindex":
            return R.localindex(fv, axis)
        if op == "combinations":
            return R.combinations(fv, n, repl, axis)
        if op == "sort":
            return R.sort(fv, axis, asc)
        if op == "reduce":
            return R.reduce_typed(fv, fT, axis, red, mask, False)
        if op == "flatten":
            return R.flatten(fv, axis)
        return R.rpad(fv, target, axis, clip)
    try:
        per = {}
        for jj, (kk, fT) in enumerate(zip(keys, subT)):
            per[kk] = one([(v[jj] if istuple else v[kk]) for v in vals])
    except R.Refuse:
        return None
    ref = [(tuple(per[kk][i] for kk in keys) if istuple else {kk: per[kk][i] for kk in keys}) for i in range(len(vals))]
    line = {"num": "num %d" % axis, "localindex": "localindex %d" % axis,
            "combinations": "combinations %d %d %d" % (n, repl, axis), "rpad": "rpad %d %d %d" % (target, axis, clip),
            "sort": "sort %d %d %d" % (axis, asc, stable), "reduce": "reduce %s %d %d 0" % (red, axis, mask),
            "flatten": "flatten %d" % axis}[op]
    return Case("%s %s" % (line, lay.tokens()),
                expect_value(ref, "%s at axis=%d inside the fields of %r" % (op, axis, vals), cmp=(L.same if op == "combinations" else loose)),
                {"value": vals, "type": T})


def _string_sort_case(rng):
    """lists of strings / bytestrings (1 or 2 list levels above the strings)"""
    kind = rng.choice(["string", "bytestring"])
    T = ("list", ("string", kind))
    if rng.random() < 0.3:
        T = ("list", T)
    vals = [L.gen_value(rng, T, maxlen=4) for _ in range(L.toplen(rng, 0, 4))]
    lay = L.Enc(rng, allow_indexed=False).encode(vals, T)
    return T, vals, lay


def _bytes_key(v):
    return v.encode("utf-8", "surrogateescape") if isinstance(v, str) else bytes(v)


def _sort_strings(x, depth, asc):
    if depth == 0:
        return sorted(x, key=_bytes_key, reverse=not asc)
    return [_sort_strings(e, depth - 1, asc) for e in x]


SORT_OPTLIST = 0.0
SORT_OPTLEAF = 0.3


def fam_sort(rng):
    """C06: sort(axis) orders every list along the axis (NaN first, missing last) and leaves every other level untouched;
    missing values at the leaves, missing lists at the outermost level only (deeper: KF-C06-sort-missing-lists); lists of strings sort the strings as whole units by bytes"""
    if rng.random() < 0.15:
        T, vals, lay = _string_sort_case(rng)
        asc, stable = rng.random() < 0.5, rng.random() < 0.5
        depth = struct_depth(T) - 1        # list levels above the strings, the array included
        ref = _sort_strings(vals, depth, asc)
        return Case("sort -1 %d %d %s" % (asc, stable, lay.tokens()),
                    expect_value(ref, "sort(axis=-1, ascending=%s) of the strings %r" % (asc, vals), cmp=L.same), {"value": vals, "type": T})
    dt = False          # (sorting datetime64 / timedelta64 is a documented refusal in this version: not generated)
    T = gen_pure(rng, rng.randint(0, 3), regular=0.0, optlist=SORT_OPTLIST, optleaf=SORT_OPTLEAF, leaf=(["int64"] if dt else None))
    if T[0] == "list" and rng.random() < 0.3:
        T = ("option", T)      # missing lists at the outermost level only (deeper ones: KF-C06-sort-missing-lists)
    L.EXTREME_P = 0.3 if rng.random() < 0.25 else 0.0
    try:
        vals = [L.gen_value(rng, T) for _ in range(L.toplen(rng, 0, 4))]
    finally:
        L.EXTREME_P = 0.0
    if dt:
        kind, unit = rng.choice(["M8", "m8"]), rng.choice(["s", "ms", "us"])
        lay = L.Enc(rng).encode(vals, _retype_leaf(T, "%s[%s]" % (kind, unit)))
    else:
        lay = L.Enc(rng).encode(vals, T)
    depth = struct_depth(T)
    posaxis = depth - 1
    axis = posaxis if rng.random() < 0.5 else -1
    asc, stable = rng.random() < 0.5, rng.random() < 0.5
    ref = R.sort(vals, posaxis, asc)
    if dt:
        ns_ = {"s": 10**9, "ms": 10**6, "us": 10**3}[unit]

        def wrap_(v):
            if v is None:
                return None
            if isinstance(v, list):
                return [wrap_(e) for e in v]
            return ("dt" if kind == "M8" else "td", v * ns_)
        ref = wrap_(ref)
        return Case("sort %d %d %d %s" % (axis, asc, stable, lay.tokens()),
                    expect_value(ref, "sort(axis=%d, ascending=%s, stable=%s) of the %s[%s] ticks %r" % (axis, asc, stable, kind, unit, vals), cmp=L.same),
                    {"value": vals, "type": T})
    return Case("sort %d %d %d %s" % (axis, asc, stable, lay.tokens()),
                expect_value(ref, "sort(axis=%d, ascending=%s, stable=%s) of %r" % (axis, asc, stable, vals)), {"value": vals, "type": T})


def fam_argsort(rng):
    """C06: argsort(axis) returns, per list, positions that realise the sorted order (stable: ties in original order);
    missing values at the leaves only and at least one present leaf (KF-C06-*); strings are compared as whole units"""
    if rng.random() < 0.15:
        T, vals, lay = _string_sort_case(rng)
        asc, stable = rng.random() < 0.5, rng.random() < 0.5
        depth = struct_depth(T) - 1

        def okstr(got, orig, d):
            if d == 0:
                if not (isinstance(got, list) and sorted(got) == list(range(len(orig)))):
                    return False
                taken = [_bytes_key(orig[p]) for p in got]
                want = sorted((_bytes_key(v) for v in orig), reverse=not asc)
                if taken != want:
                    return False
                if stable:
                    return all(not (taken[i] == taken[i + 1] and got[i] > got[i + 1]) for i in range(len(got) - 1))
                return True
            return isinstance(got, list) and len(got) == len(orig) and all(okstr(g, o, d - 1) for g, o in zip(got, orig))

        def checks(r):
            if r.status != "OK":
                return ("value", "argsort of strings: library %s (%s %s)" % (r.status, r.exc or "", r.msg[:200]))
            if not okstr(r.value, vals, depth):
                return ("value", "argsort(axis=-1, ascending=%s, stable=%s) of the strings %r: library returned %s, which does not realise the sorted order" % (asc, stable, vals, r.raw[:400]))
            return common_checks(r)
        return Case("argsort -1 %d %d %s" % (asc, stable, lay.tokens()), checks, {"value": vals, "type": T})
    T = gen_pure(rng, rng.randint(0, 3), regular=0.0, optlist=SORT_OPTLIST, optleaf=SORT_OPTLEAF)
    L.EXTREME_P = 0.3 if rng.random() < 0.25 else 0.0
    try:
        vals = [L.gen_value(rng, T) for _ in range(L.toplen(rng, 0, 4))]
    finally:
        L.EXTREME_P = 0.0
    if "None" in repr(vals) and not any(ch.isdigit() or ch in "TF" for ch in repr(vals).replace("None", "")):
        return None
    lay = L.Enc(rng).encode(vals, T)
    depth = struct_depth(T)
    posaxis = depth - 1
    axis = posaxis if rng.random() < 0.5 else -1
    asc, stable = rng.random() < 0.5, rng.random() < 0.5

    def ok(got, orig, d):
        if d == 0:
            if not isinstance(got, list):
                return False
            # positions of missing values may be rendered as None by the library: they must come last
            npresent = sum(1 for v in orig if v is not None)
            pos = got[:npresent]
            rest = got[npresent:]
            if any(p is None for p in pos):
                return False
            missing_pos = [i for i, v in enumerate(orig) if v is None]
            if all(p is None for p in rest):
                full = pos + missing_pos
            else:
                full = got
            if len(full) != len(orig) or any(not isinstance(p, int) for p in full):
                return False
            return R.is_sorted_realisation(orig, full, asc, stable)
        if not isinstance(got, list) or len(got) != len(orig):
            return False
        return all((g is None and o is None) or (g is not None and o is not None and ok(g, o, d - 1)) for g, o in zip(got, orig))

    def check(r):
        if r.status != "OK":
            return ("value", "argsort: library %s (%s %s)" % (r.status, r.exc or "", r.msg[:200]))
        if not ok(r.value, vals, posaxis):
            return ("value", "argsort(axis=%d, ascending=%s, stable=%s) of %r: library returned %s, which does not realise the sorted order" % (axis, asc, stable, vals, r.raw[:400]))
        return common_checks(r)
    return Case("argsort %d %d %d %s" % (axis, asc, stable, lay.tokens()), check, {"value": vals, "type": T})


def fam_carry_range(rng):
    """C02/C01 base: carry(index) selects x[i] for each i; getitem_range(a, b) is Python's x[a:b]; getitem_at(i) is x[i]"""
    T = L.gen_type(rng, rng.randint(0, 2), allow_union=True)
    vals = [L.gen_value(rng, T) for _ in range(L.toplen(rng, 0, 5))]
    lay = L.Enc(rng).encode(vals, T)
    n = len(vals)
    k = rng.random()
    if k < 0.35 and n > 0:
        idx = [rng.randrange(n) for _ in range(rng.randint(0, 6))]
        return Case("carry %d %s %s" % (len(idx), " ".join(map(str, idx)), lay.tokens()) if idx else "carry 0 %s" % lay.tokens(),
                    expect_value([vals[i] for i in idx], "carry(%r) of %r" % (idx, vals), cmp=L.same), {"value": vals})
    if k < 0.7:
        a = rng.choice([None] + list(range(-n - 2, n + 3)))
        b = rng.choice([None] + list(range(-n - 2, n + 3)))
        return Case("getitem_range %s %s %s" % ("_" if a is None else a, "_" if b is None else b, lay.tokens()),
                    expect_value(vals[a:b], "x[%r:%r] of %r" % (a, b, vals), cmp=L.same), {"value": vals})
    i = rng.randint(-n - 1, n)
    if -n <= i < n:
        return Case("getitem_at %d %s" % (i, lay.tokens()), expect_value(vals[i], "x[%d] of %r" % (i, vals), cmp=L.same, want_valid=False), {"value": vals})

    def check(r):
        if r.status == "EXC":
            return None
        return ("value", "x[%d] on an array of length %d must raise an index error, library: %s" % (i, n, r))
    return Case("getitem_at %d %s" % (i, lay.tokens()), check, {"value": vals})


def _tok_item(it):
    k = it[0]
    if k == "at":
        return "at %d" % it[1]
    if k == "rng":
        return "rng %s %s %s" % tuple("_" if x is None else x for x in it[1:4])
    if k == "ell":
        return "ell"
    if k == "new":
        return "new"
    if k == "fld":
        return "fld %s" % it[1]
    if k == "flds":
        return "flds %d %s" % (len(it[1]), " ".join(it[1]))
    if k == "arr":
        frombool = it[3] if len(it) > 3 else 0
        return "arr %d %d %s %s" % (frombool, len(it[2]), " ".join(map(str, it[2])), " ".join(map(str, it[1])))
    if k == "miss":
        idx, vals, j = [], [], 0
        for i in it[1]:
            if i is None:
                idx.append(-1)
            else:
                idx.append(len(vals))
                vals.append(i)
        return "lay " + L.IO("64", idx, L.NP("int64", vals)).tokens()
    if k == "lay":
        return "lay " + it[1].tokens()
    raise ValueError(it)


def slice_tokens(items):
    return "%d %s" % (len(items), " ".join(_tok_item(it) for it in items))


def expect_getitem(x, T, items, what):
    try:
        ref = R.getitem(x, T, items)
    except R.IndexErr as e:
        msg = str(e)

        def check(r):
            if r.status == "EXC":
                return None
            return ("value", "%s: %s, so the library must raise; it returned %s" % (what, msg, r))
        return check
    except R.Refuse:
        return None
    inner = expect_value(ref, what, cmp=L.same)
    if R.regular_out_of_range(T, items):
        # NumPy raises for an index beyond a fixed-size dimension even if nothing is selected: either is right
        def check2(r):
            return None if r.status == "EXC" else inner(r)
        return check2
    return inner


def _rand_range(rng, n):
    def b():
        return rng.choice([None, None] + list(range(-n - 2, n + 3)))
    step = rng.choice([None, None, 1, 1, 2, 3, -1, -1, -2, -3])
    return ("rng", b(), b(), step)


def fam_getitem_basic(rng):
    """C01: integers, ranges with any bounds and step, ellipsis, newaxis and field names select what Python/NumPy
    indexing selects level by level (out-of-range integers raise)"""
    usefld = rng.random() < 0.3
    T = gen_pure(rng, rng.randint(0, 3), regular=0.25, leafrec=1.0 if usefld else 0.0)
    vals = [L.gen_value(rng, T) for _ in range(L.toplen(rng, 0, 4))]
    lay = L.Enc(rng).encode(vals, T)
    levels = R._levels(("list", T))
    items = []
    ncons = rng.randint(0, levels)
    lens = [len(vals)]
    for i in range(ncons):
        if rng.random() < 0.4:
            items.append(("at", rng.randint(-3, 3)))
        else:
            items.append(_rand_range(rng, 3))
    if rng.random() < 0.25:
        items.insert(rng.randint(0, len(items)), ("ell",))
    for _ in range(rng.choice([0, 0, 0, 1, 2])):
        items.insert(rng.randint(0, len(items)), ("new",))
    if usefld:
        leaf = T
        while leaf[0] in ("list", "regular", "option"):
            leaf = leaf[1]
        if leaf[0] == "record":
            key = rng.choice(leaf[1]) if leaf[1] is not None else str(rng.randrange(len(leaf[2])))
            items.insert(rng.randint(0, len(items)), ("fld", key))
    if not items:
        return None
    chk = expect_getitem(vals, T, items, "x[%r] of %r" % (items, vals))
    if chk is None:
        return None
    return Case("getitem %s %s" % (slice_tokens(items), lay.tokens()), chk, {"value": vals, "type": T})


def fam_getitem_array(rng):
    """C01: integer arrays (one or two adjacent, one- or two-dimensional, negative entries) and boolean arrays, mixed
    with integers and ranges, select NumPy-style: the first array creates the new dimension(s), adjacent arrays iterate
    together; index arrays containing missing values give missing results.  Arrays without missing LISTS
    (KF-C01-advanced-with-missing-lists), no empty index array after another item (KF-C01-empty-index-array)"""
    T = gen_pure(rng, rng.randint(0, 3), regular=0.25, optlist=0.0)
    n = rng.randint(1, 4)
    vals = [L.gen_value(rng, T) for _ in range(n)]
    kind = rng.choice(["int", "int", "int2", "bool", "miss", "miss"])
    # (an index array with missing values below the first dimension of an n-dimensional NumpyArray is an explicit
    #  "FIXME: unhandled case" RuntimeError in the library: such layouts are not generated for kind == miss)
    lay = L.Enc(rng, allow_ndnumpy=(kind != "miss")).encode(vals, T)
    levels = R._levels(("list", T))
    pre = []
    if rng.random() < 0.3 and levels >= 2:
        pre = [_rand_range(rng, 3) if rng.random() < 0.7 else ("at", rng.randint(-2, 2))]
    remaining = levels - len(pre)
    if remaining < 1:
        return None
    shape = [rng.randint(0, 4)] if rng.random() < 0.75 else [rng.randint(1, 2), rng.randint(0, 3)]
    if rng.random() < 0.08:
        # three-dimensional index arrays (without an empty dimension: an index array of shape (2, 3, 0) comes back as []
        # instead of [[[], [], []], [[], [], []]] -- the wrapping of the result only restores one empty level; DESIGN 6.3)
        shape = [rng.randint(1, 2), rng.randint(1, 3), rng.randint(1, 3)]
    flatlen = 1
    for d in shape:
        flatlen *= d
    arrs = []
    if kind == "miss":
        arrs = [("miss", [None if rng.random() < 0.3 else rng.randint(-2, 2) for _ in range(rng.randint(0, 4))])]
    elif kind == "bool":
        if pre:
            return None
        mask = [rng.random() < 0.5 for _ in range(n)]
        nz = [i for i, m in enumerate(mask) if m]
        arrs = [("arr", nz, [len(nz)], 1)]
    else:
        narr = 2 if (kind == "int2" and remaining >= 2) else 1
        for _ in range(narr):
            arrs.append(("arr", [rng.randint(-2, 2) for _ in range(flatlen)], shape))
    post = []
    left = remaining - len(arrs)
    if left > 0 and rng.random() < 0.4 and kind != "miss":
        post = [_rand_range(rng, 3) if rng.random() < 0.6 else ("at", rng.randint(-2, 2))]
    if pre and flatlen == 0 and kind != "miss":
        return None      # KF-C01-empty-index-array
    if pre and kind == "miss":
        # KF-C01-empty-index-array also covers index arrays with missing values: nothing selected before it, or an
        # empty index array, loses the outer dimension or raises
        if len(arrs[0][1]) == 0:
            return None
        nsel = len(vals[slice(pre[0][1], pre[0][2], pre[0][3])]) if pre[0][0] == "rng" else 1
        if nsel == 0:
            return None
    items = pre + arrs + post
    chk = expect_getitem(vals, T, items, "x[%r] of %r" % (items, vals))
    if chk is None:
        return None
    return Case("getitem %s %s" % (slice_tokens(items), lay.tokens()), chk, {"value": vals, "type": T})


def _gen_jagged(rng, v, depth, boolean, none_p, row_p=0.0, top=True):
    """a jagged index matching the list structure of v down `depth` levels, then int/bool leaves into the next level;
    none_p: missing leaves; row_p: whole rows of the index missing (below the outermost level)"""
    if v is None:
        return None if rng.random() < 0.5 else []
    if not top and row_p and rng.random() < row_p:
        return None
    if depth == 0:
        # (a record at this level: the index goes on into every field, so it must fit the shortest of them)
        n = min([len(f) for f in v.values() if f is not None] or [0]) if isinstance(v, dict) else len(v)
        if boolean:
            return [None if rng.random() < none_p else (rng.random() < 0.5) for _ in range(n)]
        return [None if rng.random() < none_p else (rng.randint(-n, n - 1) if n else 0) for _ in range(rng.randint(0, 3) if n else 0)]
    # (missing rows only among the rows of the index array itself; deeper ones: KF-C01-jagged-missing-rows-nested)
    return [_gen_jagged(rng, e, depth - 1, boolean, none_p, row_p if top else 0.0, False) for e in v]


def _jag_type(depth, boolean, none_p, row_p=0.0):
    T = ("num", "bool" if boolean else "int64")
    if none_p > 0:
        T = ("option", T)
    T = ("list", T)
    for _ in range(depth):
        T = ("list", T)
    if row_p:
        T = ("option", T)
    return T


def fam_getitem_jagged(rng):
    """C01: a jagged integer or boolean array (optionally with missing entries) selects list by list"""
    T = gen_pure(rng, rng.randint(1, 3), regular=0.0, optlist=0.0, leafrec=0.25)
    through = rng.random() < 0.1
    if through:
        # lists of records whose fields are lists: a doubly jagged index passes through the record into every field
        keys = ["x", "y"][:rng.randint(1, 2)]
        T = ("list", ("record", keys, [("list", gen_pure(rng, 0, optlist=0.0)) for _ in keys]))
    vals = [L.gen_value(rng, T) for _ in range(L.toplen(rng, 0, 4))]
    lay = L.Enc(rng).encode(vals, T)
    levels = R._levels(("list", T))
    depth = rng.randint(1, levels - 1) if levels >= 2 else None
    if through:
        depth = 2
    if depth is None:
        return None
    boolean = rng.random() < 0.35 and not through
    none_p = 0.0 if rng.random() < 0.6 else 0.25         # missing entries inside the rows (integers and booleans)
    # whole rows of the index missing: one-level jagged indexes only (KF-C01-jagged-missing-rows-nested)
    row_p = 0.2 if (depth == 1 and rng.random() < 0.4) else 0.0
    J = _gen_jagged(rng, vals, depth, boolean, none_p, row_p)
    JT = _jag_type(depth - 1, boolean, none_p, row_p)     # element type of the index array J (a list of ...)
    # J is a list (the array) of values of type: depth-1 more list levels, then the int/bool list
    # (the index array itself in any physical encoding, half of the time)
    jl = (L.Enc(rng, style="canonical") if rng.random() < 0.5 else L.Enc(rng, allow_ndnumpy=False)).encode(J, JT)
    try:
        ref = R.jagged(vals, J)
    except R.IndexErr:
        return None
    except R.Refuse:
        return None
    what = "x[jagged %r] of %r" % (J, vals)
    return Case("getitem 1 lay %s %s" % (jl.tokens(), lay.tokens()), expect_value(ref, what, cmp=L.same), {"value": vals, "type": T})


def fam_getitem_numpy(rng):
    """C01: on rectilinear arrays (RegularArray chains / n-dimensional NumpyArray) every accepted index expression
    gives NumPy's own result (oracle: numpy itself): integers, ranges, ellipsis, newaxis, adjacent integer arrays
    (broadcast together), boolean arrays of one or two dimensions"""
    import numpy as np
    ndim = rng.randint(1, 3)
    shape = [rng.randint(0, 3) for _ in range(ndim)]
    dtype = rng.choice(["int64", "float64", "int32", "bool", "uint8"])
    total = 1
    for d in shape:
        total *= d
    flat = [L.gen_leaf(rng, dtype) for _ in range(total)]
    if dtype.startswith("float"):
        flat = [0.0 if x != x else x for x in flat]
    a = np.array(flat, dtype=dtype).reshape(shape)
    T = ("num", dtype)
    for d in reversed(shape[1:]):
        T = ("regular", T, d)
    vals = a.tolist()
    lay = L.Enc(rng).encode(vals, T) if shape[0] > 0 or ndim == 1 else L.NP(dtype, flat, shape)
    items, npitems = [], []
    kind = rng.choice(["basic", "arr", "arr", "bool"])
    dim = 0
    if kind == "bool":
        bd = 1 if ndim == 1 or rng.random() < 0.6 else 2
        bshape = shape[:bd]
        btotal = 1
        for d in bshape:
            btotal *= d
        mask = np.array([rng.random() < 0.5 for _ in range(btotal)], dtype=bool).reshape(bshape)
        nz = np.nonzero(mask)
        for comp in nz:
            items.append(("arr", [int(i) for i in comp], [len(comp)], 1))
        npitems.append(mask)
        dim = bd
    elif kind == "arr":
        while dim < ndim and rng.random() < 0.4:
            it = _rand_range(rng, 3)
            items.append(it)
            npitems.append(slice(it[1], it[2], it[3]))
            dim += 1
        if dim >= ndim:
            return None
        ashape = [rng.randint(1, 3)] if rng.random() < 0.7 else [rng.randint(1, 2), rng.randint(1, 2)]
        if rng.random() < 0.1:
            ashape = [rng.randint(1, 2), rng.randint(2, 3), rng.randint(1, 3)]      # three-dimensional index arrays
        at = 1
        for d in ashape:
            at *= d
        narr = 1 if (ndim - dim < 2 or rng.random() < 0.5) else 2
        for _ in range(narr):
            size = shape[dim]
            fl = [rng.randint(-size, size - 1) if size else rng.randint(-1, 1) for _ in range(at)]
            items.append(("arr", fl, ashape))
            npitems.append(np.array(fl, dtype=np.int64).reshape(ashape))
            dim += 1
    seen_range = False
    while dim < ndim and rng.random() < 0.6:
        # (an integer after array, range is "advanced indexes separated by basic indexes": documented refusal)
        if rng.random() < 0.35 and not (kind != "basic" and seen_range):
            size = shape[dim]
            i = rng.randint(-size - 1, size)
            items.append(("at", i))
            npitems.append(i)
        else:
            it = _rand_range(rng, 3)
            items.append(it)
            npitems.append(slice(it[1], it[2], it[3]))
            seen_range = True
        dim += 1
    if kind == "basic":
        if rng.random() < 0.3:
            pos = rng.randint(0, len(items))
            items.insert(pos, ("ell",))
            npitems.insert(pos, Ellipsis)
        for _ in range(rng.choice([0, 0, 1, 2])):
            pos = rng.randint(0, len(items))
            items.insert(pos, ("new",))
            npitems.insert(pos, None)
    if not items:
        return None
    what = "x[%r] of numpy array %r" % (items, vals)
    try:
        ref = a[tuple(npitems)]
        ref = ref.tolist()
    except IndexError as e:
        msg = str(e)
        # NumPy checks fixed-size dimensions even when nothing is selected; selecting level by level there is
        # nothing to be out of range: both outcomes are accepted in that case
        alt = None
        try:
            alt = (R.getitem(vals, T, items),)
        except (R.IndexErr, R.Refuse):
            pass

        def check(r):
            if r.status == "EXC":
                return None
            if alt is not None and r.status == "OK" and L.same(r.value, alt[0]):
                return None
            return ("value", "%s: NumPy raises IndexError (%s); the library returned %s" % (what, msg, r))
        return Case("getitem %s %s" % (slice_tokens(items), lay.tokens()), check, {"value": vals})
    return Case("getitem %s %s" % (slice_tokens(items), lay.tokens()), expect_value(ref, what, cmp=L.same), {"value": vals})


PROMOTE_ORDER = ["bool", "int8", "uint8", "int16", "uint16", "int32", "uint32", "int64", "uint64", "float32", "float64"]


def _retype_leaf(T, dtype):
    if T[0] == "num":
        return ("num", dtype)
    if T[0] in ("list", "option"):
        return (T[0], _retype_leaf(T[1], dtype))
    if T[0] == "regular":
        return ("regular", _retype_leaf(T[1], dtype), T[2])
    return T


def fam_concat(rng):
    """C08: concatenation along axis 0 (composed as ak.concatenate does: mergeable / mergemany / merge_as_union /
    simplify) yields the elements of the first array followed by those of the others, each unchanged as a value;
    numeric leaves are promoted as numpy.concatenate promotes them"""
    import numpy as np
    if rng.random() < 0.08:
        # datetimes / time differences stored in different units: every element keeps its instant (the result takes the
        # finest unit among the inputs); flat or as the content of lists
        kind = rng.choice(["M8", "m8"])
        ns = {"s": 10**9, "ms": 10**6, "us": 10**3}
        arrays, lays = [], []
        nested = rng.random() < 0.4
        for _ in range(rng.randint(2, 3)):
            unit = rng.choice(["s", "ms", "us", "s"])
            if nested:
                ticks = [[rng.randint(-9, 9) for _ in range(rng.randint(0, 3))] for _ in range(rng.randint(0, 3))]
                flat = [t for row in ticks for t in row]
                offs = [0]
                for row in ticks:
                    offs.append(offs[-1] + len(row))
                lays.append(L.LO(rng.choice(["32", "64"]), offs, L.NP("%s[%s]" % (kind, unit), flat)))
                arrays.append([[("dt" if kind == "M8" else "td", t * ns[unit]) for t in row] for row in ticks])
            else:
                ticks = [rng.randint(-9, 9) for _ in range(rng.randint(0, 4))]
                lays.append(L.NP("%s[%s]" % (kind, unit), ticks))
                arrays.append([("dt" if kind == "M8" else "td", t * ns[unit]) for t in ticks])
        ref = [v for a in arrays for v in a]
        return Case("concat 1 1 %d %s" % (len(lays), " ".join(l.tokens() for l in lays)),
                    expect_value(ref, "concatenate(%r)" % (arrays,), cmp=L.same, want_valid=True), {"value": ref})
    k = rng.randint(2, 3)
    mode = rng.choice(["same", "same", "numeric", "numeric", "different", "rect"])
    T0 = gen_pure(rng, rng.randint(0, 2), regular=0.15, leafrec=0.0 if mode == "numeric" else 0.15)
    if mode == "rect":
        # blocks of one rectilinear shape (n, a, b[, c]): n-dimensional NumpyArrays most of the time
        T0 = gen_rect(rng, rng.randint(1, 3), optleaf=0.0, size0=False)
    Ts = [T0]
    for _ in range(k - 1):
        if mode == "rect":
            Ts.append(_retype_leaf(T0, rng.choice(LEAF_ALL)) if rng.random() < 0.5 else T0)
        elif mode == "same":
            Ts.append(T0)
        elif mode == "numeric":
            Ts.append(_retype_leaf(T0, rng.choice(LEAF_ALL)))      # (no complex leaves: KF-C08-real-with-complex-merge)
        else:
            Ts.append(gen_pure(rng, rng.randint(0, 2), regular=0.15, leafrec=0.15))
    def has_option(t):
        if t[0] == "option":
            return True
        if t[0] in ("list", "regular"):
            return has_option(t[1])
        if t[0] == "record":
            return any(has_option(x) for x in t[2])
        return False

    def permute_fields(t):
        """the same record type with its fields stored in another order (same set of names)"""
        if t[0] == "record" and t[1] is not None and len(t[1]) > 1:
            order = list(range(len(t[1])))
            rng.shuffle(order)
            return ("record", [t[1][i] for i in order], [t[2][i] for i in order])
        if t[0] in ("list", "option"):
            return (t[0], permute_fields(t[1]))
        if t[0] == "regular":
            return ("regular", permute_fields(t[1]), t[2])
        return t
    arrays, lays = [], []
    named = rng.random() < 0.25
    for T in Ts:
        vals = [L.gen_value(rng, T) for _ in range(L.toplen(rng, 0, 3))]
        arrays.append(vals)
        TT = permute_fields(T) if (mode == "same" and rng.random() < 0.5) else T
        vv = vals
        if TT is not T:
            def reorder(v, t):
                if v is None:
                    return None
                if t[0] == "record":
                    return {k: reorder(v[k], tt) for k, tt in zip(t[1], t[2])} if t[1] is not None else v
                if t[0] in ("list", "regular"):
                    return [reorder(e, t[1]) for e in v]
                if t[0] == "option":
                    return reorder(v, t[1])
                return v
            vv = [reorder(v, TT) for v in vals]
        enc = L.Enc(rng)
        if mode == "rect":
            enc.ndnumpy_p = 0.85
        lay_ = enc.encode(vv, TT)
        if named:
            # record names are part of the type: same name merges, different names give a union; values are unaffected
            nm = rng.choice(['"A"', '"A"', '"B"', None])
            if nm:
                for nd in _nodes(lay_):
                    if isinstance(nd, L.RC):
                        nd.with_params({"__record__": nm})
        lays.append(lay_)
    ref = [v for a in arrays for v in a]      # (dict values compare by key set and values; order of the first array)
    mergebool = rng.random() < 0.5
    what = "concatenate(%r)" % (arrays,)
    leafs = []
    for T in Ts:
        t = T
        while t[0] in ("list", "regular", "option"):
            t = t[1]
        leafs.append(t[1] if t[0] == "num" else None)
    want_dtype = None
    if k == 2 and mode == "numeric" and all(l is not None for l in leafs) and struct_depth(T0) == 1 and T0[0] == "num":
        nonbool = [l for l in leafs if l != "bool"]
        if (len(nonbool) == len(leafs)) or (mergebool and nonbool):
            want_dtype = str(np.result_type(*[np.dtype(l) for l in leafs]))
        elif not nonbool:
            want_dtype = "bool"
    inner = expect_value(ref, what, cmp=loose_unordered)

    def check(r):
        bad = inner(r)
        if bad:
            return bad
        if want_dtype is not None and r.extra.startswith("NumpyArray:") and r.extra != "NumpyArray:" + want_dtype:
            return ("value", "%s: result dtype %s, numpy.concatenate promotes %r to %s" % (what, r.extra, leafs, want_dtype))
        return None
    return Case("concat 1 %d %d %s" % (mergebool, k, " ".join(l.tokens() for l in lays)), check, {"value": arrays})


def fam_astype(rng):
    """C08: values_astype (numbers_to_type) changes no value beyond NumPy's own numeric cast of each leaf (oracle:
    numpy.astype) and leaves lists, missing values and lengths untouched"""
    import numpy as np
    T = gen_pure(rng, rng.randint(0, 2), regular=0.2, leaf=(["complex128", "complex64"] if rng.random() < 0.1 else None))
    vals = [L.gen_value(rng, T) for _ in range(L.toplen(rng, 0, 4))]
    lay = L.Enc(rng).encode(vals, T)
    to = rng.choice(LEAF_ALL + ["complex128", "complex64"])
    if ("nan" in repr(vals) or "inf" in repr(vals)) and not (to == "bool" or to.startswith("float") or to.startswith("complex")):
        return None          # (NaN and infinities have no defined integer value; to bool they are True, to float themselves)
    leaf = T
    while leaf[0] in ("list", "regular", "option"):
        leaf = leaf[1]
    frm = leaf[1]
    if frm.startswith("complex") and to == "bool":
        return None          # KF-C08-astype-complex-to-bool

    def cast(v):
        if v is None:
            return None
        if isinstance(v, list):
            return [cast(e) for e in v]
        import warnings
        with np.errstate(all="ignore"), warnings.catch_warnings():
            warnings.simplefilter("ignore")
            return np.array([v], dtype=frm).astype(to).tolist()[0]
    ref = cast(vals)
    return Case("numbers_to_type %s %s" % (to, lay.tokens()), expect_value(ref, "values_astype(%r, %s)" % (vals, to)), {"value": vals})


def fam_simplify_union(rng):
    """C08: simplifying a union type (merging its mergeable contents) changes no element's value"""
    members = [("num", "int64"), ("num", "float64"), ("num", "bool"), ("list", ("num", "int32")), ("list", ("num", "float64")),
               ("option", ("num", "int64")), ("list", ("list", ("num", "uint8")))]
    rng.shuffle(members)
    T = ("union", members[:rng.randint(2, 3)])
    vals = [L.gen_value(rng, T) for _ in range(L.toplen(rng, 0, 6))]
    lay = L.Enc(rng).encode(vals, T)
    if not isinstance(lay, L.UN):
        return None
    if len(lay.contents) == 3 and rng.random() < 0.5:
        # a union nested in a union (what concatenation builds before simplifying): two of the three contents are
        # grouped into an inner union, placed first or second
        a, b, c = rng.sample(range(3), 3)
        cb, cc = lay.contents[b], lay.contents[c]
        inner = L.UN(rng.choice(["32", "U32", "64"]), [0] * cb.length() + [1] * cc.length(),
                     list(range(cb.length())) + list(range(cc.length())), [cb, cc])
        first = rng.random() < 0.5
        pos_inner, pos_a = (0, 1) if first else (1, 0)
        tags, index = [], []
        for t, i in zip(lay.tags, lay.index):
            if t == a:
                tags.append(pos_a); index.append(i)
            elif t == b:
                tags.append(pos_inner); index.append(i)
            else:
                tags.append(pos_inner); index.append(cb.length() + i)
        lay = L.UN(lay.width, tags, index, [inner, lay.contents[a]] if first else [lay.contents[a], inner])
    mergebool = rng.random() < 0.5
    return Case("convert simplify_uniontype 1 %d %s" % (mergebool, lay.tokens()),
                expect_value(vals, "simplify_uniontype(merge=True, mergebool=%s) of %r" % (mergebool, vals)), {"value": vals})


def fam_fields(rng):
    """C10/C01: projecting one field or a list of fields keeps the records' order and values; a list of fields keeps
    exactly those fields in the requested order"""
    k = rng.randint(1, 3)
    keys = ["x", "y", "z"][:k]
    leafT = ("record", keys, [gen_pure(rng, rng.randint(0, 1), optlist=0.0) for _ in range(k)])
    mixed = rng.random() < 0.12
    if mixed:
        # records of two types that share the field "x" (numbers of possibly different kinds): projecting "x" makes
        # the two branches mergeable, so the projection may collapse the union
        other = rng.choice(["y", "z"])
        r1 = ("record", ["x", other], [("num", rng.choice(["int64", "float64", "int32"])), gen_pure(rng, rng.randint(0, 1), optlist=0.0)])
        k2 = ["x", "w"] if rng.random() < 0.5 else ["w", "x"]
        t2 = {"x": ("num", rng.choice(["int64", "float64"])), "w": gen_pure(rng, rng.randint(0, 1), optlist=0.0)}
        r2 = ("record", k2, [t2[kk] for kk in k2])
        leafT = ("union", [r1, r2])
        keys = ["x"]
    T = leafT
    for _ in range(rng.randint(0, 2)):
        T = ("list", T) if rng.random() < 0.7 else ("option", ("list", T))
    if rng.random() < (0.6 if mixed else 0.3):
        T = ("option", T) if T[0] != "option" else T
    vals = [L.gen_value(rng, T) for _ in range(L.toplen(rng, 0 if not mixed else 2, 4))]
    lay = L.Enc(rng).encode(vals, T)
    if mixed and rng.random() < 0.5:
        return Case("getitem_field x %s" % lay.tokens(),
                    expect_value(R.project(vals, "x"), "x['x'] of %r" % (vals,), cmp=L.same),
                    {"value": vals, "mixed": True})
    if rng.random() < 0.5 and not mixed:
        key = rng.choice(keys)
        inner = expect_value(R.project(vals, key), "x[%r] of %r" % (key, vals), cmp=L.same)
        Tp = R._project_type(T, key)
        wmin, wmax = _depth_range(Tp)
        wb, wd = _branch_depth(Tp)

        def check(r):
            bad = inner(r)
            if bad:
                return bad
            try:
                pd, mn, mx, b, d = [int(x) for x in r.extra.split()]
            except ValueError:
                return ("value", "depth queries on the projected field not reported: %r" % r.extra)
            if (pd, mn, mx, bool(b), d) != (wmin, wmin, wmax, wb, wd):
                return ("value", "the field %r projected out of %r (field type %r) answers depth queries (purelist %d, minmax %r, branch %r), the values have depth %r, branch %r"
                        % (key, vals, Tp, pd, (mn, mx), (bool(b), d), (wmin, wmax), (wb, wd)))
            return None
        return Case("getitem_field %s %s" % (key, lay.tokens()), check, {"value": vals})
    sel = [kk for kk in keys if rng.random() < 0.7] or [keys[0]]
    rng.shuffle(sel)

    def proj(v):
        if v is None:
            return None
        if isinstance(v, dict):
            return {kk: v[kk] for kk in sel}
        return [proj(e) for e in v]
    return Case("getitem_fields %d %s %s" % (len(sel), " ".join(sel), lay.tokens()),
                expect_value(proj(vals), "x[%r] of %r" % (sel, vals), cmp=L.same), {"value": vals, "mixed": mixed})


def fam_broadcast(rng):
    """C04 (the list-alignment step of broadcasting): broadcast_tooffsets64 onto offsets with the same list lengths keeps
    the value; a length-1 regular dimension repeats its element to the requested lengths; different lengths raise"""
    inner = gen_pure(rng, rng.randint(0, 1), regular=0.2)
    size1 = rng.random() < 0.4
    T = ("regular", inner, 1) if size1 else (("regular", inner, rng.choice([0, 2, 3])) if rng.random() < 0.3 else ("list", inner))
    vals = [L.gen_value(rng, T) for _ in range(L.toplen(rng, 0, 4))]
    lay = L.Enc(rng, allow_indexed=False, allow_ndnumpy=False).encode(vals, T)
    if not isinstance(lay, (L.LO, L.LA, L.RG)):
        return None
    lens = [len(v) for v in vals]
    mode = rng.choice(["same", "same", "repeat" if size1 else "same", "mismatch"])
    if mode == "same":
        counts, ref = lens, vals
    elif mode == "repeat":
        counts = [rng.randint(0, 3) for _ in vals]
        ref = [[v[0]] * c for v, c in zip(vals, counts)]
    else:
        if not vals:
            return None
        counts = list(lens)
        k = rng.randrange(len(vals))
        counts[k] += rng.choice([1, 2])
        if size1:
            return None
        ref = None
    offs = [0]
    for c in counts:
        offs.append(offs[-1] + c)
    line = "convert broadcast_tooffsets64 %d %s %s" % (len(offs), " ".join(map(str, offs)), lay.tokens())
    if ref is None:
        def check(r):
            return None if r.status == "EXC" else ("value", "broadcasting lists of lengths %r to lengths %r must raise: %s" % (lens, counts, r))
        return Case(line, check, {"value": vals})
    return Case(line, expect_value(ref, "broadcast_tooffsets64(%r) of %r" % (offs, vals), cmp=L.same), {"value": vals})


def fam_fillna(rng):
    """C09: fill_none replaces exactly the None values at the top level by the given value and changes nothing else;
    is_none (bytemask) is True exactly at the None positions"""
    T = gen_pure(rng, rng.randint(0, 2), regular=0.15, optleaf=0.3, union=0.05)
    T = ("option", T[1] if T[0] == "option" else T)
    OT = T
    # the chosen level may lie below list levels (variable or fixed size, size 0 included): Content::fillna descends
    # through them to the first option level of every path and changes nothing else
    above = rng.choice([0, 0, 0, 1, 1, 2])
    for _ in range(above):
        T = ("regular", T, rng.randint(0, 3)) if rng.random() < 0.4 else ("list", T)
    vals = [L.gen_value(rng, T) for _ in range(L.toplen(rng, 0, 5))]
    lay = L.Enc(rng).encode(vals, T)
    if isinstance(lay, (L.IX, L.UM)):      # UM: KF-C09-fillna-unmasked-recurses
        return None
    if above and "um " in (" " + lay.tokens() + " "):
        return None
    fill = L.gen_value(rng, OT[1], none_p=0.0)
    fl = L.Enc(rng, style="canonical").encode([fill], OT[1])

    def filled(v, d):
        if d == 0:
            return fill if v is None else v
        return [filled(e, d - 1) for e in v]
    ref = [filled(v, above) for v in vals]
    return Case("fillna %s %s" % (fl.tokens(), lay.tokens()), expect_value(ref, "fill_none(%r, %r)" % (vals, fill)), {"value": vals})


LAYOUT_SUBFAMILIES = ["reduce_ragged", "reduce_rect", "num", "flatten", "localindex", "rpad", "combinations", "sort", "argsort",
                      "getitem_basic", "carry_range", "astype", "fields", "fillna"]


def fam_layout_independent(rng):
    """C02 (metamorphic): the same operation on two physical layouts of one value -- a random one and the compact
    canonical one (ListOffsetArray64 from 0, IndexedOptionArray64, contiguous NumpyArray) -- gives equal values and the
    same success-or-error outcome"""
    sub = rng.choice(LAYOUT_SUBFAMILIES)
    L.Enc.LAST = None
    inner = None
    for _ in range(10):
        inner = FAMILIES[sub][0](rng)
        if inner is not None:
            break
    if inner is None or L.Enc.LAST is None:
        return None
    vals, T, lay = L.Enc.LAST
    tok = lay.tokens()
    if not inner.line.endswith(tok):
        return None
    canon = L.Enc(rng, style="canonical").encode(vals, T)
    lineA = inner.line
    lineB = inner.line[:len(inner.line) - len(tok)] + canon.tokens()
    what = "`%s` on %r" % (inner.line[:len(inner.line) - len(tok)].strip(), vals)

    def norm(v):
        return v

    def check(r):
        if r.status != "OK":
            return ("value", "%s: %s" % (what, r))
        a, b = r.value
        ea, eb = isinstance(a, nrun._E), isinstance(b, nrun._E)
        if ea != eb:
            return ("value", "%s: the random layout %s, the compact copy %s" % (what, "raises " + a if ea else "gives %r" % (a,), "raises " + b if eb else "gives %r" % (b,)))
        if not ea and not loose_unordered(a, b):
            return ("value", "%s: the random layout gives %r, the compact copy of the same value gives %r" % (what, a, b))
        return None
    return Case("both %d %s %s" % (len(lineA.split()), lineA, lineB), check, {"value": vals, "type": T})


IDENTIFIER = re.compile(r"^[A-Za-z_][A-Za-z_0-9]*$")
DATASHAPE_KEYWORDS = {"var", "option", "bool", "int8", "int16", "int32", "int64", "int128", "uint8", "uint16", "uint32", "uint64",
                      "uint128", "float16", "float32", "float64", "float128", "decimal32", "decimal64", "decimal128", "bignum",
                      "int", "real", "complex", "intptr", "uintptr", "string", "char", "bytes", "date", "json", "void",
                      "datetime", "categorical", "pointer"}


def ref_type(T, categorical=False):
    """the documented (datashape-like) item type of an array whose elements have type T"""
    k = T[0]
    if k == "num":
        return T[1]
    if k == "string":
        return "string" if T[1] == "string" else "bytes"      # (fixed-length strings print the same way in 1.4.0)
    if k == "list":
        return "var * " + ref_type(T[1])
    if k == "regular":
        return "%d * %s" % (T[2], ref_type(T[1]))
    if k == "option":
        inner = ref_type(T[1])
        # (strings are list types: their option prints with brackets)
        base = T[1][1] if T[1][0] == "categorical" else T[1]      # (a categorical string is still a list type)
        return "option[%s]" % inner if base[0] in ("list", "regular", "string") else "?" + inner
    if k == "record":
        name = T[3] if len(T) > 3 else None
        if name and not categorical and IDENTIFIER.match(name) and name not in DATASHAPE_KEYWORDS:
            # a named record: Name["x": t, ...] / Name[t, ...]
            if T[1] is None:
                return name + "[" + ", ".join(ref_type(t) for t in T[2]) + "]"
            return name + "[" + ", ".join('"%s": %s' % (kk, ref_type(t)) for kk, t in zip(T[1], T[2])) + "]"
        if name:
            # a name together with another parameter (here: categorical) is spelled out in the general form
            if T[1] is None:
                return 'tuple[[%s], parameters={"__record__": "%s"}]' % (", ".join(ref_type(t) for t in T[2]), name)
            return 'struct[[%s], [%s], parameters={"__record__": "%s"}]' % (", ".join('"%s"' % kk for kk in T[1]), ", ".join(ref_type(t) for t in T[2]), name)
        if T[1] is None:
            return "(" + ", ".join(ref_type(t) for t in T[2]) + ")"
        return "{" + ", ".join('"%s": %s' % (kk, ref_type(t)) for kk, t in zip(T[1], T[2])) + "}"
    if k == "union":
        return "union[" + ", ".join(ref_type(t) for t in T[1]) + "]"
    if k == "categorical":
        return "categorical[type=%s]" % ref_type(T[1], categorical=True)
    raise ValueError(T)


def _depth_range(T):
    """(min, max) number of list levels down to the leaves, the array itself counted as one"""
    k = T[0]
    if k in ("num",):
        return 1, 1
    if k == "string":
        return 1, 1
    if k in ("list", "regular"):
        a, b = _depth_range(T[1])
        return a + 1, b + 1
    if k in ("option", "categorical"):
        return _depth_range(T[1])
    if k == "record":
        rs = [_depth_range(t) for t in T[2]] or [(1, 1)]
        return min(r[0] for r in rs), max(r[1] for r in rs)
    if k == "union":
        rs = [_depth_range(t) for t in T[1]]
        return min(r[0] for r in rs), max(r[1] for r in rs)
    raise ValueError(T)


def _branch_depth(T):
    """(does the depth branch?, minimum depth) as Content::branch_depth documents it"""
    k = T[0]
    if k in ("num", "string"):
        return False, 1
    if k in ("list", "regular"):
        b, d = _branch_depth(T[1])
        return b, d + 1
    if k in ("option", "categorical"):
        return _branch_depth(T[1])
    subs = [_branch_depth(t) for t in (T[2] if k == "record" else T[1])]
    if not subs:
        return False, 1
    anybranch = any(b for b, _ in subs) or len({d for _, d in subs}) > 1
    return anybranch, min(d for _, d in subs)


def fam_types(rng):
    """C17: the item type of an array is what its data are (documented type syntax), the type obtained from the form
    equals the type obtained from the array, a range slice has the same type, an element taken out of a list-typed array
    has the inner type, and depth / field queries agree with the value"""
    L.NAMES, L.CATEGORICAL = 0.3, 0.12       # record names and categorical leaves: in this family only
    try:
        T = L.gen_type(rng, rng.randint(0, 3), allow_union=True)
    finally:
        L.NAMES, L.CATEGORICAL = 0.0, 0.0
    vals = [L.gen_value(rng, T) for _ in range(L.toplen(rng, 0, 4))]
    lay = L.Enc(rng).encode(vals, T)
    n = len(vals)
    a = rng.choice([None] + list(range(-n - 1, n + 2)))
    b = rng.choice([None] + list(range(-n - 1, n + 2)))
    want = ref_type(T)
    dmin, dmax = _depth_range(T)
    f = lambda x: "_" if x is None else str(x)

    def inner_type(t):
        while t[0] == "option":
            t = t[1]
        return t

    def check(r):
        if r.status != "OK":
            return ("value", "type queries on %r: %s" % (vals, r))
        ta, tf, eq, tsl, elem, depth, mn, mx, isreg, nf, keys = r.value
        if ta != want:
            return ("value", "the array %r (element type %r) reports the type `%s`, documented syntax gives `%s`" % (vals, T, ta, want))
        if tf != ta or not eq:
            return ("value", "type from the form `%s` differs from the type of the array `%s`" % (tf, ta))
        if tsl != ta:
            return ("value", "range slice [%r:%r] has type `%s`, the array has `%s`" % (a, b, tsl, ta))
        if (mn, mx) != (dmin, dmax):
            return ("value", "minmax_depth reports %r for %r, the value has %r" % ((mn, mx), vals, (dmin, dmax)))
        try:
            b1, d1, b2, d2, fmn, fmx, fpd = [int(x) for x in r.extra.split()]
        except ValueError:
            return ("value", "depth queries not reported: %r" % r.extra)
        wb, wd = _branch_depth(T)
        if (bool(b1), d1) != (wb, wd):
            return ("value", "branch_depth reports %r for element type %r, the value has %r" % ((bool(b1), d1), T, (wb, wd)))
        if (b2, d2) != (b1, d1) or (fmn, fmx) != (mn, mx) or fpd != depth:
            return ("value", "the form answers depth queries differently from the array: branch %r vs %r, minmax %r vs %r, purelist_depth %r vs %r"
                    % ((b2, d2), (b1, d1), (fmn, fmx), (mn, mx), fpd, depth))
        t0 = inner_type(T)
        if n > 0 and vals[0] is not None and t0[0] in ("list", "regular") and isinstance(elem, str) and elem not in ("missing", "record", "scalar"):
            if elem != ref_type(t0[1]):
                return ("value", "the first element of the array has type `%s`, the array promises `%s`" % (elem, ref_type(t0[1])))
        return None
    return Case("typeinfo %s %s %s" % (f(a), f(b), lay.tokens()), check, {"value": vals, "type": T})


def fam_field_slices(rng):
    """C10: projecting a field commutes with every positional slice: x[..., "f", ...] gives the same as selecting first
    and projecting afterwards (field placed at a random position among integers, ranges, ellipsis, newaxis)"""
    for _ in range(20):
        T = gen_pure(rng, rng.randint(0, 3), regular=0.25, leafrec=1.0)
        leaf = T
        while leaf[0] in ("list", "regular", "option"):
            leaf = leaf[1]
        if leaf[0] == "record":
            break
    else:
        return None
    vals = [L.gen_value(rng, T) for _ in range(L.toplen(rng, 0, 4))]
    lay = L.Enc(rng).encode(vals, T)
    levels = R._levels(("list", T))
    items = []
    for i in range(rng.randint(0, levels)):
        items.append(("at", rng.randint(-3, 3)) if rng.random() < 0.35 else _rand_range(rng, 3))
    key = rng.choice(leaf[1]) if leaf[1] is not None else str(rng.randrange(len(leaf[2])))
    items.insert(rng.randint(0, len(items)), ("fld", key))
    chk = expect_getitem(vals, T, items, "x[%r] of %r" % (items, vals))
    if chk is None:
        return None
    return Case("getitem %s %s" % (slice_tokens(items), lay.tokens()), chk, {"value": vals, "type": T})


def fam_nested_projection(rng):
    """C10: a list of field names followed by further field items selects inside every chosen field --
    x[["a", "b"], "f"] is zip(a: x.a.f, b: x.b.f), x[["a", "b"], ["f", "g"], "z"] goes one level further -- and
    commutes with the positional items of the same slice, wherever they are written"""
    def wrap(T):
        r = rng.random()
        if r < 0.45:
            return T
        if r < 0.7:
            return ("option", T)
        if r < 0.9:
            return ("list", T)
        return ("option", ("list", T))
    leafT = lambda: ("num", rng.choice(["int64", "float64", "bool", "int32"]))
    rec3 = lambda: ("record", ["z", "w"], [wrap(leafT()), leafT()])
    deep = rng.random() < 0.6
    rec2 = lambda: ("record", ["x", "y"], [wrap(rec3()) if deep else wrap(leafT()), wrap(rec3()) if deep else leafT()])
    T = ("record", ["a", "b", "c"][:rng.randint(2, 3)], None)
    T = ("record", T[1], [wrap(rec2()) for _ in T[1]])
    outer = rng.randint(0, 2)
    for _ in range(outer):
        T = ("list", T) if rng.random() < 0.7 else ("option", ("list", T))
    if rng.random() < 0.3 and T[0] != "option":
        T = ("option", T)
    vals = [L.gen_value(rng, T) for _ in range(L.toplen(rng, 0, 4))]
    lay = L.Enc(rng).encode(vals, T)
    first = [k for k in T_keys(T) if rng.random() < 0.75] or [T_keys(T)[0]]
    rng.shuffle(first)
    fitems = [("flds", first)]
    r = rng.random()
    if r < 0.4:
        fitems.append(("fld", rng.choice(["x", "y"])))
    else:
        second = rng.choice([["x", "y"], ["y", "x"], ["x"], ["y"]])
        fitems.append(("flds", second))
    if deep and rng.random() < 0.7:
        fitems.append(("fld", rng.choice(["z", "w"])) if rng.random() < 0.7 else ("flds", rng.choice([["z"], ["w", "z"]])))
    if rng.random() < 0.15:
        fitems = [("fld", first[0])] + fitems[1:]
    pos = []
    for i in range(rng.randint(0, outer + 1)):
        pos.append(("at", rng.randint(-3, 3)) if rng.random() < 0.3 else _rand_range(rng, 3))
    # the field items keep their order; the positional items are interleaved at random
    items, fi, pi = [], list(fitems), list(pos)
    while fi or pi:
        if fi and (not pi or rng.random() < 0.5):
            items.append(fi.pop(0))
        else:
            items.append(pi.pop(0))
    chk = expect_getitem(vals, T, items, "x[%r] of %r" % (items, vals))
    if chk is None:
        return None
    return Case("getitem %s %s" % (slice_tokens(items), lay.tokens()), chk, {"value": vals, "type": T})


def T_keys(T):
    while T[0] in ("list", "regular", "option"):
        T = T[1]
    return list(T[1])


def fam_setitem_field(rng):
    """C10: after adding a field (RecordArray::setitem_field) reading it gives the value, every other field, the number
    of records and their order are unchanged; records read as dicts with fields in declaration order"""
    k = rng.randint(0, 2)
    keys = ["x", "y"][:k]
    istuple = k > 0 and rng.random() < 0.25
    T = ("record", None if istuple else keys, [gen_pure(rng, rng.randint(0, 1)) for _ in range(k)])
    n = rng.randint(0, 4)
    if k == 0:
        return None
    vals = [L.gen_value(rng, T) for _ in range(n)]
    lay = L.Enc(rng, allow_indexed=False).encode(vals, T)
    if not isinstance(lay, L.RC):
        return None
    WT = gen_pure(rng, rng.randint(0, 1))
    what = [L.gen_value(rng, WT) for _ in range(n)]
    wl = L.Enc(rng).encode(what, WT)
    if istuple or rng.random() < 0.4:
        # integer position: the new field is inserted there (appended when the position is at or beyond the end);
        # a named record gets the key str(position)
        where = rng.randint(0, k + 1)
        pos = min(where, k)
        if istuple:
            ref = [tuple(list(v)[:pos] + [w] + list(v)[pos:]) for v, w in zip(vals, what)]
        else:
            ref = [dict(list(v.items())[:pos] + [(str(where), w)] + list(v.items())[pos:]) for v, w in zip(vals, what)]
        line = "setitem_field i:%d %s %s" % (where, wl.tokens(), lay.tokens())
    else:
        ref = [dict(list(v.items()) + [("new", w)]) for v, w in zip(vals, what)]
        line = "setitem_field new %s %s" % (wl.tokens(), lay.tokens())
    return Case(line, expect_value(ref, "with_field(%r, %r)" % (vals, what), cmp=L.same), {"value": vals})


def fam_convert(rng):
    """C02/C09: conversions among encodings keep the value: toListOffsetArray64, toRegularArray, option-encoding
    conversions, simplify_optiontype, shallow_simplify, deep_copy, project (drops exactly the missing values), bytemask"""
    T = L.gen_type(rng, rng.randint(0, 2), allow_union=False)
    n = L.toplen(rng, 0, 5)
    if T[0] == "option" and rng.random() < 0.5:
        n = rng.randint(8, 20)       # every bit position of a bit mask, and a second mask byte
    vals = [L.gen_value(rng, T) for _ in range(n)]
    lay = L.Enc(rng).encode(vals, T)
    cands = ["deep_copy", "shallow_simplify"]
    if isinstance(lay, (L.LO, L.LA, L.RG)):
        cands += ["toListOffsetArray64 0", "toListOffsetArray64 1"]
        if len(set(len(v) for v in vals)) <= 1 and len(vals) > 0:
            cands.append("toRegularArray")
    if isinstance(lay, (L.IO, L.BM, L.BT, L.UM)):
        cands += ["project", "bytemask", "simplify_optiontype"]
    if isinstance(lay, (L.BM, L.BT, L.UM)):
        cands.append("toIndexedOptionArray64")
    if isinstance(lay, (L.BT, L.UM)):
        cands.append("toByteMaskedArray")
    if isinstance(lay, L.BT):
        cands += ["bytemask", "bytemask", "toIndexedOptionArray64"]
    if isinstance(lay, L.IX):
        cands += ["project", "simplify_optiontype"]
    if isinstance(lay, L.NP) and len(lay.shape) >= 1:
        cands += ["toRegularArray", "contiguous"]
    what = rng.choice(cands)
    if what == "project":
        ref = [v for v in vals if v is not None]
    elif what == "bytemask":
        ref = [1 if v is None else 0 for v in vals]
    else:
        ref = vals
    op = what if what in ("deep_copy", "shallow_simplify") else "convert " + what
    return Case("%s %s" % (op, lay.tokens()), expect_value(ref, "%s of %r" % (what, vals), cmp=(loose if what == "bytemask" else L.same)), {"value": vals})


def _nodes(lay, acc=None):
    acc = [] if acc is None else acc
    acc.append(lay)
    for c in ([lay.content] if hasattr(lay, "content") else []) + list(getattr(lay, "contents", [])):
        _nodes(c, acc)
    return acc


def _mutate_invalid(rng, lay):
    """break one documented structural rule at one node (in place); returns a description or None"""
    nodes = _nodes(lay)
    rng.shuffle(nodes)
    if rng.random() < 0.06:
        # a categorical array whose categories are themselves an invalid list array (the last offset lies beyond the
        # content, by a little or by a lot): the check has to report it, not to read the categories first
        for p_ in nodes:
            c_ = getattr(p_, "content", None)
            if isinstance(c_, L.LO) and len(c_.offsets) >= 2 and not isinstance(p_, (L.IX, L.IO)):
                c_.offsets[-1] = c_.content.length() + rng.choice([1, 3, 1000, 10 ** 8])
                n_ = len(c_.offsets) - 1
                wrap = L.IX("64", list(range(n_)), c_) if rng.random() < 0.6 else L.IO("64", list(range(n_)), c_)
                p_.content = wrap.with_params({"__array__": '"categorical"'})
                return "categorical array over categories whose last offset lies beyond their content"
    if rng.random() < 0.15:
        # malformed string / categorical parameters
        strings = [nd for nd in nodes if L.isstringparam(nd) and isinstance(nd.content, L.NP)]
        if strings and rng.random() < 0.8:
            nd = strings[0]
            inner = nd.content
            chpar = dict(inner.params or {})
            n = inner.length()
            k = rng.choice(["wrapped+param", "wrapped", "noparam", "dtype", "swapped"])
            if k == "wrapped+param":
                inner.params = None
                wrap = rng.choice(["ix", "um", "io"])
                nd.content = (L.IX("64", list(range(n)), inner) if wrap == "ix" else L.UM(inner) if wrap == "um"
                              else L.IO("64", list(range(n)), inner)).with_params(chpar)
                return "the character node of a string is not a NumpyArray (the wrapper carries the char/byte parameter)"
            if k == "wrapped":
                nd.content = L.UM(inner) if rng.random() < 0.5 else L.IX("64", list(range(n)), inner)
                return "a string does not directly contain its character node"
            if k == "noparam":
                inner.params = None
                return "the content of a string has no char/byte parameter"
            if k == "dtype":
                inner.dtype = rng.choice(["int8", "int64", "bool"])
                if inner.dtype == "bool":
                    inner.buf = [int(bool(x)) for x in inner.buf]
                else:
                    inner.buf = [x % 128 for x in inner.buf]
                return "the character node of a string is not uint8"
            inner.params = {"__array__": '"byte"' if chpar.get("__array__") == '"char"' else '"char"'}
            return "string over byte / bytestring over char"
        plain = [nd for nd in nodes if not nd.params and not isinstance(nd, (L.LO, L.LA, L.RG, L.IX, L.IO))]
        if plain:
            nd = plain[0]
            par = rng.choice(['"string"', '"bytestring"', '"char"', '"byte"', '"categorical"'])
            nd.with_params({"__array__": par})
            return "__array__ = %s on a %s node outside a string" % (par, type(nd).__name__)
    for nd in nodes:
        if isinstance(nd, L.LO) and len(nd.offsets) >= 2:
            k = rng.random()
            if k < 0.4:
                i = rng.randrange(len(nd.offsets) - 1)
                nd.offsets[i] = nd.offsets[i + 1] + rng.randint(1, 3)
                return "offsets decrease"
            if k < 0.8:
                nd.offsets[-1] = nd.content.length() + rng.randint(1, 3)
                return "last offset beyond the content"
            nd.offsets[:] = []
            return "empty offsets"
        if isinstance(nd, L.LA) and len(nd.starts) >= 1:
            i = rng.randrange(len(nd.starts))
            k = rng.random()
            if k < 0.35:
                nd.starts[i] = nd.stops[i] + rng.randint(1, 2)
                return "start > stop"
            if k < 0.7:
                nd.stops[i] = nd.content.length() + rng.randint(1, 3)
                if nd.starts[i] == nd.stops[i]:
                    nd.starts[i] = 0
                return "stop beyond the content"
            nd.stops.pop()
            return "stops shorter than starts"
        if isinstance(nd, (L.IX, L.IO)) and len(nd.index) >= 1:
            i = rng.randrange(len(nd.index))
            if isinstance(nd, L.IX) and rng.random() < 0.4:
                nd.index[i] = -rng.randint(1, 3)
                return "negative index in a non-option IndexedArray"
            nd.index[i] = nd.content.length() + rng.randint(0, 2)
            return "index beyond the content"
        if isinstance(nd, L.BM) and len(nd.mask) >= 1:
            nd.mask += [0] * (nd.content.length() - len(nd.mask) + rng.randint(1, 2))
            return "content shorter than the mask"
        if isinstance(nd, L.BT) and nd.len >= 1:
            if rng.random() < 0.5:
                nd.len = nd.content.length() + rng.randint(1, 2)
                nd.mask += [0] * ((nd.len + 7) // 8 - len(nd.mask) + 1)
                return "content shorter than the declared length"
            nd.len = len(nd.mask) * 8 + rng.randint(1, 3)
            return "mask shorter than the declared length"
        if isinstance(nd, L.UN) and len(nd.tags) >= 1:
            i = rng.randrange(len(nd.tags))
            k = rng.random()
            if k < 0.35:
                nd.tags[i] = len(nd.contents) + rng.randint(0, 2)
                return "tag out of range"
            if k < 0.5:
                nd.tags[i] = -1
                return "negative tag"
            if k < 0.85:
                nd.index[i] = nd.contents[nd.tags[i]].length() + rng.randint(0, 2)
                return "union index out of range"
            nd.index.pop()
            return "union index shorter than tags"
        if isinstance(nd, L.RC) and nd.contents and nd.len >= 0:
            nd.len = min(c.length() for c in nd.contents) + rng.randint(1, 3)
            return "field shorter than the record array"
        if isinstance(nd, L.RG) and rng.random() < 0.3:
            nd.size = -rng.randint(1, 3)
            return "negative size"
        if isinstance(nd, (L.IO, L.BM, L.BT, L.UM, L.IX)) and rng.random() < 0.5:
            inner = nd.content
            n = inner.length()
            wrap = rng.choice(["io", "um", "ix"])
            if wrap == "io":
                nd.content = L.IO("64", list(range(n)), inner)
            elif wrap == "um":
                nd.content = L.UM(inner)
            else:
                nd.content = L.IX("64", list(range(n)), inner)
            return "option/indexed node directly inside an option/indexed node"
    return None


def _gen_invalid(rng):
    for _ in range(20):
        T = L.gen_type(rng, rng.randint(0, 3), allow_union=True)
        vals = [L.gen_value(rng, T) for _ in range(L.toplen(rng, 1, 4))]
        lay = L.Enc(rng).encode(vals, T)
        what = _mutate_invalid(rng, lay)
        if what is not None:
            return lay, what
    return None, None


def fam_valid_reject(rng):
    """C11 (no missed error): a layout that breaks one documented rule (offsets decreasing or beyond the content, index
    or tag out of range, mask/content/field shorter than declared, option directly in option, negative size) is
    reported; C12: the check itself never crashes on an invalid layout"""
    lay, what = _gen_invalid(rng)
    if lay is None:
        return None
    isvalid = L.valid(lay)

    def check(r):
        if r.status == "EXC" and not isvalid:
            return None      # refused at construction: also a report
        if r.status != "OK":
            return ("value", "validity check %s (%s %s) on a layout with: %s" % (r.status, r.exc or "", r.msg[:200], what))
        if isvalid and r.value != "":
            return ("value", "validity check reports %r although the mutated layout (%s) still obeys every rule" % (r.extra[:200], what))
        if not isvalid and r.value == "":
            return ("value", "validity check reports nothing for a layout with: %s" % what)
        return None
    return Case("validity " + lay.tokens(), check, {"mutation": what})


def fam_invalid_nocrash(rng):
    """C12: reading (to_list), copying and measuring an INVALID layout never terminates the process or hangs: any
    outcome but a crash is accepted"""
    lay, what = _gen_invalid(rng)
    if lay is None or what == "field shorter than the record array":      # KF-C12-record-shorter-field-read
        return None
    op = rng.choice(["tolist", "tolist", "deep_copy", "purelist_depth"])

    def check(r):
        return None      # crashes and hangs are caught by the runner
    return Case("%s %s" % (op, lay.tokens()), check, {"mutation": what})


def fam_print_nocrash(rng):
    """C12: printing (Content::tostring, what repr shows) a layout, valid or with one broken rule, never terminates the
    process or hangs; numbers, booleans, complex numbers, dates and time differences of any magnitude included"""
    k = rng.random()
    if k < 0.25:
        kind, unit = rng.choice(["M8", "m8"]), rng.choice(["s", "ms", "us", "ns", "D", "h", "m"])
        n = rng.choice([0, 1, 3, 10, 11, 14])
        extremes = [0, 1, -1, 86399, -86401, 2 ** 31, -2 ** 31 - 1, 253402300800, 2 ** 55, -2 ** 55, 2 ** 62, -2 ** 62, 2 ** 63 - 1, -2 ** 63]
        buf = [rng.choice(extremes) if rng.random() < 0.5 else rng.randint(-10 ** 6, 10 ** 10) for _ in range(n)]
        lay = L.NP("%s[%s]" % (kind, unit), buf)
        if rng.random() < 0.4 and n:
            cut = sorted(rng.randint(0, n) for _ in range(2))
            lay = L.LO("64", [0] + cut + [n], lay)
        what = "dates and time differences"
    elif k < 0.6:
        lay, what = _gen_invalid(rng)
        if lay is None:
            return None
    else:
        T = L.gen_type(rng, rng.randint(0, 3), allow_union=True)
        vals = [L.gen_value(rng, T) for _ in range(L.toplen(rng, 0, 4) if rng.random() < 0.8 else rng.randint(9, 14))]
        lay = L.Enc(rng).encode(vals, T)
        what = "valid layout"

    def check(r):
        return None      # crashes and hangs are caught by the runner
    return Case("tostring %s" % lay.tokens(), check, {"what": what})


def _gen_pyvalue(rng, depth):
    r = rng.random()
    if depth <= 0 or r < 0.45:
        k = rng.random()
        if k < 0.15:
            return None
        if k < 0.3:
            return rng.random() < 0.5
        if k < 0.6:
            # (now and then an integer that a float32 cannot hold, or beyond 2**53)
            return rng.randint(-5, 9) if rng.random() < 0.9 else rng.choice([16777217, 123456789, -2147483649, 4294967297])
        if k < 0.8:
            return rng.randint(-8, 8) / 2.0
        return rng.choice(["a", "bc", "", "xyz", "a\x00b", "\x00"])
    if r < 0.75:
        return [_gen_pyvalue(rng, depth - 1) for _ in range(rng.randint(0, 3))]
    if r < 0.92:
        keys = [k for k in ["x", "y", "z"] if rng.random() < 0.6] or ["x"]
        rng.shuffle(keys)
        return {k: _gen_pyvalue(rng, depth - 1) for k in keys}
    return tuple(_gen_pyvalue(rng, depth - 1) for _ in range(rng.choice([0, 1, 1, 2, 2, 3])))


def _builder_cmds(v, out):
    if v is None:
        out.append("null")
    elif isinstance(v, bool):
        out.append("bool %d" % v)
    elif isinstance(v, int):
        out.append("int %d" % v)
    elif isinstance(v, float):
        out.append("real %r" % v)
    elif isinstance(v, complex):
        out.append("complex %r %r" % (v.real, v.imag))
    elif isinstance(v, str):
        out.append("str %s" % (v.replace("\x00", "%00") if v else "''"))
    elif isinstance(v, list):
        out.append("beginlist")
        for e in v:
            _builder_cmds(e, out)
        out.append("endlist")
    elif isinstance(v, dict):
        out.append("beginrecord _")
        for k, e in v.items():
            out.append("field %s" % k)
            _builder_cmds(e, out)
        out.append("endrecord")
    elif isinstance(v, tuple):
        out.append("begintuple %d" % len(v))
        for i, e in enumerate(v):
            out.append("index %d" % i)
            _builder_cmds(e, out)
        out.append("endtuple")


def builder_unify(values):
    """what to_list shows for the values appended at one builder node, in order: records (unnamed) reached at the same
    position share one record type with absent fields None, tuples of the same arity share one tuple type"""
    out = list(values)
    lists = [i for i, v in enumerate(values) if isinstance(v, list)]
    if lists:
        flat = [e for i in lists for e in values[i]]
        uni = builder_unify(flat)
        p = 0
        for i in lists:
            n = len(values[i])
            out[i] = uni[p:p + n]
            p += n
    dicts = [i for i, v in enumerate(values) if isinstance(v, dict)]
    if dicts:
        keys = []
        for i in dicts:
            for k in values[i]:
                if k not in keys:
                    keys.append(k)
        cols = {}
        for k in keys:
            have = [i for i in dicts if k in values[i]]
            uni = builder_unify([values[i][k] for i in have])
            cols[k] = dict(zip(have, uni))
        for i in dicts:
            out[i] = {k: cols[k].get(i) for k in keys}
    arities = sorted({len(v) for v in values if isinstance(v, tuple)})
    for a in arities:
        tups = [i for i, v in enumerate(values) if isinstance(v, tuple) and len(v) == a]
        cols = []
        for j in range(a):
            cols.append(builder_unify([values[i][j] for i in tups]))
        for n, i in enumerate(tups):
            out[i] = tuple(cols[j][n] for j in range(a))
    return out


def fam_builder(rng):
    """C14: appending a well-nested sequence of values through ArrayBuilder yields an array whose to_list equals the
    appended values up to the documented unification; every snapshot equals the values appended so far and never
    changes afterwards; the length is the number of top-level values"""
    vals = [_gen_pyvalue(rng, rng.randint(0, 3)) for _ in range(rng.randint(0, 6))]
    if rng.random() < 0.08:
        # a run of integers that fills the buffer to its reserved size (or beyond), then a number of a wider type
        run = [rng.randint(-5, 9) for _ in range(rng.choice([1, 2, 3, 8, 9, 13]))] + [rng.choice([2.5, complex(1.5, -2.0)])]
        vals = [run] if rng.random() < 0.5 else run
    # `clear` empties the builder: the values before it are gone (snapshots taken earlier keep theirs); it comes between
    # two values or in the middle of one (the open value is abandoned)
    clear_at, clear_mid = None, False
    if vals and rng.random() < 0.15:
        clear_at = rng.randint(0, len(vals))
        clear_mid = clear_at >= 1 and rng.random() < 0.4
    cmds, snaps, mids = [], [], set()
    for i, v in enumerate(vals):
        if clear_at == i and not clear_mid:
            cmds.append("clear")
        if rng.random() < 0.25:
            cmds.append("snap")
            snaps.append(i)
        sub = []
        _builder_cmds(v, sub)
        if clear_mid and i == clear_at - 1:
            if len(sub) > 1:
                sub = sub[:rng.randint(1, len(sub) - 1)]
                if sub[-1].startswith("index") or sub[-1].startswith("field"):
                    sub = sub[:-1] or [sub[0]]
            else:
                sub = []
            cmds.extend(sub)
            cmds.append("clear")
            continue
        if len(sub) > 1 and rng.random() < 0.15:
            # a snapshot taken in the middle of a value shows the values completed so far, nothing of the open one
            sub.insert(rng.randint(1, len(sub) - 1), "snap")
            snaps.append(i)
            mids.add(len(snaps) - 1)
        cmds.extend(sub)
    if clear_at == len(vals) and not clear_mid:
        cmds.append("clear")
    initial = rng.choice([1, 2, 8, 1024])
    base = clear_at if clear_at is not None else 0
    # clear removes the data, not the type knowledge: the surviving values are unified together with the cleared ones
    done = vals[:clear_at - 1] + vals[clear_at:] if clear_mid else vals
    dbase = base - 1 if clear_mid else base
    ref_final = builder_unify(done)[dbase:]
    cmp_final = loose_cleared if clear_at is not None else loose
    # (a snapshot numbered i was taken when i values were complete; one taken before value clear_at - 1 was abandoned
    #  still shows the values up to it)
    ref_snaps = [builder_unify(done[:i - (1 if clear_mid else 0)])[dbase:] if (clear_at is not None and i >= clear_at) else builder_unify(vals[:i]) for i in snaps]
    after = [clear_at is not None and i >= clear_at for i in snaps]
    nvals = len(vals) - base

    def check(r):
        if r.status != "OK":
            return ("value", "ArrayBuilder over %r: library %s (%s %s)" % (vals, r.status, r.exc or "", r.msg[:200]))
        got_snaps, final, length, ferr = r.value
        if ferr != "":
            return ("validity", "the final snapshot of %r fails the validity check" % (vals,))
        if length != nvals:
            return ("value", "ArrayBuilder length %r after appending %d values" % (length, nvals))
        if not cmp_final(final, ref_final):
            return ("value", "ArrayBuilder over %r: final snapshot reads %r, the appended values (unified) are %r" % (vals, final, ref_final))
        if len(got_snaps) != len(ref_snaps):
            return ("value", "snapshot count")
        for k_, ((first, again, verr), ref) in enumerate(zip(got_snaps, ref_snaps)):
            if not (loose_cleared if after[k_] else loose_open if k_ in mids else loose)(first, ref):
                return ("value", "snapshot after %d values reads %r, expected %r" % (len(ref), first, ref))
            if not L.same(first, again):
                return ("value", "a snapshot CHANGED after more data were appended: %r became %r" % (first, again))
            if verr != "":
                return ("validity", "a snapshot fails the validity check")
        return None
    return Case("builder %d %s" % (initial, " ".join(cmds)), check, {"value": vals})


def fam_builder_append(rng):
    """C14: ArrayBuilder.append(array, at) appends the element array[at] (a negative `at` counts from the end of THAT
    array, an `at` outside it raises), extend(array) appends every element in order; mixed with values appended one by
    one the result reads as all of them in order"""
    T = gen_pure(rng, rng.randint(0, 2), optleaf=0.2, optlist=0.1)
    vals = [L.gen_value(rng, T) for _ in range(L.toplen(rng, 1, 6))]
    if not vals:
        return None
    lay = L.Enc(rng).encode(vals, T)
    tok = lay.tokens()
    n = len(vals)
    cmds, ref, bad = [], [], False
    for _ in range(rng.randint(0, 3)):       # values appended one by one first: the builder's length differs from the array's
        if rng.random() < 0.5:
            v = rng.randint(-5, 9)
            cmds.append("int %d" % v)
            ref.append(v)
    for _ in range(rng.randint(1, 5)):
        k = rng.random()
        if k < 0.7:
            at = rng.randint(-n, n - 1)
            if rng.random() < 0.08:
                at = rng.choice([n, n + 1, -n - 1, -n - 3])
                bad = True
            cmds.append("append %d %s" % (at, tok))
            if not bad:
                ref.append(vals[at])
        elif k < 0.85:
            cmds.append("extend %s" % tok)
            ref.extend(vals)
        else:
            cmds.append("null")
            ref.append(None)
        if bad:
            break
    initial = rng.choice([1, 2, 8, 1024])

    def check(r):
        if bad:
            if r.status == "EXC":
                return None
            return ("value", "ArrayBuilder.append with an index outside the array of %d elements did not raise: %s" % (n, r))
        if r.status != "OK":
            return ("value", "ArrayBuilder append/extend from %r: library %s (%s %s)" % (vals, r.status, r.exc or "", r.msg[:200]))
        _snaps, final, length, ferr = r.value
        if ferr != "":
            return ("validity", "the snapshot after append/extend from %r fails the validity check" % (vals,))
        if length != len(ref) or not loose(final, ref):
            return ("value", "ArrayBuilder `%s` from the array %r reads %r, the appended elements are %r" % (" ".join(c.split(" " + tok)[0] for c in cmds), vals, final, ref))
        return None
    return Case("builder %d %s" % (initial, " ".join(cmds)), check, {"value": vals})


def fam_builder_malformed(rng):
    """C14: a malformed call sequence (unbalanced end, field outside a record, index outside a tuple) raises an error"""
    good = []
    for v in [_gen_pyvalue(rng, 1) for _ in range(rng.randint(0, 2))]:
        _builder_cmds(v, good)
    bad = rng.choice(["endlist", "endrecord", "endtuple", "field x int 1", "index 0 int 1",
                      "beginlist endrecord", "beginrecord _ endlist", "begintuple 2 index 2 int 1",
                      "beginrecord _ int 1", "begintuple 1 int 1", "begintuple 2 index -2 int 1", "begintuple 2 index -1 int 1",
                      "begintuple 3 index 0 int 1 index -3 int 1"])

    def check(r):
        if r.status == "EXC":
            return None
        return ("value", "malformed ArrayBuilder call sequence `%s` after %r did not raise: %s" % (bad, good, r))
    return Case("builder 8 %s %s" % (" ".join(good), bad), check, {})


class _Shim:
    pass


VIRTUAL_SUBFAMILIES = ["tolist", "carry_range", "getitem_basic", "getitem_array", "reduce_ragged", "num", "flatten",
                       "localindex", "rpad", "sort", "combinations", "fields", "fields", "reduce_rect"]


def fam_virtual(rng):
    """C18: a VirtualArray (real VirtualArray + a counting generator + no cache / unbounded cache / a cache that evicts
    after k hits) gives, for every operation, the value of the materialised array; a first generation that fails
    surfaces as an exception and the next attempt is correct"""
    if rng.random() < 0.06:
        # a bit-masked array as the VirtualArray itself, every combination of valid_when / lsb_order, sliced lazily
        # (partial ranges, elements) with the form declared: BitMaskedForm::getitem_range predicts the sliced form
        n = rng.randint(2, 12)
        vw, lsb = rng.random() < 0.5, rng.random() < 0.5
        vals = [None if rng.random() < 0.35 else rng.randint(-5, 9) for _ in range(n)]
        bits = [(0 if v is None else 1) if vw else (1 if v is None else 0) for v in vals] + [rng.randint(0, 1) for _ in range((-n) % 8)]
        mask = []
        for b0 in range(0, len(bits), 8):
            chunk = bits[b0:b0 + 8]
            mask.append(sum(bit << (i if lsb else 7 - i) for i, bit in enumerate(chunk)))
        lay = L.BT(vw, lsb, n, mask, L.NP("int64", [99 if v is None else v for v in vals] + [99] * rng.randint(0, 2)))
        a, b = sorted([rng.randint(0, n), rng.randint(0, n)])
        keep = rng.choice([-2, -1, 0, 1])
        ref = vals[a:b]
        inner_chk = expect_value(ref, "x[%d:%d] of a lazy bit-masked array %r (valid_when=%s, lsb_order=%s)" % (a, b, vals, vw, lsb), cmp=L.same)

        def check_bt(r):
            if r.status != "OK" or not (isinstance(r.value, tuple) and len(r.value) == 3):
                return inner_chk(r)
            sh = _Shim()
            sh.status, sh.value, sh.raw, sh.validity, sh.pure, sh.extra, sh.exc, sh.msg = "OK", r.value[0], r.raw, r.validity, r.pure, r.extra, None, ""
            return inner_chk(sh)
        return Case("virtual %d -2 1 0 getitem_range %d %d %s" % (keep, a, b, lay.tokens()), check_bt, {"value": vals})
    sub = rng.choice(VIRTUAL_SUBFAMILIES)
    inner = None
    L.Enc.ALLOW_BITMASK = False          # KF-C18-lazy-slice-bitmasked-form
    try:
        for _ in range(10):
            inner = FAMILIES[sub][0](rng)
            if inner is not None:
                break
    finally:
        L.Enc.ALLOW_BITMASK = True
    if inner is None:
        return None
    keep = rng.choice([-2, -1, -1, 0, 1, 2])
    decl_length = rng.choice([-1, -2, -2])
    decl_form = rng.choice([0, 1, 1])
    fail_first = 1 if rng.random() < 0.15 else 0
    if inner.info.get("mixed"):
        # KF-C18-lazy-field-of-union-form: a declared form -- or one inferred by an earlier materialisation that the
        # cache has not kept -- with a union of records refuses x["f"]
        decl_form, keep = 0, -1
    # three cases in seven: the VirtualArray is the CONTENT (or the content of the content) of the outermost list /
    # regular / indexed / option node, or the fields of the outermost record array are VirtualArrays
    # (operations then carry or slice a virtual content; the driver re-reads every virtual input after the call)
    opname = rng.choice(["virtual", "virtual", "virtual", "virtual", "virtual_inner", "virtual_inner", "virtual_inner2"])

    def check(r):
        if r.status != "OK":
            # the inner contract may expect an exception (index out of range)
            return inner.check(r)
        if not (isinstance(r.value, tuple) and len(r.value) == 3):
            return ("value", "unexpected driver payload %r" % (r.raw[:200],))
        v, calls, first = r.value
        sh = _Shim()
        sh.status, sh.value, sh.raw, sh.validity, sh.pure, sh.extra, sh.exc, sh.msg = "OK", v, r.raw, r.validity, r.pure, r.extra, None, ""
        bad = inner.check(sh)
        if bad:
            return (bad[0], "through a VirtualArray (cache mode %d, declared length %d, declared form %d): %s" % (keep, decl_length, decl_form, bad[1]))
        if fail_first and first == "no-exception" and calls > 0:
            return ("value", "the first generation failed but the operation did not raise")
        return None
    return Case("%s %d %d %d %d %s" % (opname, keep, decl_length, decl_form, fail_first, inner.line), check, inner.info)


SHAREDUNION_SUBFAMILIES = ["tolist", "carry_range", "num", "flatten", "localindex", "rpad", "fillna", "reduce_ragged",
                           "sort", "argsort", "fields", "combinations", "getitem_basic"]


def fam_union_shared(rng):
    """C02/C08: a union whose branches are literally the same buffers (contents = {x, x}, every element taken from one
    of the two at its own position) is the array x: every operation gives what it gives on x"""
    sub = rng.choice(SHAREDUNION_SUBFAMILIES)
    inner = None
    for _ in range(10):
        inner = FAMILIES[sub][0](rng)
        if inner is not None:
            break
    if inner is None:
        return None
    pattern = rng.randint(1, 5)

    def check(r):
        bad = inner.check(r)
        if bad:
            return (bad[0], "on union[x, x] with shared buffers (tag pattern %d): %s" % (pattern, bad[1]))
        return None
    return Case("sharedunion %d %s" % (pattern, inner.line), check, inner.info)


def fam_union_windows(rng):
    """C02/C08: a union of two overlapping windows of one array (x[0:n-1] and x[1:n]: views of the same buffers that
    start at different positions), every element taken from one of them at its own position, is the array x"""
    sub = rng.choice(SHAREDUNION_SUBFAMILIES + ["flatten", "flatten", "flatten", "num", "localindex"])
    inner = None
    for _ in range(10):
        L.FIRST_EMPTY = rng.random() < 0.4      # (x[1:n] then starts at offset value 0 of a shifted offsets view)
        inner = FAMILIES[sub][0](rng)
        L.FIRST_EMPTY = False
        if inner is not None:
            break
    if inner is None:
        return None
    pattern = rng.randint(1, 6)

    def check(r):
        bad = inner.check(r)
        if bad:
            return (bad[0], "on union[x[0:n-1], x[1:n]] (pattern %d): %s" % (pattern, bad[1]))
        return None
    return Case("windows %d %s" % (pattern, inner.line), check, inner.info)


def fam_view_tail(rng):
    """C02: a range-slice view that starts k elements into its buffers (outermost Index / NumpyArray objects with a
    non-zero offset) is the array it shows: every operation gives what it gives on a fresh copy"""
    sub = rng.choice(SHAREDUNION_SUBFAMILIES + ["flatten", "num", "concat", "getitem_array", "getitem_jagged", "broadcast", "astype"])
    inner = None
    for _ in range(10):
        L.FIRST_EMPTY = rng.random() < 0.3
        inner = FAMILIES[sub][0](rng)
        L.FIRST_EMPTY = False
        if inner is not None:
            break
    if inner is None:
        return None
    k = rng.randint(1, 3)

    def check(r):
        bad = inner.check(r)
        if bad:
            return (bad[0], "on a view starting %d elements into its buffers: %s" % (k, bad[1]))
        return None
    return Case("tailview %d %s" % (k, inner.line), check, inner.info)


def fam_record_scalar(rng):
    """C05/C09/C10: an operation applied to one record taken out of an array (a Record scalar) gives what it gives on
    that record alone: local_index and num per field, fill_none, field projection, to_list"""
    k = rng.randint(1, 3)
    keys = ["x", "y", "z"][:k]
    op = rng.choice(["tolist", "localindex", "num", "fillna", "field"])
    if op in ("localindex", "num"):
        subT = [gen_pure(rng, rng.randint(1, 2), optlist=0.0) for _ in range(k)]
    elif op == "fillna":
        subT = [("option", gen_pure(rng, rng.randint(0, 1), optlist=0.0, optleaf=0.0)) for _ in range(k)]
    else:
        subT = [gen_pure(rng, rng.randint(0, 2)) for _ in range(k)]
    T = ("record", keys, subT)
    n = rng.randint(1, 5)
    vals = [L.gen_value(rng, T) for _ in range(n)]
    i = rng.randrange(n)
    lay = L.Enc(rng).encode(vals, T)
    if not isinstance(lay, L.RC):
        return None           # (an IndexedArray view of records: x[i] is taken through it, a different entry point)
    rec = vals[i]
    if op == "tolist":
        return Case("record_at %d tolist %s" % (i, lay.tokens()), expect_value(rec, "to_list(x[%d]) of %r" % (i, vals), cmp=L.same, want_valid=False), {"value": vals})
    if op == "field":
        key = rng.choice(keys)
        return Case("record_at %d getitem_field %s %s" % (i, key, lay.tokens()),
                    lambda r, _c=expect_value(rec[key], "x[%d][%r] of %r" % (i, key, vals), cmp=L.same, want_valid=False): _c(r) if r.status != "OK" or not L.same(r.value, rec[key]) else None,
                    {"value": vals})
    if op == "fillna":
        fill = 7
        ref = {kk: (fill if rec[kk] is None else rec[kk]) for kk in keys}
        return Case("record_at %d fillna np int64 1 %d %s" % (i, fill, lay.tokens()),
                    expect_value(ref, "fill_none(x[%d], %d) of %r" % (i, fill, vals), want_valid=False), {"value": vals})
    # per field, along the first axis inside the record (axis=1 of the one-record array)
    fn = R.localindex if op == "localindex" else R.num
    ref = {kk: fn([rec[kk]], 1)[0] for kk in keys}
    return Case("record_at %d %s 1 %s" % (i, op, lay.tokens()),
                expect_value(ref, "%s(x[%d], axis=1) of %r" % (op, i, vals), want_valid=False), {"value": vals})


def fam_virtual_enforce(rng):
    """C18: with length and form declared no query of length/depth/form invokes the generator; a generated array that is
    shorter than the declared length, or of another form than declared, is refused with an error once data are needed"""
    T = gen_pure(rng, rng.randint(0, 2))
    vals = [L.gen_value(rng, T) for _ in range(L.toplen(rng, 0, 4))]
    lay = L.Enc(rng).encode(vals, T)
    keep = rng.choice([-2, -1, 0])
    mode = rng.choice(["lazy", "short", "form", "fieldorder"])
    if mode == "fieldorder":
        # a declared record form is compared BY NAME: the same names and types stored in another order are the same
        # form (accepted, values as generated); the same names over exchanged types are another form (refused)
        keys = ["x", "y", "z"][:rng.randint(2, 3)]
        subT = [("num", "int64")] + [gen_pure(rng, rng.randint(0, 1)) for _ in keys[1:-1]] + [("list", ("num", "float64"))]
        RT = ("record", keys, subT)
        rvals = [L.gen_value(rng, RT) for _ in range(L.toplen(rng, 0, 4))]
        rlay = L.Enc(rng).encode(rvals, RT)
        if not isinstance(rlay, L.RC):
            return None
        if rng.random() < 0.5:
            inner = expect_value(rvals, "to_list of a VirtualArray whose declared record form lists the fields in another order, %r" % (rvals,), cmp=loose_unordered)

            def check(r):
                if r.status != "OK" or not (isinstance(r.value, tuple) and len(r.value) == 3):
                    return ("value", "a generated record array with the declared field names and types, stored in another order, was not accepted: %s" % (r,))
                sh = _Shim()
                sh.status, sh.value, sh.raw, sh.validity, sh.pure, sh.extra, sh.exc, sh.msg = "OK", r.value[0], r.raw, r.validity, r.pure, r.extra, None, ""
                return inner(sh)
            return Case("virtual %d -2 3 0 tolist %s" % (keep, rlay.tokens()), check, {"value": rvals})

        def check(r):
            if r.status == "EXC" or not rvals:
                return None
            return ("value", "a generated record array whose fields have the declared names but exchanged types was accepted: %s" % (r,))
        return Case("virtual %d -2 4 0 tolist %s" % (keep, rlay.tokens()), check, {"value": rvals})
    if mode == "lazy":
        def check(r):
            if r.status != "OK":
                return ("value", "length/depth/form queries on a VirtualArray with declared length and form: %s" % r)
            (n, d, mn, mx, calls), total, first = r.value
            if calls != 0 or total != 0:
                return ("value", "the generator was invoked %d time(s) by length/depth/form queries although length and form are declared" % total)
            if n != len(vals) or d != struct_depth(T):
                return ("value", "declared length/depth read back as %r/%r for %r" % (n, d, vals))
            return None
        return Case("virtual %d -2 1 0 lazyquery %s" % (keep, lay.tokens()), check, {"value": vals})
    if mode == "short" and rng.random() < 0.5:
        declared = len(vals) + rng.randint(1, 3)

        def check(r):
            if r.status != "OK":
                return ("value", "refused generation: %s" % r)
            raised, hasform, peek = r.value
            if not raised:
                return ("value", "a generator returning %d items for a declared length of %d was accepted" % (len(vals), declared))
            if hasform or peek:
                return ("value", "a refused generation (too short) left a stale value visible: inferred form %s, cached array %s" % (hasform, peek))
            return None
        return Case("staleform %d %s" % (declared, lay.tokens()), check, {"value": vals})
    if mode == "short":
        declared = len(vals) + rng.randint(1, 3)

        def check(r):
            if r.status == "EXC":
                return None
            return ("value", "a generator returning %d items for a declared length of %d was accepted: %s" % (len(vals), declared, r))
        return Case("virtual %d %d 0 0 tolist %s" % (keep, declared, lay.tokens()), check, {"value": vals})

    def check(r):
        if r.status == "EXC":
            return None
        return ("value", "a generated array whose form differs from the declared form was accepted: %s" % r)
    if isinstance(lay, L.LO) and isinstance(lay.content, L.NP) and lay.content.dtype == "int8" and lay.width == "64":
        return None
    return Case("virtual %d -1 2 0 tolist %s" % (keep, lay.tokens()), check, {"value": vals})


def fam_partitioned(rng):
    """C18: an IrregularlyPartitionedArray (any partitioning, empty partitions included) gives for getitem_at,
    getitem_range (any start/stop/step) and repartition the value of the concatenated array"""
    T = gen_pure(rng, rng.randint(0, 2))
    n = rng.randint(0, 8) if rng.random() < 0.7 else rng.randint(9, 16)
    vals = [L.gen_value(rng, T) for _ in range(n)]
    lay = L.Enc(rng).encode(vals, T)
    k = rng.randint(1, 4)
    stops = sorted(rng.randint(0, n) for _ in range(k - 1)) + [n]
    head = "partitioned %d %s" % (k, " ".join(map(str, stops)))
    action = rng.choice(["at", "range", "range", "repartition"])
    if action == "at":
        i = rng.randint(-n - 1, n)
        if -n <= i < n:
            chk = expect_value(vals[i], "partitioned x[%d] of %r split at %r" % (i, vals, stops), cmp=L.same, want_valid=False)
        else:
            def chk(r):
                return None if r.status == "EXC" else ("value", "x[%d] on a partitioned array of length %d must raise: %s" % (i, n, r))
        return Case("%s at %d %s" % (head, i, lay.tokens()), chk, {"value": vals})
    if action == "range":
        a = rng.choice([None] + list(range(-n - 2, n + 3)))
        b = rng.choice([None] + list(range(-n - 2, n + 3)))
        st = rng.choice([1, 1, 1, 2, 3, 4, 5, 7, -1, -1, -2, -3, -4, -5, -6, -7])
        ref = vals[a:b:st]

        def chk(r):
            if r.status != "OK":
                return ("value", "partitioned x[%r:%r:%r] of %r split at %r: %s" % (a, b, st, vals, stops, r))
            parts, length = r.value
            flat = [e for p in parts for e in p]
            if not L.same(flat, ref) or length != len(ref):
                return ("value", "partitioned x[%r:%r:%r] of %r split at %r: library gives partitions %r (length %r), expected the elements %r" % (a, b, st, vals, stops, parts, length, ref))
            return None
        f = lambda x: "_" if x is None else str(x)
        return Case("%s range %s %s %d %s" % (head, f(a), f(b), st, lay.tokens()), chk, {"value": vals})
    m = rng.randint(1, 4)
    nstops = sorted(rng.randint(0, n) for _ in range(m - 1)) + [n]

    def chk(r):
        if r.status != "OK":
            return ("value", "repartition(%r) of %r split at %r: %s" % (nstops, vals, stops, r))
        parts, length = r.value
        want = [vals[a:b] for a, b in zip([0] + nstops[:-1], nstops)]
        if not L.same(parts, want) or length != n:
            return ("value", "repartition(%r) of %r split at %r: library gives %r, expected %r" % (nstops, vals, stops, parts, want))
        return None
    return Case("%s repartition %d %s %s" % (head, m, " ".join(map(str, nstops)), lay.tokens()), chk, {"value": vals})


def fam_forth(rng):
    """C19: a random small AwkwardForth program (stack/arithmetic/comparison/bitwise words, if/else, do/loop/+loop with
    i, begin/until, begin/while/repeat, user words with exit, variables, typed little/big-endian, repeated, varint and
    zigzag reads to the stack or straight to an output, seek/skip/len/pos/end, typed output writes, +<-, rewind, halt,
    pause) run on the real ForthMachine64 -- in one call resumed after every pause, single-stepped, or mixed, with output
    buffers starting at 1, 2 or 1024 items -- ends with the error status, stack, variables, outputs and input positions
    the documented semantics (reference interpreter akvlib/nat/forthref.py) give"""
    for _ in range(20):
        src, inputs = FR.gen_program(rng)
        m = FR.Machine(src, inputs)
        try:
            err = m.run()
        except FR.Unsupported:
            continue
        except RecursionError:
            continue
        break
    else:
        return None
    # `exit` is single-stepped differently from run() (KF-C19-exit-step): such programs are only run()
    mode = "run" if " exit " in (" " + src + " ") else rng.choice(["run", "step", "mixed"])
    out_initial, out_resize = rng.choice([(1, 150), (2, 200), (1024, 150), (1, 110)])
    exp_err = FR.ERR[err]
    hx = lambda b: (b.hex() or "-")
    line = "forth %s 1024 1024 %d %d %s %d %s" % (mode, out_initial, out_resize, hx(src.encode()), len(inputs),
                                                  " ".join("%s %s" % (k, hx(v)) for k, v in inputs.items()))
    what = "program `%s` on input %s (%s, output buffers from %d items)" % (src, {k: list(v) for k, v in inputs.items()}, mode, out_initial)

    def check(r):
        if r.status != "OK":
            return ("value", "%s: %s" % (what, r))
        gerr, gstack, gvars, gouts, gpos, untouched = r.value
        if not untouched:
            return ("purity", "%s: the bytes of the input buffer were modified by the run" % what)
        if gerr != exp_err:
            return ("value", "%s: error status %d, documented semantics give %d (%s)" % (what, gerr, exp_err, err))
        if gvars != m.variables:
            return ("value", "%s: variables %r, expected %r" % (what, gvars, m.variables))
        exp_outs = {k: v[1] for k, v in m.outputs.items()}
        if not loose(gouts, exp_outs) or list(gouts) != sorted(exp_outs):
            return ("value", "%s: outputs %r, expected %r" % (what, gouts, exp_outs))
        if gpos != m.pos:
            return ("value", "%s: input positions %r, expected %r" % (what, gpos, m.pos))
        if exp_err == 0 and gstack != m.stack:
            return ("value", "%s: final stack %r, expected %r" % (what, gstack, m.stack))
        return None
    return Case(line, check, {"source": src})


# family -> (generator, properties whose statement the VALUE contract comes from)
FAMILIES = {
    "reduce_ragged": (fam_reduce_ragged, ["C03"]),
    "reduce_rect": (fam_reduce_rect, ["C03"]),
    "reduce_datetime": (fam_reduce_datetime, ["C03"]),
    "tolist": (fam_tolist, ["C02"]),
    "types": (fam_types, ["C17"]),
    "layout_independent": (fam_layout_independent, ["C02"]),
    "carry_range": (fam_carry_range, ["C02", "C01"]),
    "getitem_basic": (fam_getitem_basic, ["C01"]),
    "getitem_array": (fam_getitem_array, ["C01"]),
    "getitem_jagged": (fam_getitem_jagged, ["C01"]),
    "getitem_numpy": (fam_getitem_numpy, ["C01"]),
    "convert": (fam_convert, ["C02", "C09"]),
    "num": (fam_num, ["C05"]),
    "flatten": (fam_flatten, ["C05"]),
    "localindex": (fam_localindex, ["C05"]),
    "rpad": (fam_rpad, ["C09"]),
    "fillna": (fam_fillna, ["C09"]),
    "broadcast": (fam_broadcast, ["C04"]),
    "concat": (fam_concat, ["C08"]),
    "astype": (fam_astype, ["C08"]),
    "simplify_union": (fam_simplify_union, ["C08"]),
    "union_shared": (fam_union_shared, ["C02", "C08"]),
    "union_windows": (fam_union_windows, ["C02", "C08"]),
    "record_scalar": (fam_record_scalar, ["C05", "C09", "C10"]),
    "view_tail": (fam_view_tail, ["C02"]),
    "through_record": (fam_through_record, ["C05", "C07", "C09"]),
    "nested_projection": (fam_nested_projection, ["C10", "C01"]),
    "print_nocrash": (fam_print_nocrash, ["C12"]),
    "fields": (fam_fields, ["C01", "C10"]),
    "field_slices": (fam_field_slices, ["C10"]),
    "setitem_field": (fam_setitem_field, ["C10"]),
    "combinations": (fam_combinations, ["C07"]),
    "sort": (fam_sort, ["C06"]),
    "argsort": (fam_argsort, ["C06"]),
    "valid_accept": (fam_valid_accept, ["C11"]),
    "virtual": (fam_virtual, ["C18"]),
    "virtual_enforce": (fam_virtual_enforce, ["C18"]),
    "partitioned": (fam_partitioned, ["C18"]),
    "forth": (fam_forth, ["C19"]),
    "builder": (fam_builder, ["C14"]),
    "builder_malformed": (fam_builder_malformed, ["C14"]),
    "builder_append": (fam_builder_append, ["C14"]),
    "valid_reject": (fam_valid_reject, ["C11"]),
    "invalid_nocrash": (fam_invalid_nocrash, ["C12"]),
}
CATEGORY_PROPS = {"validity": ["C11"], "purity": ["C12"], "crash": ["C12"]}

QUICK_N = 1200
THOROUGH_N = 20000


def generate(family, n, seed):
    fn = FAMILIES[family][0]
    rng = random.Random("%s/%d" % (family, seed))
    out = []
    tries = 0
    while len(out) < n and tries < 20 * n:
        tries += 1
        L.NONE_P = 0.0 if rng.random() < 0.2 else 0.3
        try:
            c = fn(rng)
        except (R.Refuse, FR.Unsupported, OverflowError, RecursionError, ZeroDivisionError):
            # the reference does not define this input: not generated (never a verdict)
            generate.skipped[family] = generate.skipped.get(family, 0) + 1
            continue
        if c is None:
            continue
        c.family = family
        c.id = "%s.%d" % (family, len(out))
        out.append(c)
    return out


generate.skipped = {}


def run_families(families, n, seed, asan=False):
    """-> {family: (ncases, [(case, why)])}"""
    cases = []
    for f in families:
        cases += generate(f, n, seed)
    # distinct and non-trivial: unique driver lines of cases whose generated top-level value has at least one element
    # (cases that carry no "value", e.g. Forth programs and builder sequences, count by their line alone)
    lines = set(c.line for c in cases if (("value" not in c.info) or (hasattr(c.info["value"], "__len__") and len(c.info["value"]) > 0)))
    run_families.stats = {"cases": len(cases),
                          "distinct": len(lines),
                          "samples": [c.line[:400] for c in cases[::max(1, len(cases) // 5)][:6]]}
    res = nrun.run_cases(["%s %s" % (c.id, c.line) for c in cases], asan=asan)
    out = {f: [0, []] for f in families}
    run_families.ok_counts = {}
    for c in cases:
        r = res[c.id]
        out[c.family][0] += 1
        if r.status == "OK":
            run_families.ok_counts[c.family] = run_families.ok_counts.get(c.family, 0) + 1
        if r.status == "DRIVER":
            why = ("driver", "driver error: %s" % r.msg)
        elif r.status in ("CRASH", "TIMEOUT"):
            why = ("crash", "the process %s (signal %s) inside the library call" % ("hung" if r.status == "TIMEOUT" else "was killed", r.msg))
        elif r.status in ("MISSING", "UNPARSED"):
            why = ("driver", "no parsable answer from the driver: %s %s" % (r.status, r.msg))
        else:
            why = c.check(r)
        if why:
            out[c.family][1].append((c, why, r))
    return out


def known_cases(known, pid):
    """specific recorded inputs (known_findings.json, engine N): [(finding, line, expect)]"""
    out = []
    for f in known.get("findings", []):
        if f.get("engine") != "N":
            continue
        if f.get("property") != pid and pid not in f.get("also_properties", []):
            continue
        for i, c in enumerate(f.get("cases", [])):
            out.append((f, i, c))
    return out


def engine(pid, tier, seed, known, families=None):
    """families whose value contract comes from `pid` are checked in full; for C11 (results of operations on valid
    arrays are valid) and C12 (no crash, no hang, inputs untouched, result survives its inputs) every family is
    run and only the failures of that category are this property's"""
    t0 = time.time()
    out = {"obligations": [], "functions": {}, "errors": [], "notes": [], "bounded": [], "coverage": {}, "replay": {}}
    own = [f for f, (_, props) in FAMILIES.items() if pid in props]
    cats = [c for c, props in CATEGORY_PROPS.items() if pid in props]
    fams = families or (list(FAMILIES) if cats else own)
    n = QUICK_N if tier == "quick" else THOROUGH_N
    results = {}
    try:
        results = run_families(fams, n, seed, asan=(tier != "quick" and pid == "C12"))
    except Exception as e:
        import traceback
        out["errors"].append("Engine N could not run: %s" % traceback.format_exc()[-1500:])
        return out
    for f in fams:
        ncases, allfails = results[f]
        for c, why, r in allfails:
            if why[0] == "driver":
                out["errors"].append("Engine N: %s on `%s`" % (why[1], c.line[:300]))
        fails = [(c, why, r) for c, why, r in allfails
                 if (why[0] == "value" and f in own) or why[0] in cats or (why[0] == "crash" and f in own)]
        doc = (FAMILIES[f][0].__doc__ or "").strip().replace("\n", " ")
        scope = "value contract + " if f in own else ""
        out["bounded"].append({"function": "native libawkward: " + f,
                               "bound": "%d seeded random cases (lists <= 4 long, depth <= 3), seed %d; checked: %s%s; %s"
                                        % (ncases, seed, scope, ", ".join(cats) if cats else "no crash", doc),
                               "cases": ncases, "mismatch": bool(fails)})
        if ncases == 0:
            out["errors"].append("Engine N family %s generated no cases" % f)
        if results[f][0] and not run_families.ok_counts.get(f) and f != "builder_malformed":
            out["errors"].append("vacuous: Engine N family %s: the library answered none of its %d cases" % (f, ncases))
        fails.sort(key=lambda x: len(x[0].line))
        for seen, (c, why, r) in enumerate(fails[:3]):
            oid = "N.%s#%d" % (f, seen)
            out["obligations"].append({"id": oid, "unit": "native:" + f, "kind": "N.contract." + why[0], "label": "bounded", "line": None,
                                       "desc": "run-time contract on the real layout classes (%s): %s" % (f, why[1][:1200]),
                                       "status": "refuted", "time": 0.0, "backend": "native", "model": why[1][:2000], "auto": False})
            out["replay"][oid] = {"input": c.line, "engine": "N", "why": why[1][:3000], "driver_line": "x " + c.line}
    # recorded known findings: replay each recorded input; still failing -> KNOWN-FINDING (matched by the caller)
    kc = known_cases(known, pid)
    if kc:
        plain = [(k, f, i, c) for k, (f, i, c) in enumerate(kc) if not c.get("memcheck")]
        res = nrun.run_cases(["kf%d_%d %s" % (k, i, c["line"]) for k, f, i, c in plain], asan=False) if plain else {}
        for k, (f, i, c) in enumerate(kc):
            if c.get("memcheck"):
                # a read/write outside the buffers that does not crash: observed with valgrind memcheck on the real build
                try:
                    bad, so, se = nrun.run_memcheck("kf %s" % c["line"])
                except Exception as e:
                    out["errors"].append("valgrind replay of %s failed: %s" % (f["id"], e))
                    continue
                good, shown = (not bad), "valgrind memcheck: %s" % (se[-400:] if bad else "no error")
            else:
                r = res["kf%d_%d" % (k, i)]
                exp = eval(c["expect"], dict(nrun.ENV))
                good = r.status == "OK" and loose(r.value, exp) and ("extra" not in c or r.extra == c["extra"])
                shown = str(r)[:300]
            if not good:
                oid = "N.known:%s#%d" % (f["id"], i)
                out["obligations"].append({"id": oid, "unit": "known:" + f["id"], "kind": "N.known", "label": "bounded", "line": None,
                                           "desc": "recorded input of %s: `%s` gives %s, the property requires %s" % (f["id"], c["line"], shown, c.get("expect", "no access outside the buffers")),
                                           "status": "refuted", "time": 0.0, "backend": "native", "model": shown[:1000], "auto": False})
                out["replay"][oid] = {"input": c["line"], "engine": "N", "driver_line": "x " + c["line"]}
    st_ = getattr(run_families, "stats", {})
    out["coverage"]["engine_N_cases"] = st_.get("cases", 0)
    out["coverage"]["engine_N_distinct"] = st_.get("distinct", 0)
    out["coverage"]["engine_N_samples"] = st_.get("samples", [])
    out["coverage"]["engine_N_wall_s"] = round(time.time() - t0, 1)
    out["coverage"]["engine_N_families"] = {f: results[f][0] for f in fams}
    return out


TRUSTED = [
    "Engine N (BOUNDED, never counted as proved): the layout classes are compiled from the working tree and linked with /verif/native/driver.cpp; "
    "rapidjson (an empty submodule here) is replaced by /verif/native/stub/rapidjson, which compares parameter values as trimmed JSON text and implements no JSON reading or writing "
    "(io/json.cpp is not linked; tojson/fromjson are never called)",
    "Engine N observes results the way ak.to_list does (length, getitem_at_nowrap, Record fields, NumpyArray scalars); the Python layer (src/awkward/*.py) and the pybind11 layer (src/python/*.cpp) are not executed",
    "Engine N reference semantics (akvlib/nat/refops.py, layouts.py) are hand-written from the property statements and the documented meaning of each node class",
]
