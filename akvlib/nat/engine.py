"""Engine N: run-time contracts on the REAL libawkward layout classes, checked on a bounded,
seeded input space (a BOUNDED stand-in: never counted as proved).

Each family states a postcondition of one Content method over the abstract value of the
layouts (the nested Python value ak.to_list would show, layouts.tolist), taken from the property
text; the native driver (/verif/native/driver.cpp) links the working tree's libawkward + kernels
and evaluates the real method; the contract is then checked on the observed result.  Every case
additionally asserts, where a layout is returned, that it passes validityerror (C11), that the
input layouts are byte-for-byte unchanged and that the result is still the same after its inputs
are dropped (C12), and that the call neither crashed nor hung (C12)."""
import json, os, random, time

from . import layouts as L, refops as R, run as nrun

VERIF = os.path.normpath(os.path.join(os.path.dirname(os.path.abspath(__file__)), "..", ".."))


class Case:
    __slots__ = ("line", "check", "info", "family", "id")

    def __init__(self, line, check, info):
        self.line, self.check, self.info = line, check, info


def loose(a, b):
    """value equality of nested results: numbers by value (True == 1, 2 == 2.0), nan == nan"""
    if a is None or b is None:
        return a is None and b is None
    if isinstance(a, list) or isinstance(b, list):
        return isinstance(a, list) and isinstance(b, list) and len(a) == len(b) and all(loose(x, y) for x, y in zip(a, b))
    if isinstance(a, tuple) or isinstance(b, tuple):
        return isinstance(a, tuple) and isinstance(b, tuple) and len(a) == len(b) and all(loose(x, y) for x, y in zip(a, b))
    if isinstance(a, dict) or isinstance(b, dict):
        return (isinstance(a, dict) and isinstance(b, dict) and list(a.keys()) == list(b.keys())
                and all(loose(a[k], b[k]) for k in a))
    if isinstance(a, float) and a != a:
        return isinstance(b, float) and b != b
    if isinstance(b, float) and b != b:
        return False
    if isinstance(a, (str, bytes)) or isinstance(b, (str, bytes)):
        return type(a) == type(b) and a == b
    return a == b


# a check returns None or (category, text); category decides which property the failure belongs to:
#   value -> the family's own properties, validity -> C11, purity/crash -> C12
def expect_value(ref, what="result", cmp=loose, want_valid=True):
    def check(r):
        if r.status != "OK":
            return ("value", "%s: library %s (%s %s) where the property defines the value %r" % (what, r.status, r.exc or "", r.msg[:200], ref))
        if not cmp(r.value, ref):
            return ("value", "%s: library returned %s, the property requires %r" % (what, r.raw[:600], ref))
        return common_checks(r, want_valid)
    return check


def common_checks(r, want_valid=True):
    if want_valid and r.validity not in (None, "", "-"):
        return ("validity", "the layout returned for a valid input fails the validity check: %s" % r.validity[:300])
    if r.pure == 0:
        return ("purity", "an input layout was modified by the call")
    if r.pure == 2:
        return ("purity", "the result changed after its inputs were dropped")
    return None


# --------------------------------------------------------------------------------------------- type generators

LEAF_ALL = ["int64", "float64", "bool", "int32", "uint8", "float32", "int8", "uint64", "int16", "uint16", "uint32"]


def gen_pure(rng, depth, optleaf=0.3, optlist=0.2, regular=0.0, size0=True, leaf=None, leafrec=0.0):
    """type with `depth` list levels below the array: lists / options / numbers only (leafrec: records of numbers as leaves)"""
    if depth == 0:
        if rng.random() < leafrec:
            k = rng.randint(1, 2)
            keys = None if rng.random() < 0.3 else ["x", "y"][:k]
            T = ("record", keys, [gen_pure(rng, 0, optleaf, 0, 0, size0, leaf, 0.0) for _ in range(k)])
        else:
            T = ("num", rng.choice(leaf or LEAF_ALL))
        return ("option", T) if rng.random() < optleaf else T
    inner = gen_pure(rng, depth - 1, optleaf, optlist, regular, size0, leaf, leafrec)
    if rng.random() < regular:
        T = ("regular", inner, rng.randint(0 if size0 else 1, 3))
    else:
        T = ("list", inner)
    return ("option", T) if rng.random() < optlist else T


def gen_rect(rng, depth, optleaf=0.3, size0=True, leaf=None):
    T = ("num", rng.choice(leaf or LEAF_ALL))
    if rng.random() < optleaf:
        T = ("option", T)
    for _ in range(depth):
        T = ("regular", T, rng.randint(0 if size0 else 1, 3))
    return T


def has_option_list(T):
    while True:
        if T[0] == "option":
            if T[1][0] in ("list", "regular"):
                return True
            T = T[1]
        elif T[0] in ("list", "regular"):
            T = T[1]
        else:
            return False


# --------------------------------------------------------------------------------------------- families

REDUCERS = ["count", "count_nonzero", "sum", "prod", "any", "all", "min", "max", "argmin", "argmax"]


def fam_reduce_ragged(rng):
    """C03 on ragged arrays.  argmin/argmax are driven only along the innermost axis, or the axis above it when
    no list level is optional and no IndexedArray sits in between (known findings KF-C03-argpos-*)"""
    T = gen_pure(rng, rng.randint(0, 3))
    depth, dtype = R.list_depth(T)
    red = rng.choice(REDUCERS)
    vals = [L.gen_value(rng, T) for _ in range(rng.randint(0, 4))]
    isarg = red in ("argmin", "argmax")
    if red in ("min", "max", "argmin", "argmax") and "nan" in repr(vals):
        return None
    axis = rng.randint(-depth, depth - 1)
    posaxis = axis + depth if axis < 0 else axis
    allow_indexed = True
    if isarg:
        if posaxis < depth - 2:
            return None
        if posaxis == depth - 2:
            if has_option_list(T):
                return None
            allow_indexed = False
    lay = L.Enc(rng, allow_indexed=allow_indexed).encode(vals, T)
    mask, keep = rng.random() < 0.4, rng.random() < 0.3
    ref = R.reduce_typed(vals, T, axis, red, mask, keep)
    line = "reduce %s %d %d %d %s" % (red, axis, mask, keep, lay.tokens())
    return Case(line, expect_value(ref, "%s(axis=%d, mask_identity=%s, keepdims=%s) of %r" % (red, axis, mask, keep, vals)),
                {"value": vals, "type": T})


def fam_reduce_rect(rng):
    """C03 on rectilinear arrays (RegularArray chains and n-dimensional NumpyArray): NumPy's result, every reducer and axis"""
    T = gen_rect(rng, rng.randint(0, 3))
    depth, dtype = R.list_depth(T)
    red = rng.choice(REDUCERS)
    vals = [L.gen_value(rng, T) for _ in range(rng.randint(0, 4))]
    if red in ("min", "max", "argmin", "argmax") and "nan" in repr(vals):
        return None
    axis = rng.randint(-depth, depth - 1)
    lay = L.Enc(rng).encode(vals, T)
    mask, keep = rng.random() < 0.4, rng.random() < 0.3
    ref = R.reduce_typed(vals, T, axis, red, mask, keep)
    line = "reduce %s %d %d %d %s" % (red, axis, mask, keep, lay.tokens())
    return Case(line, expect_value(ref, "%s(axis=%d, mask_identity=%s, keepdims=%s) of %r" % (red, axis, mask, keep, vals)),
                {"value": vals, "type": T})


def fam_tolist(rng):
    """C02 base: every physical encoding of a value reads back as that value (length, getitem_at, fields, scalars)"""
    T = L.gen_type(rng, rng.randint(0, 3), allow_union=True)
    vals = [L.gen_value(rng, T) for _ in range(rng.randint(0, 4))]
    lay = L.Enc(rng).encode(vals, T)
    return Case("tolist " + lay.tokens(), expect_value(vals, "to_list", cmp=L.same, want_valid=False), {"value": vals, "type": T})


def fam_valid_accept(rng):
    """C11 (no false error): a layout obeying every documented rule passes the validity check"""
    T = L.gen_type(rng, rng.randint(0, 3), allow_union=True)
    vals = [L.gen_value(rng, T) for _ in range(rng.randint(0, 4))]
    lay = L.Enc(rng).encode(vals, T)
    assert L.valid(lay)

    def check(r):
        if r.status != "OK":
            return ("value", "validity check %s (%s %s) on a layout that obeys every rule" % (r.status, r.exc or "", r.msg[:200]))
        if r.value != "":
            return ("value", "validity check reports %r for a layout that obeys every documented rule" % r.extra[:300])
        return common_checks(r, False)
    return Case("validity " + lay.tokens(), check, {"value": vals, "type": T})


def struct_depth(T):
    """number of list levels (the array itself is level 1) of a list/regular/option type, leaves opaque"""
    d = 1
    while True:
        if T[0] == "option":
            T = T[1]
        elif T[0] in ("list", "regular"):
            d += 1
            T = T[1]
        else:
            return d


def has_record(T):
    if T[0] == "record":
        return True
    if T[0] in ("list", "regular", "option"):
        return has_record(T[1])
    return False


def _struct_case(rng, regular=0.25, maxdepth=3):
    T = gen_pure(rng, rng.randint(0, maxdepth), regular=regular, leafrec=0.2)
    vals = [L.gen_value(rng, T) for _ in range(rng.randint(0, 4))]
    lay = L.Enc(rng).encode(vals, T)
    return T, vals, lay, struct_depth(T)


def _axis(rng, T, depth, lo=0):
    """an axis in [lo, depth-1], written negatively half of the time (never negatively across records, where a
    negative axis is resolved per field)"""
    posaxis = rng.randint(lo, depth - 1)
    if rng.random() < 0.5 and not has_record(T):
        return posaxis - depth, posaxis
    return posaxis, posaxis


def fam_num(rng):
    """C05: num(axis) equals the lengths of the lists at that level; missing lists stay missing"""
    T, vals, lay, depth = _struct_case(rng)
    if has_record(T) and depth == 1:
        return None      # num of an array of records is resolved per field (a record of counts)
    axis, posaxis = _axis(rng, T, depth)
    ref = R.num(vals, posaxis)
    return Case("num %d %s" % (axis, lay.tokens()), expect_value(ref, "num(axis=%d) of %r" % (axis, vals)), {"value": vals, "type": T})


def fam_flatten(rng):
    """C05: flatten(axis >= 1) concatenates, in order, the lists at that level; a missing list contributes nothing"""
    T, vals, lay, depth = _struct_case(rng)
    if depth < 2:
        return None
    axis, posaxis = _axis(rng, T, depth, 1)
    ref = R.flatten(vals, posaxis)
    return Case("flatten %d %s" % (axis, lay.tokens()), expect_value(ref, "flatten(axis=%d) of %r" % (axis, vals)), {"value": vals, "type": T})


def fam_localindex(rng):
    """C05: local_index(axis) is 0..n-1 inside every list at that level"""
    T, vals, lay, depth = _struct_case(rng)
    axis, posaxis = _axis(rng, T, depth)
    ref = R.localindex(vals, posaxis)
    return Case("localindex %d %s" % (axis, lay.tokens()), expect_value(ref, "local_index(axis=%d) of %r" % (axis, vals)), {"value": vals, "type": T})


def fam_rpad(rng):
    """C09: pad_none(target, axis, clip) gives every list at that axis length max(len, target) (exactly target with clip) by appending None"""
    T, vals, lay, depth = _struct_case(rng)
    axis, posaxis = _axis(rng, T, depth)
    target, clip = rng.randint(0, 5), rng.random() < 0.5
    ref = R.rpad(vals, target, posaxis, clip)
    return Case("rpad %d %d %d %s" % (target, axis, clip, lay.tokens()),
                expect_value(ref, "pad_none(target=%d, axis=%d, clip=%s) of %r" % (target, axis, clip, vals)), {"value": vals, "type": T})


def fam_combinations(rng):
    """C07: combinations(n, replacement, axis) yields per list exactly the itertools tuples, in order"""
    T, vals, lay, depth = _struct_case(rng, maxdepth=2)
    axis, posaxis = _axis(rng, T, depth)
    n, repl = rng.randint(1, 4), rng.random() < 0.4
    ref = R.combinations(vals, n, repl, posaxis)
    return Case("combinations %d %d %d %s" % (n, repl, axis, lay.tokens()),
                expect_value(ref, "combinations(n=%d, replacement=%s, axis=%d) of %r" % (n, repl, axis, vals), cmp=L.same), {"value": vals, "type": T})


SORT_OPTLIST = 0.0
SORT_OPTLEAF = 0.3


def fam_sort(rng):
    """C06: sort(axis) orders every list along the axis (NaN first, missing last) and leaves every other level untouched;
    missing values at the leaves only (KF-C06-sort-missing-lists)"""
    T = gen_pure(rng, rng.randint(0, 3), regular=0.0, optlist=SORT_OPTLIST, optleaf=SORT_OPTLEAF)
    vals = [L.gen_value(rng, T) for _ in range(rng.randint(0, 4))]
    lay = L.Enc(rng).encode(vals, T)
    depth = struct_depth(T)
    posaxis = depth - 1
    axis = posaxis if rng.random() < 0.5 else -1
    asc, stable = rng.random() < 0.5, rng.random() < 0.5
    ref = R.sort(vals, posaxis, asc)
    return Case("sort %d %d %d %s" % (axis, asc, stable, lay.tokens()),
                expect_value(ref, "sort(axis=%d, ascending=%s, stable=%s) of %r" % (axis, asc, stable, vals)), {"value": vals, "type": T})


def fam_argsort(rng):
    """C06: argsort(axis) returns, per list, positions that realise the sorted order (stable: ties in original order);
    missing values at the leaves only and at least one present leaf (KF-C06-*)"""
    T = gen_pure(rng, rng.randint(0, 3), regular=0.0, optlist=SORT_OPTLIST, optleaf=SORT_OPTLEAF)
    vals = [L.gen_value(rng, T) for _ in range(rng.randint(0, 4))]
    if "None" in repr(vals) and not any(ch.isdigit() or ch in "TF" for ch in repr(vals).replace("None", "")):
        return None
    lay = L.Enc(rng).encode(vals, T)
    depth = struct_depth(T)
    posaxis = depth - 1
    axis = posaxis if rng.random() < 0.5 else -1
    asc, stable = rng.random() < 0.5, rng.random() < 0.5

    def ok(got, orig, d):
        if d == 0:
            if not isinstance(got, list):
                return False
            # positions of missing values may be rendered as None by the library: they must come last
            npresent = sum(1 for v in orig if v is not None)
            pos = got[:npresent]
            rest = got[npresent:]
            if any(p is None for p in pos):
                return False
            missing_pos = [i for i, v in enumerate(orig) if v is None]
            if all(p is None for p in rest):
                full = pos + missing_pos
            else:
                full = got
            if len(full) != len(orig) or any(not isinstance(p, int) for p in full):
                return False
            return R.is_sorted_realisation(orig, full, asc, stable)
        if not isinstance(got, list) or len(got) != len(orig):
            return False
        return all((g is None and o is None) or (g is not None and o is not None and ok(g, o, d - 1)) for g, o in zip(got, orig))

    def check(r):
        if r.status != "OK":
            return ("value", "argsort: library %s (%s %s)" % (r.status, r.exc or "", r.msg[:200]))
        if not ok(r.value, vals, posaxis):
            return ("value", "argsort(axis=%d, ascending=%s, stable=%s) of %r: library returned %s, which does not realise the sorted order" % (axis, asc, stable, vals, r.raw[:400]))
        return common_checks(r)
    return Case("argsort %d %d %d %s" % (axis, asc, stable, lay.tokens()), check, {"value": vals, "type": T})


def fam_carry_range(rng):
    """C02/C01 base: carry(index) selects x[i] for each i; getitem_range(a, b) is Python's x[a:b]; getitem_at(i) is x[i]"""
    T = L.gen_type(rng, rng.randint(0, 2), allow_union=True)
    vals = [L.gen_value(rng, T) for _ in range(rng.randint(0, 5))]
    lay = L.Enc(rng).encode(vals, T)
    n = len(vals)
    k = rng.random()
    if k < 0.35 and n > 0:
        idx = [rng.randrange(n) for _ in range(rng.randint(0, 6))]
        return Case("carry %d %s %s" % (len(idx), " ".join(map(str, idx)), lay.tokens()) if idx else "carry 0 %s" % lay.tokens(),
                    expect_value([vals[i] for i in idx], "carry(%r) of %r" % (idx, vals), cmp=L.same), {"value": vals})
    if k < 0.7:
        a = rng.choice([None] + list(range(-n - 2, n + 3)))
        b = rng.choice([None] + list(range(-n - 2, n + 3)))
        return Case("getitem_range %s %s %s" % ("_" if a is None else a, "_" if b is None else b, lay.tokens()),
                    expect_value(vals[a:b], "x[%r:%r] of %r" % (a, b, vals), cmp=L.same), {"value": vals})
    i = rng.randint(-n - 1, n)
    if -n <= i < n:
        return Case("getitem_at %d %s" % (i, lay.tokens()), expect_value(vals[i], "x[%d] of %r" % (i, vals), cmp=L.same, want_valid=False), {"value": vals})

    def check(r):
        if r.status == "EXC":
            return None
        return ("value", "x[%d] on an array of length %d must raise an index error, library: %s" % (i, n, r))
    return Case("getitem_at %d %s" % (i, lay.tokens()), check, {"value": vals})


def _tok_item(it):
    k = it[0]
    if k == "at":
        return "at %d" % it[1]
    if k == "rng":
        return "rng %s %s %s" % tuple("_" if x is None else x for x in it[1:4])
    if k == "ell":
        return "ell"
    if k == "new":
        return "new"
    if k == "fld":
        return "fld %s" % it[1]
    if k == "arr":
        frombool = it[3] if len(it) > 3 else 0
        return "arr %d %d %s %s" % (frombool, len(it[2]), " ".join(map(str, it[2])), " ".join(map(str, it[1])))
    if k == "miss":
        idx, vals, j = [], [], 0
        for i in it[1]:
            if i is None:
                idx.append(-1)
            else:
                idx.append(len(vals))
                vals.append(i)
        return "lay " + L.IO("64", idx, L.NP("int64", vals)).tokens()
    if k == "lay":
        return "lay " + it[1].tokens()
    raise ValueError(it)


def slice_tokens(items):
    return "%d %s" % (len(items), " ".join(_tok_item(it) for it in items))


def expect_getitem(x, T, items, what):
    try:
        ref = R.getitem(x, T, items)
    except R.IndexErr as e:
        msg = str(e)

        def check(r):
            if r.status == "EXC":
                return None
            return ("value", "%s: %s, so the library must raise; it returned %s" % (what, msg, r))
        return check
    except R.Refuse:
        return None
    inner = expect_value(ref, what, cmp=L.same)
    if R.regular_out_of_range(T, items):
        # NumPy raises for an index beyond a fixed-size dimension even if nothing is selected: either is right
        def check2(r):
            return None if r.status == "EXC" else inner(r)
        return check2
    return inner


def _rand_range(rng, n):
    def b():
        return rng.choice([None, None] + list(range(-n - 2, n + 3)))
    step = rng.choice([None, None, 1, 1, 2, 3, -1, -1, -2, -3])
    return ("rng", b(), b(), step)


def fam_getitem_basic(rng):
    """C01: integers, ranges with any bounds and step, ellipsis, newaxis and field names select what Python/NumPy
    indexing selects level by level (out-of-range integers raise)"""
    usefld = rng.random() < 0.3
    T = gen_pure(rng, rng.randint(0, 3), regular=0.25, leafrec=1.0 if usefld else 0.0)
    vals = [L.gen_value(rng, T) for _ in range(rng.randint(0, 4))]
    lay = L.Enc(rng).encode(vals, T)
    levels = R._levels(("list", T))
    items = []
    ncons = rng.randint(0, levels)
    lens = [len(vals)]
    for i in range(ncons):
        if rng.random() < 0.4:
            items.append(("at", rng.randint(-3, 3)))
        else:
            items.append(_rand_range(rng, 3))
    if rng.random() < 0.25:
        items.insert(rng.randint(0, len(items)), ("ell",))
    for _ in range(rng.choice([0, 0, 0, 1, 2])):
        items.insert(rng.randint(0, len(items)), ("new",))
    if usefld:
        leaf = T
        while leaf[0] in ("list", "regular", "option"):
            leaf = leaf[1]
        if leaf[0] == "record":
            key = rng.choice(leaf[1]) if leaf[1] is not None else str(rng.randrange(len(leaf[2])))
            items.insert(rng.randint(0, len(items)), ("fld", key))
    if not items:
        return None
    chk = expect_getitem(vals, T, items, "x[%r] of %r" % (items, vals))
    if chk is None:
        return None
    return Case("getitem %s %s" % (slice_tokens(items), lay.tokens()), chk, {"value": vals, "type": T})


def fam_getitem_array(rng):
    """C01: integer arrays (one or two adjacent, one- or two-dimensional, negative entries) and boolean arrays, mixed
    with integers and ranges, select NumPy-style: the first array creates the new dimension(s), adjacent arrays iterate
    together; index arrays containing missing values give missing results.  Arrays without missing LISTS
    (KF-C01-advanced-with-missing-lists), no empty index array after another item (KF-C01-empty-index-array)"""
    T = gen_pure(rng, rng.randint(0, 3), regular=0.25, optlist=0.0)
    n = rng.randint(1, 4)
    vals = [L.gen_value(rng, T) for _ in range(n)]
    lay = L.Enc(rng).encode(vals, T)
    levels = R._levels(("list", T))
    kind = rng.choice(["int", "int", "int2", "bool", "miss"])
    pre = []
    if rng.random() < 0.3 and levels >= 2:
        pre = [_rand_range(rng, 3) if rng.random() < 0.7 else ("at", rng.randint(-2, 2))]
    remaining = levels - len(pre)
    if remaining < 1:
        return None
    shape = [rng.randint(0, 4)] if rng.random() < 0.75 else [rng.randint(1, 2), rng.randint(0, 3)]
    flatlen = 1
    for d in shape:
        flatlen *= d
    arrs = []
    if kind == "miss":
        if pre:
            return None
        arrs = [("miss", [None if rng.random() < 0.3 else rng.randint(-2, 2) for _ in range(rng.randint(0, 4))])]
    elif kind == "bool":
        if pre:
            return None
        mask = [rng.random() < 0.5 for _ in range(n)]
        nz = [i for i, m in enumerate(mask) if m]
        arrs = [("arr", nz, [len(nz)], 1)]
    else:
        narr = 2 if (kind == "int2" and remaining >= 2) else 1
        for _ in range(narr):
            arrs.append(("arr", [rng.randint(-2, 2) for _ in range(flatlen)], shape))
    post = []
    left = remaining - len(arrs)
    if left > 0 and rng.random() < 0.4 and kind != "miss":
        post = [_rand_range(rng, 3) if rng.random() < 0.6 else ("at", rng.randint(-2, 2))]
    if pre and flatlen == 0 and kind != "miss":
        return None      # KF-C01-empty-index-array
    items = pre + arrs + post
    chk = expect_getitem(vals, T, items, "x[%r] of %r" % (items, vals))
    if chk is None:
        return None
    return Case("getitem %s %s" % (slice_tokens(items), lay.tokens()), chk, {"value": vals, "type": T})


def _gen_jagged(rng, v, depth, boolean, none_p):
    """a jagged index matching the list structure of v down `depth` levels, then int/bool leaves into the next level"""
    if v is None:
        return None if rng.random() < 0.5 else []
    if depth == 0:
        n = len(v)
        if boolean:
            return [rng.random() < 0.5 for _ in range(n)]
        return [None if rng.random() < none_p else (rng.randint(-n, n - 1) if n else 0) for _ in range(rng.randint(0, 3) if n else 0)]
    return [_gen_jagged(rng, e, depth - 1, boolean, none_p) for e in v]


def _jag_type(depth, boolean, none_p):
    T = ("num", "bool" if boolean else "int64")
    if none_p > 0 and not boolean:
        T = ("option", T)
    T = ("list", T)
    for _ in range(depth):
        T = ("list", T)
    return T


def fam_getitem_jagged(rng):
    """C01: a jagged integer or boolean array (optionally with missing entries) selects list by list"""
    T = gen_pure(rng, rng.randint(1, 3), regular=0.0, optlist=0.0)
    vals = [L.gen_value(rng, T) for _ in range(rng.randint(0, 4))]
    lay = L.Enc(rng).encode(vals, T)
    levels = R._levels(("list", T))
    depth = rng.randint(1, levels - 1) if levels >= 2 else None
    if depth is None:
        return None
    boolean = rng.random() < 0.35
    none_p = 0.0 if boolean or rng.random() < 0.6 else 0.25
    J = _gen_jagged(rng, vals, depth, boolean, none_p)
    JT = _jag_type(depth - 1, boolean, none_p)     # element type of the index array J (a list of ...)
    # J is a list (the array) of values of type: depth-1 more list levels, then the int/bool list
    jl = L.Enc(rng, style="canonical").encode(J, JT)
    try:
        ref = R.jagged(vals, J)
    except R.IndexErr:
        return None
    except R.Refuse:
        return None
    what = "x[jagged %r] of %r" % (J, vals)
    return Case("getitem 1 lay %s %s" % (jl.tokens(), lay.tokens()), expect_value(ref, what, cmp=L.same), {"value": vals, "type": T})


def fam_getitem_numpy(rng):
    """C01: on rectilinear arrays (RegularArray chains / n-dimensional NumpyArray) every accepted index expression
    gives NumPy's own result (oracle: numpy itself): integers, ranges, ellipsis, newaxis, adjacent integer arrays
    (broadcast together), boolean arrays of one or two dimensions"""
    import numpy as np
    ndim = rng.randint(1, 3)
    shape = [rng.randint(0, 3) for _ in range(ndim)]
    dtype = rng.choice(["int64", "float64", "int32", "bool", "uint8"])
    total = 1
    for d in shape:
        total *= d
    flat = [L.gen_leaf(rng, dtype) for _ in range(total)]
    if dtype.startswith("float"):
        flat = [0.0 if x != x else x for x in flat]
    a = np.array(flat, dtype=dtype).reshape(shape)
    T = ("num", dtype)
    for d in reversed(shape[1:]):
        T = ("regular", T, d)
    vals = a.tolist()
    lay = L.Enc(rng).encode(vals, T) if shape[0] > 0 or ndim == 1 else L.NP(dtype, flat, shape)
    items, npitems = [], []
    kind = rng.choice(["basic", "arr", "arr", "bool"])
    dim = 0
    if kind == "bool":
        bd = 1 if ndim == 1 or rng.random() < 0.6 else 2
        bshape = shape[:bd]
        btotal = 1
        for d in bshape:
            btotal *= d
        mask = np.array([rng.random() < 0.5 for _ in range(btotal)], dtype=bool).reshape(bshape)
        nz = np.nonzero(mask)
        for comp in nz:
            items.append(("arr", [int(i) for i in comp], [len(comp)], 1))
        npitems.append(mask)
        dim = bd
    elif kind == "arr":
        while dim < ndim and rng.random() < 0.4:
            it = _rand_range(rng, 3)
            items.append(it)
            npitems.append(slice(it[1], it[2], it[3]))
            dim += 1
        if dim >= ndim:
            return None
        ashape = [rng.randint(1, 3)] if rng.random() < 0.7 else [rng.randint(1, 2), rng.randint(1, 2)]
        at = 1
        for d in ashape:
            at *= d
        narr = 1 if (ndim - dim < 2 or rng.random() < 0.5) else 2
        for _ in range(narr):
            size = shape[dim]
            fl = [rng.randint(-size, size - 1) if size else rng.randint(-1, 1) for _ in range(at)]
            items.append(("arr", fl, ashape))
            npitems.append(np.array(fl, dtype=np.int64).reshape(ashape))
            dim += 1
    seen_range = False
    while dim < ndim and rng.random() < 0.6:
        # (an integer after array, range is "advanced indexes separated by basic indexes": documented refusal)
        if rng.random() < 0.35 and not (kind != "basic" and seen_range):
            size = shape[dim]
            i = rng.randint(-size - 1, size)
            items.append(("at", i))
            npitems.append(i)
        else:
            it = _rand_range(rng, 3)
            items.append(it)
            npitems.append(slice(it[1], it[2], it[3]))
            seen_range = True
        dim += 1
    if kind == "basic":
        if rng.random() < 0.3:
            pos = rng.randint(0, len(items))
            items.insert(pos, ("ell",))
            npitems.insert(pos, Ellipsis)
        for _ in range(rng.choice([0, 0, 1, 2])):
            pos = rng.randint(0, len(items))
            items.insert(pos, ("new",))
            npitems.insert(pos, None)
    if not items:
        return None
    what = "x[%r] of numpy array %r" % (items, vals)
    try:
        ref = a[tuple(npitems)]
        ref = ref.tolist()
    except IndexError as e:
        msg = str(e)
        # NumPy checks fixed-size dimensions even when nothing is selected; selecting level by level there is
        # nothing to be out of range: both outcomes are accepted in that case
        alt = None
        try:
            alt = (R.getitem(vals, T, items),)
        except (R.IndexErr, R.Refuse):
            pass

        def check(r):
            if r.status == "EXC":
                return None
            if alt is not None and r.status == "OK" and L.same(r.value, alt[0]):
                return None
            return ("value", "%s: NumPy raises IndexError (%s); the library returned %s" % (what, msg, r))
        return Case("getitem %s %s" % (slice_tokens(items), lay.tokens()), check, {"value": vals})
    return Case("getitem %s %s" % (slice_tokens(items), lay.tokens()), expect_value(ref, what, cmp=L.same), {"value": vals})


def fam_convert(rng):
    """C02/C09: conversions among encodings keep the value: toListOffsetArray64, toRegularArray, option-encoding
    conversions, simplify_optiontype, shallow_simplify, deep_copy, project (drops exactly the missing values), bytemask"""
    T = L.gen_type(rng, rng.randint(0, 2), allow_union=False)
    vals = [L.gen_value(rng, T) for _ in range(rng.randint(0, 5))]
    lay = L.Enc(rng).encode(vals, T)
    cands = ["deep_copy", "shallow_simplify"]
    if isinstance(lay, (L.LO, L.LA, L.RG)):
        cands += ["toListOffsetArray64 0", "toListOffsetArray64 1"]
        if len(set(len(v) for v in vals)) <= 1 and len(vals) > 0:
            cands.append("toRegularArray")
    if isinstance(lay, (L.IO, L.BM, L.BT, L.UM)):
        cands += ["project", "bytemask", "simplify_optiontype"]
    if isinstance(lay, (L.BM, L.BT, L.UM)):
        cands.append("toIndexedOptionArray64")
    if isinstance(lay, (L.BT, L.UM)):
        cands.append("toByteMaskedArray")
    if isinstance(lay, L.IX):
        cands += ["project", "simplify_optiontype"]
    if isinstance(lay, L.NP) and len(lay.shape) >= 1:
        cands += ["toRegularArray", "contiguous"]
    what = rng.choice(cands)
    if what == "project":
        ref = [v for v in vals if v is not None]
    elif what == "bytemask":
        ref = [1 if v is None else 0 for v in vals]
    else:
        ref = vals
    op = what if what in ("deep_copy", "shallow_simplify") else "convert " + what
    return Case("%s %s" % (op, lay.tokens()), expect_value(ref, "%s of %r" % (what, vals), cmp=(loose if what == "bytemask" else L.same)), {"value": vals})


# family -> (generator, properties whose statement the VALUE contract comes from)
FAMILIES = {
    "reduce_ragged": (fam_reduce_ragged, ["C03"]),
    "reduce_rect": (fam_reduce_rect, ["C03"]),
    "tolist": (fam_tolist, ["C02"]),
    "carry_range": (fam_carry_range, ["C02", "C01"]),
    "getitem_basic": (fam_getitem_basic, ["C01"]),
    "getitem_array": (fam_getitem_array, ["C01"]),
    "getitem_jagged": (fam_getitem_jagged, ["C01"]),
    "getitem_numpy": (fam_getitem_numpy, ["C01"]),
    "convert": (fam_convert, ["C02", "C09"]),
    "num": (fam_num, ["C05"]),
    "flatten": (fam_flatten, ["C05"]),
    "localindex": (fam_localindex, ["C05"]),
    "rpad": (fam_rpad, ["C09"]),
    "combinations": (fam_combinations, ["C07"]),
    "sort": (fam_sort, ["C06"]),
    "argsort": (fam_argsort, ["C06"]),
    "valid_accept": (fam_valid_accept, ["C11"]),
}
CATEGORY_PROPS = {"validity": ["C11"], "purity": ["C12"], "crash": ["C12"]}

QUICK_N = 1200
THOROUGH_N = 20000


def generate(family, n, seed):
    fn = FAMILIES[family][0]
    rng = random.Random("%s/%d" % (family, seed))
    out = []
    tries = 0
    while len(out) < n and tries < 20 * n:
        tries += 1
        c = fn(rng)
        if c is None:
            continue
        c.family = family
        c.id = "%s.%d" % (family, len(out))
        out.append(c)
    return out


def run_families(families, n, seed, asan=False):
    """-> {family: (ncases, [(case, why)])}"""
    cases = []
    for f in families:
        cases += generate(f, n, seed)
    res = nrun.run_cases(["%s %s" % (c.id, c.line) for c in cases], asan=asan)
    out = {f: [0, []] for f in families}
    for c in cases:
        r = res[c.id]
        out[c.family][0] += 1
        if r.status == "DRIVER":
            why = ("driver", "driver error: %s" % r.msg)
        elif r.status in ("CRASH", "TIMEOUT"):
            why = ("crash", "the process %s (signal %s) inside the library call" % ("hung" if r.status == "TIMEOUT" else "was killed", r.msg))
        elif r.status in ("MISSING", "UNPARSED"):
            why = ("driver", "no parsable answer from the driver: %s %s" % (r.status, r.msg))
        else:
            why = c.check(r)
        if why:
            out[c.family][1].append((c, why, r))
    return out


def known_cases(known, pid):
    """specific recorded inputs (known_findings.json, engine N): [(finding, line, expect)]"""
    out = []
    for f in known.get("findings", []):
        if f.get("engine") != "N":
            continue
        if f.get("property") != pid and pid not in f.get("also_properties", []):
            continue
        for i, c in enumerate(f.get("cases", [])):
            out.append((f, i, c))
    return out


def engine(pid, tier, seed, known, families=None):
    """families whose value contract comes from `pid` are checked in full; for C11 (results of operations on valid
    arrays are valid) and C12 (no crash, no hang, inputs untouched, result survives its inputs) every family is
    run and only the failures of that category are this property's"""
    t0 = time.time()
    out = {"obligations": [], "functions": {}, "errors": [], "notes": [], "bounded": [], "coverage": {}, "replay": {}}
    own = [f for f, (_, props) in FAMILIES.items() if pid in props]
    cats = [c for c, props in CATEGORY_PROPS.items() if pid in props]
    fams = families or (list(FAMILIES) if cats else own)
    n = QUICK_N if tier == "quick" else THOROUGH_N
    results = {}
    try:
        results = run_families(fams, n, seed, asan=(tier != "quick" and pid == "C12"))
    except Exception as e:
        import traceback
        out["errors"].append("Engine N could not run: %s" % traceback.format_exc()[-1500:])
        return out
    for f in fams:
        ncases, allfails = results[f]
        for c, why, r in allfails:
            if why[0] == "driver":
                out["errors"].append("Engine N: %s on `%s`" % (why[1], c.line[:300]))
        fails = [(c, why, r) for c, why, r in allfails
                 if (why[0] == "value" and f in own) or why[0] in cats or (why[0] == "crash" and f in own)]
        doc = (FAMILIES[f][0].__doc__ or "").strip().replace("\n", " ")
        scope = "value contract + " if f in own else ""
        out["bounded"].append({"function": "native libawkward: " + f,
                               "bound": "%d seeded random cases (lists <= 4 long, depth <= 3), seed %d; checked: %s%s; %s"
                                        % (ncases, seed, scope, ", ".join(cats) if cats else "no crash", doc),
                               "cases": ncases, "mismatch": bool(fails)})
        if ncases == 0:
            out["errors"].append("Engine N family %s generated no cases" % f)
        fails.sort(key=lambda x: len(x[0].line))
        for seen, (c, why, r) in enumerate(fails[:3]):
            oid = "N.%s#%d" % (f, seen)
            out["obligations"].append({"id": oid, "unit": "native:" + f, "kind": "N.contract." + why[0], "label": "bounded", "line": None,
                                       "desc": "run-time contract on the real layout classes (%s): %s" % (f, why[1][:1200]),
                                       "status": "refuted", "time": 0.0, "backend": "native", "model": why[1][:2000], "auto": False})
            out["replay"][oid] = {"input": c.line, "engine": "N", "why": why[1][:3000], "driver_line": "x " + c.line}
    # recorded known findings: replay each recorded input; still failing -> KNOWN-FINDING (matched by the caller)
    kc = known_cases(known, pid)
    if kc:
        lines = ["kf%d_%d %s" % (k, i, c["line"]) for k, (f, i, c) in enumerate(kc)]
        res = nrun.run_cases(lines, asan=False)
        for k, (f, i, c) in enumerate(kc):
            r = res["kf%d_%d" % (k, i)]
            exp = eval(c["expect"], dict(nrun.ENV))
            good = r.status == "OK" and loose(r.value, exp)
            if not good:
                oid = "N.known:%s#%d" % (f["id"], i)
                out["obligations"].append({"id": oid, "unit": "known:" + f["id"], "kind": "N.known", "label": "bounded", "line": None,
                                           "desc": "recorded input of %s: `%s` gives %s, the property requires %s" % (f["id"], c["line"], str(r)[:300], c["expect"]),
                                           "status": "refuted", "time": 0.0, "backend": "native", "model": str(r)[:1000], "auto": False})
                out["replay"][oid] = {"input": c["line"], "engine": "N", "driver_line": "x " + c["line"]}
    out["coverage"]["engine_N_wall_s"] = round(time.time() - t0, 1)
    out["coverage"]["engine_N_families"] = {f: results[f][0] for f in fams}
    return out


TRUSTED = [
    "Engine N (BOUNDED, never counted as proved): the layout classes are compiled from the working tree and linked with /verif/native/driver.cpp; "
    "rapidjson (an empty submodule here) is replaced by /verif/native/stub/rapidjson, which compares parameter values as trimmed JSON text and implements no JSON reading or writing "
    "(io/json.cpp is not linked; tojson/fromjson are never called)",
    "Engine N observes results the way ak.to_list does (length, getitem_at_nowrap, Record fields, NumpyArray scalars); the Python layer (src/awkward/*.py) and the pybind11 layer (src/python/*.cpp) are not executed",
    "Engine N reference semantics (akvlib/nat/refops.py, layouts.py) are hand-written from the property statements and the documented meaning of each node class",
]
