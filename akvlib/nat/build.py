"""Engine N build: compile the real libawkward layout classes (everything under
src/libawkward except io/json.cpp, which needs the absent rapidjson SAX API) and
the real CPU kernels of the working tree, and link them with /verif/native/driver.cpp.

rapidjson is an empty submodule in this sandbox; /verif/native/stub/rapidjson is a
stand-in that is only good enough to COMPILE util.cpp / Content.cpp / Type.cpp:
parameter values are compared as trimmed JSON text (exact for the scalar string,
null and boolean parameter values the driver uses), Form::fromjson and tojson are
never called.  This stand-in is listed as a trusted assumption in the evidence.

The build is cached by a content hash of every source and header it reads, in
/verif/.cache/nbuild/<hash>, so a change to /repo's working tree is rebuilt."""
import glob, hashlib, os, subprocess, sys, shutil
from concurrent.futures import ThreadPoolExecutor

from .. import cast

HERE = os.path.dirname(os.path.abspath(__file__))
NATIVE = os.path.normpath(os.path.join(HERE, "..", "..", "native"))
CXX = "g++"
ASAN = ["-fsanitize=address", "-fno-omit-frame-pointer"]


def sources():
    out = []
    for f in sorted(glob.glob(os.path.join(cast.REPO, "src", "libawkward", "**", "*.cpp"), recursive=True)):
        if f.endswith(os.path.join("io", "json.cpp")):
            continue
        out.append(f)
    out += sorted(glob.glob(os.path.join(cast.REPO, "src", "cpu-kernels", "*.cpp")))
    return out


def _hash(flags):
    h = hashlib.sha1(" ".join(flags).encode())
    files = sources()
    files += sorted(glob.glob(os.path.join(cast.REPO, "include", "awkward", "**", "*.h"), recursive=True))
    files += sorted(glob.glob(os.path.join(NATIVE, "**", "*.h"), recursive=True))
    files += sorted(glob.glob(os.path.join(NATIVE, "*.cpp")))
    for f in files:
        h.update(f.encode())
        h.update(open(f, "rb").read())
    return h.hexdigest()


def build(asan=False, jobs=16, verbose=False):
    """returns the path of the driver executable built from the current working tree"""
    flags = ["-std=c++11", "-O1", "-g0", "-fPIC", '-DVERSION_INFO="1.4.0"', "-w", "-DAKV_NATIVE=2",
             "-I" + os.path.join(NATIVE, "stub"), "-I" + os.path.join(cast.REPO, "include")]
    if asan:
        flags += ASAN
    key = _hash(flags)
    outdir = os.path.join(cast.CACHE, "nbuild", key)
    exe = os.path.join(outdir, "driver")
    if os.path.exists(exe):
        return exe
    # keep at most two old builds
    root = os.path.join(cast.CACHE, "nbuild")
    if os.path.isdir(root):
        old = sorted((os.path.getmtime(os.path.join(root, d)), d) for d in os.listdir(root))
        for _, d in old[:-3]:
            shutil.rmtree(os.path.join(root, d), ignore_errors=True)
    os.makedirs(outdir, exist_ok=True)
    srcs = sources() + sorted(glob.glob(os.path.join(NATIVE, "*.cpp")))

    def comp(src):
        rel = os.path.relpath(src, cast.REPO if src.startswith(cast.REPO) else NATIVE)
        obj = os.path.join(outdir, rel.replace(os.sep, "_")[:-4] + ".o")
        p = subprocess.run([CXX] + flags + ["-c", src, "-o", obj], stdout=subprocess.PIPE, stderr=subprocess.PIPE)
        return src, obj, p.returncode, p.stderr.decode()[-3000:]

    objs, errs = [], []
    with ThreadPoolExecutor(jobs) as ex:
        for src, obj, rc, err in ex.map(comp, srcs):
            if rc != 0:
                errs.append((src, err))
            else:
                objs.append(obj)
    if errs:
        raise RuntimeError("native build failed: %s\n%s" % (errs[0][0], errs[0][1]))
    tmp = exe + ".%d.tmp" % os.getpid()
    p = subprocess.run([CXX, "-no-pie", "-Wl,--unresolved-symbols=ignore-all", "-Wl,-z,lazy"] + (ASAN if asan else [])
                       + ["-o", tmp] + objs + ["-ldl", "-lpthread"], stdout=subprocess.PIPE, stderr=subprocess.PIPE)
    if p.returncode != 0:
        raise RuntimeError("native link failed: %s" % p.stderr.decode()[-3000:])
    os.replace(tmp, exe)
    for o in objs:
        try:
            os.remove(o)
        except OSError:
            pass
    return exe


if __name__ == "__main__":
    import time
    t = time.time()
    print(build(asan="--asan" in sys.argv), "%.1fs" % (time.time() - t))
