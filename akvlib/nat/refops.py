"""Reference semantics of array operations on nested Python values, written from the
property statements (C01, C03, C05, C06, C07, C08, C09), independent of the library."""
import itertools, math

INT_RANGE = {"int8": (-2**7, 2**7 - 1), "int16": (-2**15, 2**15 - 1), "int32": (-2**31, 2**31 - 1),
             "int64": (-2**63, 2**63 - 1), "uint8": (0, 2**8 - 1), "uint16": (0, 2**16 - 1),
             "uint32": (0, 2**32 - 1), "uint64": (0, 2**64 - 1)}


class Refuse(Exception):
    """the reference does not define this case (the generator should not have produced it)"""


def list_depth(T):
    """number of list levels of a purely list/option/num type, counting the array itself as level 1"""
    d = 1
    while True:
        if T[0] == "option":
            T = T[1]
        elif T[0] in ("list", "regular"):
            d += 1
            T = T[1]
        elif T[0] == "num":
            return d, T[1]
        else:
            raise Refuse("not a pure list type")


# ------------------------------------------------------------------------------------------ reducers (C03)

def _wrap(x, dtype):
    if dtype in INT_RANGE:
        lo, hi = INT_RANGE[dtype]
        return (x - lo) % (hi - lo + 1) + lo
    return x


def reducer_apply(name, group, dtype):
    """group: list of (position, value) of the non-missing elements, in order -> result (or the marker EMPTY)"""
    vals = [v for _, v in group]
    isfloat = dtype.startswith("float")
    acc = "uint64" if dtype.startswith("uint") else "int64"
    if name == "count":
        return len(vals)
    if name == "count_nonzero":
        return sum(1 for v in vals if v != 0)       # nan != 0
    if name == "any":
        return any(v != 0 for v in vals)
    if name == "all":
        return all(v != 0 for v in vals)
    if name == "sum":
        if isfloat:
            s = 0.0
            for v in vals:
                s = s + v
            return s
        return _wrap(sum(int(v) for v in vals), acc)
    if name == "prod":
        if dtype == "bool":
            return all(vals)
        if isfloat:
            s = 1.0
            for v in vals:
                s = s * v
            return s
        p = 1
        for v in vals:
            p = p * int(v)
        return _wrap(p, acc)
    if name in ("min", "max"):
        if not vals:
            if dtype == "bool":
                return name == "min"
            if isfloat:
                return math.inf if name == "min" else -math.inf
            lo, hi = INT_RANGE[dtype]
            return hi if name == "min" else lo
        return min(vals) if name == "min" else max(vals)
    if name in ("argmin", "argmax"):
        if not group:
            return -1
        best = None
        for p, v in group:
            if best is None or (v < best[1] if name == "argmin" else v > best[1]):
                best = (p, v)
        return best[0]
    raise ValueError(name)


def reduce(x, axis, name, dtype, depth, mask=False, keepdims=False):
    """x: list (the array), depth: number of list levels.  Elements that agree on every coordinate except
    the reduced one form a group."""
    posaxis = axis + depth if axis < 0 else axis
    if not (0 <= posaxis < depth):
        raise Refuse("axis out of range")
    return _reduce(x, posaxis, name, dtype, mask, keepdims)


def _reduce(x, posaxis, name, dtype, mask, keepdims):
    if posaxis == 0:
        out = _combine([(i, e) for i, e in enumerate(x)], name, dtype, mask)
        return [out] if keepdims else out
    return [None if e is None else _reduce(e, posaxis - 1, name, dtype, mask, keepdims) for e in x]


def _combine(items, name, dtype, mask):
    """items: (position along the reduced axis, element); missing elements are skipped"""
    present = [(p, e) for p, e in items if e is not None]
    if any(isinstance(e, list) for _, e in present) or (not present and False):
        n = max(len(e) for _, e in present)
        return [_combine([(p, e[j]) for p, e in present if j < len(e)], name, dtype, mask) for j in range(n)]
    if not present and items and False:
        pass
    if not present:
        # nothing to combine: whether this position is a list level or a leaf is decided by the caller's type
        return EMPTYGROUP(name, dtype, mask)
    if mask and not present:
        return None
    return reducer_apply(name, present, dtype)


class _Empty:
    pass


def EMPTYGROUP(name, dtype, mask):
    return None if mask else reducer_apply(name, [], dtype)


def reduce_typed(x, T, axis, name, mask=False, keepdims=False):
    """type-directed version: T is the element type of the array x (so x : list of T)"""
    depth, dtype = list_depth(T)
    posaxis = axis + depth if axis < 0 else axis
    if not (0 <= posaxis < depth):
        raise Refuse("axis out of range")
    return _reduce_t(x, T, posaxis, name, dtype, mask, keepdims)


def _strip(T):
    return T[1] if T[0] == "option" else T


def _reduce_t(x, T, posaxis, name, dtype, mask, keepdims):
    # x is a list whose elements have type T
    if posaxis == 0:
        out = _combine_t([(i, e) for i, e in enumerate(x)], T, name, dtype, mask)
        return [out] if keepdims else out
    inner = _strip(T)
    return [None if e is None else _reduce_t(e, inner[1], posaxis - 1, name, dtype, mask, keepdims) for e in x]


def _combine_t(items, T, name, dtype, mask):
    present = [(p, e) for p, e in items if e is not None]
    inner = _strip(T)
    if inner[0] in ("list", "regular"):
        n = max([len(e) for _, e in present] + [0])
        return [_combine_t([(p, e[j]) for p, e in present if j < len(e)], inner[1], name, dtype, mask) for j in range(n)]
    if not present and mask:
        return None
    return reducer_apply(name, present, dtype)
