"""Reference semantics of array operations on nested Python values, written from the
property statements (C01, C03, C05, C06, C07, C08, C09), independent of the library."""
import itertools, math

INT_RANGE = {"int8": (-2**7, 2**7 - 1), "int16": (-2**15, 2**15 - 1), "int32": (-2**31, 2**31 - 1),
             "int64": (-2**63, 2**63 - 1), "uint8": (0, 2**8 - 1), "uint16": (0, 2**16 - 1),
             "uint32": (0, 2**32 - 1), "uint64": (0, 2**64 - 1)}


class Refuse(Exception):
    """the reference does not define this case (the generator should not have produced it)"""


def list_depth(T):
    """number of list levels of a purely list/option/num type, counting the array itself as level 1"""
    d = 1
    while True:
        if T[0] == "option":
            T = T[1]
        elif T[0] in ("list", "regular"):
            d += 1
            T = T[1]
        elif T[0] == "num":
            return d, T[1]
        else:
            raise Refuse("not a pure list type")


# ------------------------------------------------------------------------------------------ reducers (C03)

def _wrap(x, dtype):
    if dtype in INT_RANGE:
        lo, hi = INT_RANGE[dtype]
        return (x - lo) % (hi - lo + 1) + lo
    return x


def reducer_apply(name, group, dtype):
    """group: list of (position, value) of the non-missing elements, in order -> result (or the marker EMPTY)"""
    vals = [v for _, v in group]
    if dtype.startswith("complex"):
        key = lambda z: (z.real, z.imag)        # NumPy orders complex numbers lexicographically
        if name == "count":
            return len(vals)
        if name == "count_nonzero":
            return sum(1 for v in vals if v != 0)
        if name in ("any", "all"):
            return (any if name == "any" else all)(v != 0 for v in vals)
        if name == "sum":
            s = complex(0.0, 0.0)
            for v in vals:
                s = s + v
            return s
        if name == "prod":
            s = complex(1.0, 0.0)
            for v in vals:
                s = s * v
            return s
        if name in ("min", "max"):
            if not vals:
                raise Refuse("identity of complex min/max")
            return min(vals, key=key) if name == "min" else max(vals, key=key)
        if name in ("argmin", "argmax"):
            if not group:
                return -1
            best = None
            for p, v in group:
                if best is None or (key(v) < key(best[1]) if name == "argmin" else key(v) > key(best[1])):
                    best = (p, v)
            return best[0]
        raise ValueError(name)
    isfloat = dtype.startswith("float")
    acc = "uint64" if dtype.startswith("uint") else "int64"
    if name == "count":
        return len(vals)
    if name == "count_nonzero":
        return sum(1 for v in vals if v != 0)       # nan != 0
    if name == "any":
        return any(v != 0 for v in vals)
    if name == "all":
        return all(v != 0 for v in vals)
    if name == "sum":
        if isfloat:
            s = 0.0
            for v in vals:
                s = s + v
            return s
        return _wrap(sum(int(v) for v in vals), acc)
    if name == "prod":
        if dtype == "bool":
            return all(vals)
        if isfloat:
            s = 1.0
            for v in vals:
                s = s * v
            return s
        p = 1
        for v in vals:
            p = p * int(v)
        return _wrap(p, acc)
    if name in ("min", "max"):
        if not vals:
            if dtype == "bool":
                return name == "min"
            if isfloat:
                return math.inf if name == "min" else -math.inf
            lo, hi = INT_RANGE[dtype]
            return hi if name == "min" else lo
        return min(vals) if name == "min" else max(vals)
    if name in ("argmin", "argmax"):
        if not group:
            return -1
        best = None
        for p, v in group:
            if best is None or (v < best[1] if name == "argmin" else v > best[1]):
                best = (p, v)
        return best[0]
    raise ValueError(name)


def reduce_typed(x, T, axis, name, mask=False, keepdims=False):
    """type-directed version: T is the element type of the array x (so x : list of T)"""
    depth, dtype = list_depth(T)
    posaxis = axis + depth if axis < 0 else axis
    if not (0 <= posaxis < depth):
        raise Refuse("axis out of range")
    return _reduce_t(x, T, posaxis, name, dtype, mask, keepdims)


def _strip(T):
    return T[1] if T[0] == "option" else T


def _reduce_t(x, T, posaxis, name, dtype, mask, keepdims):
    # x is a list whose elements have type T
    if posaxis == 0:
        out = _combine_t([(i, e) for i, e in enumerate(x)], T, name, dtype, mask)
        return [out] if keepdims else out
    inner = _strip(T)
    return [None if e is None else _reduce_t(e, inner[1], posaxis - 1, name, dtype, mask, keepdims) for e in x]


def _combine_t(items, T, name, dtype, mask):
    present = [(p, e) for p, e in items if e is not None]
    inner = _strip(T)
    if inner[0] in ("list", "regular"):
        n = max([len(e) for _, e in present] + [0])
        return [_combine_t([(p, e[j]) for p, e in present if j < len(e)], inner[1], name, dtype, mask) for j in range(n)]
    if not present and mask:
        return None
    return reducer_apply(name, present, dtype)


# ------------------------------------------------------------------------------------------ structure (C05)

def num(x, posaxis):
    if posaxis == 0:
        return len(x)
    return [None if e is None else num(e, posaxis - 1) for e in x]


def flatten(x, posaxis):
    """posaxis >= 1: concatenate, in order, the lists found at that level; a missing list contributes nothing"""
    if posaxis == 1:
        out = []
        for e in x:
            if e is not None:
                out.extend(e)
        return out
    return [None if e is None else flatten(e, posaxis - 1) for e in x]


def localindex(x, posaxis):
    if posaxis == 0:
        return list(range(len(x)))
    return [None if e is None else localindex(e, posaxis - 1) for e in x]


# ------------------------------------------------------------------------------------------ missing values (C09)

def rpad(x, target, posaxis, clip):
    if posaxis == 0:
        out = list(x) + [None] * max(0, target - len(x))
        return out[:target] if clip else out
    return [None if e is None else rpad(e, target, posaxis - 1, clip) for e in x]


# ------------------------------------------------------------------------------------------ combinations (C07)

def combinations(x, n, replacement, posaxis, positions=False):
    if posaxis == 0:
        src = list(range(len(x))) if positions else x
        it = itertools.combinations_with_replacement(src, n) if replacement else itertools.combinations(src, n)
        return [tuple(t) for t in it]
    return [None if e is None else combinations(e, n, replacement, posaxis - 1, positions) for e in x]


# ------------------------------------------------------------------------------------------ sorting (C06)

def _sortkey(v):
    # NaN first (the library's convention, in both directions)
    return v


def sort_list(vals, ascending):
    """non-missing elements ordered with NaN first, then by value; missing values last"""
    present = [v for v in vals if v is not None]
    nans = [v for v in present if isinstance(v, float) and v != v]
    rest = [v for v in present if not (isinstance(v, float) and v != v)]
    rest.sort(reverse=not ascending)
    return nans + rest + [None] * (len(vals) - len(present))


def sort(x, posaxis, ascending):
    if posaxis == 0:
        return sort_list(x, ascending)
    return [None if e is None else sort(e, posaxis - 1, ascending) for e in x]


def is_sorted_realisation(orig, positions, ascending, stable):
    """positions realise the required order of one list `orig` (argsort): a permutation of the positions of the
    non-missing elements (then the missing ones), values taken in that order are sort_list(orig), ties in original
    order when stable"""
    n = len(orig)
    if sorted(positions) != list(range(n)):
        return False
    taken = [orig[p] for p in positions]
    want = sort_list(orig, ascending)
    for a, b in zip(taken, want):
        if a is None or b is None:
            if not (a is None and b is None):
                return False
        elif isinstance(a, float) and a != a:
            if not (isinstance(b, float) and b != b):
                return False
        elif a != b:
            return False
    if stable:
        for i in range(n - 1):
            a, b = taken[i], taken[i + 1]
            same = (a is None and b is None) or (a is not None and b is not None and
                                                 ((a != a and b != b) or a == b))
            if same and positions[i] > positions[i + 1]:
                return False
    return True


# ------------------------------------------------------------------------------------------ slicing (C01)

class IndexErr(Exception):
    """the selection is out of range: the library must raise"""


def _levels(T):
    """number of list levels of a value of type T (0 for a leaf), through options"""
    n = 0
    while True:
        if T[0] == "option":
            T = T[1]
        elif T[0] in ("list", "regular"):
            n += 1
            T = T[1]
        else:
            return n


def _elem(T):
    """type of the elements of a list-typed value (through an option)"""
    if T[0] == "option":
        T = T[1]
    if T[0] not in ("list", "regular"):
        raise Refuse("indexing below the leaves")
    return T[1]


def _project_type(T, key):
    if T[0] in ("list", "regular"):
        return (T[0], _project_type(T[1], key)) + tuple(T[2:])
    if T[0] == "option":
        return ("option", _project_type(T[1], key))
    if T[0] == "record":
        if T[1] is None:
            return T[2][int(key)]
        return T[2][T[1].index(key)]
    raise Refuse("no record to project")


def project(v, key):
    if v is None:
        return None
    if isinstance(v, dict):
        return v[key]
    if isinstance(v, tuple):
        return v[int(key)]
    if isinstance(v, list):
        return [project(e, key) for e in v]
    raise Refuse("no record to project")


def apply_fields(v, fitems):
    """the field items of one slice, in order: a single name projects that field; a LIST of names keeps those fields
    and applies the remaining field items inside each of them (x[["a", "b"], "f"] = zip(a: x.a.f, b: x.b.f))"""
    if not fitems:
        return v
    head, tail = fitems[0], fitems[1:]
    if head[0] == "fld":
        return apply_fields(project(v, head[1]), tail)
    return _select(v, head[1], tail)


def _select(v, keys, tail):
    if v is None:
        return None
    if isinstance(v, dict):
        return {k: apply_fields(v[k], tail) for k in keys}
    if isinstance(v, list):
        return [_select(e, keys, tail) for e in v]
    raise Refuse("no record to project")


def _fields_type(T, fitems):
    if not fitems:
        return T
    head, tail = fitems[0], fitems[1:]
    if head[0] == "fld":
        return _fields_type(_project_type(T, head[1]), tail)
    if T[0] in ("list", "regular"):
        return (T[0], _fields_type(T[1], fitems)) + tuple(T[2:])
    if T[0] == "option":
        return ("option", _fields_type(T[1], fitems))
    if T[0] == "record" and T[1] is not None:
        return ("record", list(head[1]), [_fields_type(T[2][T[1].index(k)], tail) for k in head[1]])
    raise Refuse("no record to project")


def _wrapidx(i, n):
    j = i + n if i < 0 else i
    if not (0 <= j < n):
        raise IndexErr("index %d out of range for length %d" % (i, n))
    return j


def _consumes(item):
    return item[0] in ("at", "rng", "arr")


def _shape_build(flat, shape):
    if len(shape) == 1:
        return list(flat[:shape[0]])
    step = 1
    for s in shape[1:]:
        step *= s
    return [_shape_build(flat[i * step:(i + 1) * step], shape[1:]) for i in range(shape[0])]


def getitem(x, T, items):
    """x: the array (list of values of type T); items: list of slice items
         ("at", i) ("rng", a, b, s) ("ell",) ("new",) ("fld", key)
         ("arr", flat ints, shape)   -- all array items of one slice have the same shape and are adjacent
         ("miss", list of int/None)  -- one-dimensional, the only array item
    """
    return _R(x, ("list", T), list(items), None)


def _R(v, T, items, adv):
    if not items:
        return v
    head, tail = items[0], items[1:]
    k = head[0]
    if k in ("fld", "flds"):
        # every field item of the slice is applied first (inside the records), the positional items afterwards
        fitems = [it for it in items if it[0] in ("fld", "flds")]
        rest = [it for it in tail if it[0] not in ("fld", "flds")]
        return _R(apply_fields(v, fitems), _fields_type(T, fitems), rest, adv)
    if k == "new":
        return [_R(v, T, tail, adv)]
    if k == "ell":
        need = _levels(T) - sum(1 for it in tail if _consumes(it) or it[0] == "miss")
        return _R(v, T, [("rng", None, None, None)] * max(0, need) + tail, adv)
    if v is None:
        return None
    if not isinstance(v, list):
        raise Refuse("indexing below the leaves")
    ET = _elem(T)
    if k == "at":
        return _R(v[_wrapidx(head[1], len(v))], ET, tail, adv)
    if k == "rng":
        return [_R(e, ET, tail, adv) for e in v[slice(head[1], head[2], head[3])]]
    if k == "arr":
        flat, shape = head[1], head[2]
        if adv is None:
            out = [_R(v[_wrapidx(flat[j], len(v))], ET, tail, j) for j in range(len(flat))]
            return _shape_build(out, shape) if len(flat) or len(shape) == 1 else _empty_shape(shape)
        return _R(v[_wrapidx(flat[adv], len(v))], ET, tail, adv)
    if k == "miss":
        return [None if i is None else _R(v[_wrapidx(i, len(v))], ET, tail, j) for j, i in enumerate(head[1])]
    raise ValueError(head)


def _empty_shape(shape):
    if len(shape) == 1:
        return []
    return [_empty_shape(shape[1:]) for _ in range(shape[0])]


def jagged(v, J):
    """v[J] for a jagged index J (lists of int / bool / None leaves) matching v's list structure"""
    if v is None:
        return None
    if isinstance(v, dict):
        return {f: jagged(e, J) for f, e in v.items()}      # through a record: the same index into every field
    if all(isinstance(k, bool) for k in J) and len(J) > 0:
        if len(J) != len(v):
            raise IndexErr("boolean jagged index of the wrong length")
        return [e for e, k in zip(v, J) if k]
    if len(J) > 0 and all(k is None or isinstance(k, bool) for k in J) and any(isinstance(k, bool) for k in J):
        # a boolean mask with missing entries: True keeps the element, False drops it, None gives None
        if len(J) != len(v):
            raise IndexErr("boolean jagged index of the wrong length")
        return [None if k is None else e for e, k in zip(v, J) if k is None or k]
    if all((k is None) or (isinstance(k, int) and not isinstance(k, bool)) for k in J):
        return [None if k is None else v[_wrapidx(k, len(v))] for k in J]
    if all(isinstance(k, list) or k is None for k in J):
        if len(J) != len(v):
            raise IndexErr("jagged index of the wrong length")
        return [None if k is None else jagged(e, k) for e, k in zip(v, J)]
    raise Refuse("mixed jagged index")


def regular_out_of_range(T, items):
    """True when an integer (or array entry) is out of range for a REGULAR dimension: NumPy raises for that even when
    no list is selected, so the library may raise although the level-by-level selection is empty"""
    T = ("list", T)
    items = list(items)
    fitems = [it for it in items if it[0] in ("fld", "flds")]
    if fitems:
        try:
            T = _fields_type(T, fitems)
        except (Refuse, ValueError):
            return False
        items = [it for it in items if it[0] not in ("fld", "flds")]
    while items:
        head, items = items[0], items[1:]
        k = head[0]
        if k in ("new",):
            continue
        if k == "ell":
            need = _levels(T) - sum(1 for it in items if _consumes(it) or it[0] == "miss")
            items = [("rng", None, None, None)] * max(0, need) + items
            continue
        while T[0] == "option":
            T = T[1]
        if T[0] not in ("list", "regular"):
            return False
        if T[0] == "regular":
            size = T[2]
            idxs = [head[1]] if k == "at" else (list(head[1]) if k in ("arr", "miss") else [])
            for i in idxs:
                if i is not None and not (-size <= i < size):
                    return True
        T = T[1]
    return False
