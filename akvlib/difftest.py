"""Bounded differential check: the compiled kernel of the working tree against
its Python definition executed by CPython, on generated small inputs.

Used (a) as the witness finder that replays a refuted obligation on the real
code, (b) as the bounded stand-in for kernels whose definition does not align
in lockstep.  Never counted as proved.

An input is *admissible* when the definition, executed by CPython on guarded
lists, neither raises IndexError nor uses a negative index nor reads a slot it
has not written, and every value it produces is representable in the declared
element type.  (That is the executable form of "argument values satisfying the
kernel's preconditions ... representable in each".)
"""
import math, random, signal

import numpy as np

from .native import parse_type, NP

KSLICENONE = 9223372036854775807


class Inadmissible(Exception):
    pass


class GuardList:
    """fixed-size list: no negative indexes, no out-of-range, reads of unwritten output slots are inadmissible"""
    __slots__ = ("data", "written", "name", "maxread", "maxwrite", "is_out")

    def __init__(self, name, data, is_out):
        self.data = list(data)
        self.name = name
        self.is_out = is_out
        self.written = set()
        self.maxread = -1
        self.maxwrite = -1

    def _chk(self, i):
        if isinstance(i, bool) or not isinstance(i, (int, np.integer)):
            if isinstance(i, float) and i == int(i):
                raise Inadmissible("float index")
            raise Inadmissible("non-integer index %r into %s" % (i, self.name))
        if i < 0 or i >= len(self.data):
            raise Inadmissible("index %d outside %s[0:%d]" % (i, self.name, len(self.data)))
        return int(i)

    def __getitem__(self, i):
        i = self._chk(i)
        if self.is_out and i not in self.written:
            raise Inadmissible("read of unwritten output slot %s[%d]" % (self.name, i))
        self.maxread = max(self.maxread, i)
        return self.data[i]

    def __setitem__(self, i, v):
        i = self._chk(i)
        self.written.add(i)
        self.maxwrite = max(self.maxwrite, i)
        self.data[i] = v

    def __len__(self):
        return len(self.data)


def compile_definition(src, name):
    env = {"uint8": lambda x: int(x) & 0xFF, "__builtins__": {"range": range, "int": int, "float": float, "len": len,
                                                                "ValueError": ValueError, "abs": abs, "min": min,
                                                                "max": max, "bool": bool, "True": True, "False": False}}
    exec(compile(src, "<definition of %s>" % name, "exec"), env)
    fn = env.get(name)
    if fn is None:
        raise KeyError("definition does not define %s" % name)
    return fn


OUT_SIZE = 48
IN_SIZE = 12


def _small_int(rng, lo, hi):
    return rng.randint(lo, hi)


def gen_case(rng, args, consts=None):
    """heuristic generator of small inputs; admissibility is decided by the definition itself"""
    n = rng.randint(0, 5)
    m = rng.randint(0, 6)
    vals = {}
    lengths = [n, m, 0, 1, 2, 3]
    memo = {}
    for a in args:
        depth, base = parse_type(a["type"])
        name = a["name"]
        role = a.get("role") or "default"
        lname = name.lower()
        if depth == 0:
            if base == "bool":
                vals[name] = rng.random() < 0.5
            elif base in ("float", "double"):
                vals[name] = float(rng.randint(-3, 3)) / 2
            elif "len" in lname or lname in ("size", "numcontents", "target", "n", "outlength", "repetitions", "regularsize",
                                              "count", "skip", "ndim") or lname.endswith("size") or lname.endswith("count"):
                vals[name] = rng.choice(lengths)
            elif lname in ("step",):
                vals[name] = rng.choice([1, 1, 2, 3, -1, -2, -3])
            elif lname in ("start", "stop", "regular_start", "regular_stop"):
                vals[name] = rng.choice([KSLICENONE] + list(range(-7, 9)))
            elif "offset" in lname:
                vals[name] = rng.randint(0, 3)
            elif base.startswith("uint"):
                vals[name] = rng.randint(0, 5)
            else:
                vals[name] = rng.randint(-3, 6)
        elif depth == 1:
            is_out = a["dir"] == "out"
            if is_out:
                vals[name] = None
                continue
            L = IN_SIZE
            unsigned = base.startswith("uint")
            if base == "bool":
                v = [rng.random() < 0.5 for _ in range(L)]
            elif base in ("float", "double"):
                v = [float(rng.randint(-4, 6)) / 2 for _ in range(L)]
            elif "offsets" in role or "offsets" in lname:
                cur = rng.randint(0, 2)
                v = []
                for _ in range(L):
                    v.append(cur)
                    cur += rng.choice([0, 0, 1, 2, 3])
            elif "starts" in role or "starts" in lname:
                v = [rng.randint(0, 5) for _ in range(L)]
                memo["starts"] = v
            elif ("stops" in role or "stops" in lname) and "starts" in memo:
                v = [s + rng.choice([0, 0, 1, 2, 3]) for s in memo["starts"]]
            elif "parents" in role or "parents" in lname:
                cur = 0
                v = []
                for _ in range(L):
                    v.append(cur)
                    cur += rng.choice([0, 0, 0, 1, 1, 2])
            elif "mask" in role or "mask" in lname:
                # byte masks are "zero / non-zero": include non-canonical true values
                v = [rng.choice([0, 0, 1, 1, 1, 2, -1, 127] if base == "int8_t" else [0, 1]) for _ in range(L)]
            elif "tags" in role or "tags" in lname:
                v = [rng.randint(0, 2) for _ in range(L)]
            elif "index" in role or "index" in lname or "carry" in lname:
                v = [rng.randint(0 if unsigned else -1, 5) for _ in range(L)]
            else:
                v = [rng.randint(0 if unsigned else -2, 6) for _ in range(L)]
            vals[name] = v
        else:
            is_out = a["dir"] == "out"
            rows = rng.randint(1, 3)
            if is_out:
                vals[name] = ("out2", rows)
            else:
                out = []
                for _ in range(rows):
                    cur = rng.randint(0, 1)
                    row = []
                    for _ in range(IN_SIZE):
                        row.append(cur)
                        cur += rng.choice([0, 1, 2])
                    out.append(row)
                vals[name] = out
    return vals


def representable(v, base):
    if base == "bool":
        return v in (0, 1, True, False)
    if base in ("float", "double"):
        return isinstance(v, (int, float))
    if isinstance(v, float):
        if v != int(v):
            return False
        v = int(v)
    if isinstance(v, bool):
        v = int(v)
    if not isinstance(v, int):
        return False
    info = np.iinfo(NP[base])
    return info.min <= v <= info.max


def run_definition(fn, args, vals):
    """returns ('ok'|'error', guarded lists, written sets)  or raises Inadmissible"""
    call = []
    glists = {}
    for a in args:
        depth, base = parse_type(a["type"])
        v = vals[a["name"]]
        if depth == 0:
            call.append(v)
        elif depth == 1:
            if v is None:
                g = GuardList(a["name"], [None] * OUT_SIZE, True)
            else:
                g = GuardList(a["name"], v, False)
            glists[a["name"]] = g
            call.append(g)
        else:
            if isinstance(v, tuple):
                rows = [GuardList("%s[%d]" % (a["name"], r), [None] * OUT_SIZE, True) for r in range(v[1])]
            else:
                rows = [GuardList("%s[%d]" % (a["name"], r), row, False) for r, row in enumerate(v)]
            g = GuardList(a["name"], rows, False)
            glists[a["name"]] = g
            call.append(g)
    def _alarm(signum, frame):
        raise Inadmissible("definition did not terminate within 0.5 s")
    old = signal.signal(signal.SIGALRM, _alarm)
    signal.setitimer(signal.ITIMER_REAL, 0.5)
    try:
        fn(*call)
        status = "ok"
    except ValueError:
        status = "error"
    except Inadmissible:
        raise
    except (IndexError, TypeError, ZeroDivisionError, OverflowError, NameError, AttributeError) as ex:
        raise Inadmissible("%s: %s" % (type(ex).__name__, ex))
    finally:
        signal.setitimer(signal.ITIMER_REAL, 0)
        signal.signal(signal.SIGALRM, old)
    return status, glists


def compare(args, vals, status, glists, res):
    """returns None if kernel result agrees with the definition, else a description"""
    if "crash" in res:
        return "kernel crashed with signal %s" % res["crash"]
    if "hang" in res:
        return "kernel did not return within the time limit"
    if "harness_error" in res:
        return None
    kerr = res["err"] is not None
    if (status == "error") != kerr:
        return "definition %s but kernel %s" % ("raises ValueError" if status == "error" else "succeeds",
                                                  ("returns error %r" % res["err"]) if kerr else "returns success")
    if not res["guard_ok"]:
        return "kernel wrote outside the extent the definition writes (guard zone modified: %s)" % res.get("guard_bad")
    if status == "error":
        return None
    for a in args:
        depth, base = parse_type(a["type"])
        if depth != 1:
            continue
        name = a["name"]
        g = glists[name]
        got = res["arrays"][name]
        const = a["type"].startswith("Const[")
        if const:
            if list(got) != [_cast(x, base) for x in g.data[:len(got)]]:
                return "kernel modified its input array %s" % name
            continue
        for i in range(len(got)):
            if i in g.written:
                exp = _cast(g.data[i], base)
                if not _eq(exp, got[i], base):
                    return "%s[%d]: definition gives %r, kernel gives %r" % (name, i, exp, got[i])
            elif g.is_out:
                if not _is_sentinel(got[i], base):
                    return "%s[%d]: kernel wrote %r where the definition writes nothing" % (name, i, got[i])
            else:
                exp = _cast(g.data[i], base)
                if not _eq(exp, got[i], base):
                    return "%s[%d]: definition leaves %r, kernel leaves %r" % (name, i, exp, got[i])
    return None


def _cast(v, base):
    if base == "bool":
        return bool(v)
    if base in ("float", "double"):
        return float(np.float32(v)) if base == "float" else float(v)
    return int(v)


def _eq(a, b, base):
    if base in ("float", "double"):
        if isinstance(a, float) and isinstance(b, float) and math.isnan(a) and math.isnan(b):
            return True
        tol = 1e-5 if base == "float" else 1e-12
        return abs(a - b) <= tol * max(1.0, abs(a), abs(b))
    return a == b


SENT = {"bool": 0x5A, "int8_t": 0x5A, "uint8_t": 0x5A}


def sentinel(base):
    if base == "bool":
        return True   # written through a uint8 view below
    if base in ("float", "double"):
        return -7777.25
    info = np.iinfo(NP[base])
    return min(info.max, 23130) if info.max < 2 ** 15 else 1515870810 if info.max < 2 ** 32 else 6510615555426900570


def _is_sentinel(v, base):
    if base == "bool":
        return True    # cannot be told apart from a written value; covered by the guard zones and by written slots
    return v == sentinel(base) or (base in ("int8_t", "uint8_t") and v == 90)


def kernel_values(args, vals, glists):
    """values to hand to the compiled kernel: inputs as given, outputs = sentinel-filled buffers"""
    out = {}
    for a in args:
        depth, base = parse_type(a["type"])
        name = a["name"]
        v = vals[name]
        if depth == 0:
            out[name] = v
        elif depth == 1:
            if v is None:
                s = sentinel(base) if base not in ("int8_t", "uint8_t") else 90
                out[name] = [s] * OUT_SIZE
            else:
                out[name] = list(v)
        else:
            if isinstance(v, tuple):
                out[name] = [[sentinel(base)] * OUT_SIZE for _ in range(v[1])]
            else:
                out[name] = [list(r) for r in v]
    return out


def check_representable(args, glists):
    for a in args:
        depth, base = parse_type(a["type"])
        if depth != 1:
            continue
        g = glists[a["name"]]
        for i in (g.written if g.is_out else range(len(g.data))):
            if not representable(g.data[i], base):
                raise Inadmissible("%s[%d]=%r not representable in %s" % (a["name"], i, g.data[i], base))


def difftest(runner, symbol, args, fn, rng, want=40, max_tries=4000, fixed_cases=()):
    """returns dict(cases=accepted, tried=..., mismatch=None|{'input':..., 'why':...}, distinct=...)"""
    accepted = tried = 0
    seen = set()
    for fixed in list(fixed_cases) + [None] * max_tries:
        if accepted >= want and fixed is None:
            break
        tried += 1
        vals = fixed if fixed is not None else gen_case(rng, args)
        try:
            status, glists = run_definition(fn, args, vals)
            if status == "ok":
                check_representable(args, glists)
        except Inadmissible:
            continue
        key = repr(sorted((k, v) for k, v in vals.items()))
        if key in seen:
            continue
        seen.add(key)
        kv = kernel_values(args, vals, glists)
        res = runner.call(symbol, args, kv)
        accepted += 1
        why = compare(args, vals, status, glists, res)
        if why is not None:
            return {"cases": accepted, "tried": tried, "mismatch": {"input": kv, "why": why, "definition_status": status}}
    return {"cases": accepted, "tried": tried, "mismatch": None}
