#!/usr/bin/env python3-vt
"""dev helper: run the kernel engine on symbols matching a regex and print non-proved obligations grouped by function"""
import sys, re, collections
sys.path.insert(0, '/verif')
from akvlib import check, plan
pat = re.compile(sys.argv[1] if len(sys.argv) > 1 else '.*')
kinds = sys.argv[2].split(',') if len(sys.argv) > 2 else ['SIG','S','E','F']
check.init()
syms = [s for s,i in sorted(check.KI.symbols.items()) if pat.search(s) or pat.search(i['kernel'])]
res = check.run_symbols(syms, kinds)
groups = collections.OrderedDict()
tot = collections.Counter()
for r in res:
    for o in r['obligations']:
        tot[o['status']] += 1
        if o['status'] != 'proved':
            key = (r.get('impl') or r['symbol'], o['kind'], o['line'], o['desc'][:110])
            groups.setdefault(key, []).append(r['symbol'])
    for e in r['errors']: print('ERROR', r['symbol'], e)
    if not r['unit_ok']: print('NOTE', r['symbol'], r['notes'])
    if r.get('e') and not (r['e'] in ('aligned',) or r['e'].startswith('spec_') or r['e'].startswith('exempt')): print('E', r['symbol'], r['e'])
for k, v in groups.items():
    print(len(v), k, v[0] if len(v)==1 else '')
print(dict(tot), 'symbols', len(syms))
if '-v' in sys.argv:
    for r in res:
        for o in r['obligations']:
            if o['status'] != 'proved': print(o['id'], o['desc']); print(o['model'])
